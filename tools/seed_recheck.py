#!/usr/bin/env python3
"""Re-run the quick check of the own property of every seeded change (seeded/*/patch.diff) against a scratch
worktree of /repo HEAD with the patch applied.  usage: tools/seed_recheck.py [-j N] [names...]
Prints one line per change; exit 0 iff every change is still caught (check exit 1) and no check had an
infrastructure problem.  Scratch worktrees live under /tmp/wt and are removed."""
import json, os, subprocess, sys, time
from concurrent.futures import ThreadPoolExecutor
V = os.path.dirname(os.path.dirname(os.path.abspath(__file__)))
ENV = dict(os.environ, GOFLAGS="-mod=mod", GOPROXY="off", GOSUMDB="off", GOTOOLCHAIN="local")

# documented in DESIGN.md section 15: kept as seeded changes, not expected to be reported
KNOWN_UNCAUGHT = {"m6-C15", "m7-C17", "m9-C07", "m10-C06"}  # m10-C06: its precondition was removed by fix: 2251fdf (caught on the tree before it)


def one(name):
    meta = json.load(open(os.path.join(V, "seeded", name, "meta.json")))
    pid = meta["property"]
    scratch = "/tmp/wt/recheck-" + name
    subprocess.run("git -C /repo worktree remove --force %s" % scratch, shell=True, capture_output=True)
    p = subprocess.run("git -C /repo worktree add -q %s HEAD && git -C %s apply %s" % (scratch, scratch, os.path.join(V, "seeded", name, "patch.diff")),
                       shell=True, capture_output=True, text=True)
    if p.returncode:
        subprocess.run("git -C /repo worktree remove --force %s" % scratch, shell=True, capture_output=True)
        return name, pid, "PATCH-FAILS", p.stderr.strip()[:200]
    t0 = time.time()
    try:
        q = subprocess.run([os.path.join(V, "bin", "check"), pid, "quick"], cwd=V, env=dict(ENV, VERIF_REPO=scratch), capture_output=True, text=True, timeout=3600)
        nv = sum(1 for l in q.stdout.splitlines() if l.startswith("VIOLATION"))
        res = {0: "MISSED", 1: "caught"}.get(q.returncode, "INFRA(%d)" % q.returncode)
        tail = (q.stdout.strip().splitlines() or [""])[-1][:160]
    finally:
        subprocess.run("git -C /repo worktree remove --force %s" % scratch, shell=True, capture_output=True)
        subprocess.run("git -C /repo worktree prune", shell=True, capture_output=True)
    return name, pid, res, "%d VIOLATION lines, %ds | %s" % (nv, time.time() - t0, tail)

def main():
    args = sys.argv[1:]
    j = 2
    if args[:1] == ["-j"]:
        j = int(args[1]); args = args[2:]
    names = args or sorted(os.listdir(os.path.join(V, "seeded")))
    bad = 0
    with ThreadPoolExecutor(max_workers=j) as ex:
        for name, pid, res, info in ex.map(one, names):
            print("%-8s %s %-12s %s" % (name, pid, res, info), flush=True)
            bad += res != "caught" and not (name in KNOWN_UNCAUGHT and res == "MISSED")
    print("SUMMARY %d/%d caught" % (len(names) - bad, len(names)))
    return 1 if bad else 0

sys.exit(main())
