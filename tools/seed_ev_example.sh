#!/bin/sh
# usage: ev.sh C12 [extra checks]
id=$1; shift
cd /verif && python3 tools/seed_eval.py m12-$id /tmp/wt/r12-$id $id "$@" > /tmp/wt/eval-$id.log 2>&1
