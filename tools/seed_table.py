#!/usr/bin/env python3
"""Regenerates the table of section 14 of DESIGN.md from seeded/*/meta.json (+ the short descriptions below)."""
import json, glob, os, re
V = os.path.dirname(os.path.dirname(os.path.abspath(__file__)))
DESC = {
 "m5-C01": ("window checked on 'some member of the Signature list', signature on another", "a decoy member whose window covers t next to the genuine member whose window does not", "MISSED at the first evaluation; decoy-member scenarios added (K17)"),
 "m5-C02": ("same slip as m3-C01 (leading empty values dropped), delivered for C02", "repeated header whose first value is empty", "caught at the first evaluation"),
 "m5-C03": ("stride of the variant slot computed with = instead of *=", "b1 variant set over three or more axes", "MISSED at the first evaluation; complete / incomplete / overlapping sets over 1-3 axes added to the random bundles (K17)"),
 "m5-C04": ("index builder ignores the error of EncodeTextString", "exchange URL that is not valid UTF-8", "MISSED at the first evaluation; such a URL added, `Refused` extended (K17)"),
 "m5-C05": (":status parsed with base 0 (leading zero = octal)", "status text 010..099 in the file", "caught at the first evaluation (byte-level fuzz)"),
 "m5-C06": ("7-day cap via AddDate(0,0,7) in the process's local zone", "process time zone with daylight saving, signature dated next to a transition", "MISSED at the first evaluation; the verifier families now also run under TZ=America/New_York and TZ=Europe/Berlin on such dates (K17)"),
 "m5-C07": ("'already signed' also decided by content (magic at offset 2)", "file whose bytes look like an integrity block but whose trailing length covers the whole file", "MISSED at the first evaluation; file kind `exactmagic` added (K17)"),
 "m5-C08": ("verify path rebuilds the message from url.Parse(validity-url).String()", "validity-url spelled as another implementation may (upper-case scheme, empty fragment)", "MISSED by C08 at the first evaluation (C01 caught it); opaque validity URLs and verdicts added to C08 (K17)"),
 "m5-C09": ("window compared in whole seconds", "instant with a sub-second part just past expires", "caught at the first evaluation"),
 "m5-C10": ("error message slices an attacker-supplied digest at 16 hex digits", "validly signed subset whose header-sha256 is shorter than 8 bytes", "MISSED at the first evaluation; validly signed unusual subsets added to the totality harness (K17)"),
 "m5-C11": ("previous key copied into a 512-byte array", "two equal keys longer than 512 encoded bytes", "MISSED at the first evaluation; keys of 255..5000 bytes and more duplicates (K17)"),
 "m5-C12": ("bytes.Buffer fast path bounded by cap", "truncated string read from a *bytes.Buffer over a sub-slice", "MISSED by C12 at the first evaluation (C05 caught it through bundle.Read); source kinds added to the reader-side family (K17)"),
 "m5-C13": ("later map keys compared with the first key", "map of three or more pairs with the 2nd / 3rd swapped or equal", "caught at the first evaluation"),
 "m5-C14": ("one package-level hasher shared by all decoders", "two decoders of different streams running at the same time", "MISSED at the first evaluation; family (D) parallel-cold added and wired into the decoder / parser / verifier checks (K17)"),
 "m5-C15": ("limit 0 means 'no limit'", "caller's limit 0", "caught at the first evaluation"),
 "m5-C16": ("parameters sorted by their rendered text", "one key a prefix of another, continued by '-' or a digit", "caught at the first evaluation"),
 "m5-C17": ("same slip as m3-C12 (single Read), delivered for C17", "source that returns EOF with the last byte / (0, nil)", "caught at the first evaluation (reader-side schedules)"),
 "m5-C18": ("unsynchronised package-level cache of parsed Variants values", "concurrent WriteTo of b1 bundles with a Variants value not seen before in the process", "MISSED at the first evaluation (reference bytes were computed sequentially first, which warmed the cache); family (D) runs fresh objects in parallel before any sequential call (K17)"),
 "m5-C19": ("error wrapping dereferences the optional primary URL", "b2 bundle without primary URL and a write fault inside a section", "MISSED at the first evaluation; bare and empty b2 bundles added to the fault runs (K17)"),
 "m5-C20": ("CanSignForURL verifies Host (with port)", "base URL with an explicit port", "MISSED at the first evaluation; base URL `port` added to Cli.tla (K17)"),

 "m4-C01": ("header-map readers test 'no byte A..Z' instead of key == ToLower(key)", "a header NAME in the file respelled with U+0130 / U+212A (which Unicode lower-casing folds onto i / k), lengths fixed up", "header-name respelling added on reading the report (K16)"),
 "m4-C02": ("MiEncodePayload takes its buffer from a sync.Pool and returns it while e.Payload still aliases it", "a second exchange prepared before the first is written", "exchanges are now prepared in batches before any is signed (K16)"),
 "m4-C03": ("b2 reader demands a host in the primary URL", "primary URL that is absolute without authority (urn:, file:///)", "primary-URL shapes added (K16)"),
 "m4-C04": ("b1 writer skips a nil primary URL instead of failing", "b1 bundle without primary URL", "the case was excluded from MC_Bundle (the pinned writer panics on it); now included, with a panic on a bundle that must be refused counted as refusal (K16)"),
 "m4-C05": ("variant key-count cap checked after the multiplication loop", "variants-value with >= 63 two-valued axes (product wraps) and no locations", "`manyaxes` mutation added (K16)"),
 "m4-C06": ("first signer's chain adopted without copying", "the same chain object signs a second bundle that then gets a second signer", "missed twice: (1) the harness copied the bundle before every signer, which severs exactly the sharing at fault - histories now also sign in place, with one chain object per signer, a 3-certificate chain, and re-verification of the previous bundle after the next is signed; (2) the judge derived its expectation from the (by then corrupted) authorities - honest histories now require every vouched subset to point at the certificate recorded inside the signing algorithm (K16)"),
 "m4-C07": ("sign-bundle integrity-block opens its output without O_TRUNC", "output path already holds a longer file", "the C07 check now also drives the command-line path, every output path pre-filled (K16)"),
 "m4-C08": ("signed message assembled in a pooled buffer that is returned before it is used", "another sign/verify between building the message and signing it", "a signature held in flight (gated algorithm, one scheduler thread) while another exchange is signed (K16)"),
 "m4-C09": ("lifetime computed in int64 (wraps)", "date hugely negative so that expires - date >= 2^63", "signed timestamps: `SLifetimeOk` / `SInWindow` and six scenarios (K16)"),
 "m4-C10": ("IsCacheable indexes its status table without bound check", "b3, validly signed, status 502..511 without freshness information", "valid signed exchanges over every status added to the totality harness (C09 caught it before)"),
 "m4-C11": ("duplicate-key check with bytes.EqualFold", "two distinct keys equal under case folding", "case-pair keys added to MC_CborEnc and the generator (K16)"),
 "m4-C12": ("text validated per 32 KiB block", "multi-byte character across a 32768-byte offset", "long texts made of multi-byte characters added (K16); the demonstration needs `-tags verif` (tools/seed_eval.py now passes it)"),
 "m4-C13": ("argument bytes read by a slice expression bounded by cap, not len", "truncated integer head in a slice with spare capacity", "missed at first: my loose-slice probe ran after the exact call inside the same recover, so the (legitimate) panic of the exact call ended the probe; each call now has its own recover. Every input is also judged as prefix of a larger buffer; differing verdicts are `unstable` (K16)"),
 "m4-C14": ("decoder gains WriteTo that forgets the undelivered tail of the current record", "Read of a few bytes, then io.Copy", "`copy` / `sniffcopy` consumers and the Drain rule of Trace_Mice (K16)"),
 "m4-C15": ("digest header parsed as a list; no matching element yields a nil proof = 'all records done'", "digest header whose token is not the encoding's", ""),
 "m4-C16": ("label validation moved to the list serialiser only", "ParameterisedIdentifier.String() called directly with a malformed label", "the single-identifier entry point and more malformed labels added (K16)"),
 "m4-C17": ("SerializeSCTList returns bytes of a pooled buffer", "a second, shorter list serialised before the first is used", "results are now observed late, sizes also decreasing (K16)"),
 "m4-C18": ("HeaderSha256 uses a pooled buffer that a failing call leaves dirty", "an unrelated failing call (colliding header names) before an ordinary one", "HeaderSha256 and a failing variant added to the interleaved purity histories; results observed late (K16)"),
 "m4-C19": ("Encode buffers through bufio with a deferred Flush when there are > 512 records", "many records and a fault in the last buffered part", "a 520-record serializer added (K16)"),
 "m4-C20": ("ParsePrivateKey fails on the first unparseable PEM block", "key file with an EC PARAMETERS block before the key (openssl ecparam)", "key layout `sec1params` added to Cli.tla (K16)"),

 "m3-C01": ("normalizeHeaderValues drops leading empty field values", "tampering that puts an empty value in front of a signed header value (in memory or as an extra map entry in the file)", "empty-value edits were added to the C01 mutation family on reading the report, before the evaluation (K15)"),
 "m3-C02": ("validateFallbackURL returns url.String() instead of the file's bytes", "a request URL that net/url re-serialises differently (upper-case scheme, non-ASCII, `|`, `{}`)", "missed at first by C02 (C01 caught it through bit flips in the scheme): request URLs outside the plain grammar + RefReadL; this also exposed F12"),
 "m3-C03": ("index built from Header.Get (first field line) of Variants / Variant-Key", "b1, several variants, header given as repeated field lines", "templates with repeated field lines added on reading the report (K15)"),
 "m3-C04": ("NewCountingWriter returns an existing CountingWriter unchanged", "destination is a CountingWriter that has already counted bytes", "destination kind `counting` added on reading the report (K15)"),
 "m3-C05": ("b2 reader `continue`s over a 'manifest' section without advancing", "b2 file with a section named manifest followed by parsed sections", "`foreign` mutation added on reading the report (K15)"),
 "m3-C06": ("verifier refuses an empty subset-hashes map", "a signer whose certificate covers no exchange of the bundle", "missed at first: signer s5 (covers nothing) and sequences with it were added"),
 "m3-C07": ("built-in Ed25519 strategy: post-signing check replaced by comparing the private key's cached public half", "a private key whose halves disagree", "missed at first: histories now use the library's own strategy with a sound and an inconsistent key"),
 "m3-C08": ("Signer caches cert-sha256, never invalidated", "one Signer object signing again after its certificate was replaced", "long-lived Signer with renewed certificate added on reading the report (K15)"),
 "m3-C09": ("validity-url resolved against the request URL", "a relative validity-url (empty, path, query, scheme-relative)", "missed at first: relative validity URLs added to the deviation grid and to MC_SxgPolicy"),
 "m3-C10": ("'cert' key check moved from the shared decoder to Validate()", "bundle signatures section with an authority map lacking 'cert', then NewVerifier", "missed at first by C10 (C06 caught it): structure-aware damage of signed bundles added to the totality harness"),
 "m3-C11": ("encoder reuses a head buffer and stops filling at the first zero", "two heads on one Encoder, the later one with leading zero bytes in its argument", ""),
 "m3-C12": ("ReadByte issues a single Read unless the source is an io.ByteReader", "a source that returns EOF with the last byte, or (0, nil)", "caught by the reader-side schedules (section 13.2), written before this change was seen"),
 "m3-C13": ("pair-count guard multiplies by two in uint64", "a map declaring 2^63+k pairs followed by k pairs", ""),
 "m3-C14": ("ceil idiom (len-1)/rs+1 in Encode", "draft 02, empty payload, record size 1 (panic)", "the encoder call is now run under recover so that a panic is a verdict, not a harness crash"),
 "m3-C15": ("record-size limit check adds 32 in uint64", "record size field 2^64-32..2^64-1", ""),
 "m3-C16": ("unpadded base64 decoded with the URL alphabet", "byte sequence without padding, length not a multiple of 4, containing + or /", ""),
 "m3-C17": ("EncodeTo returns early without OCSP", "SCT list on a non-leaf certificate", ""),
 "m3-C18": ("header names folded by lower-casing over a Go map", "header map with names differing only in letter case", "missed at first: such a map added to the purity histories (the output of a failed call is its error, K12)"),
 "m3-C19": ("one-entry fast path in EncodeMap drops the value write error", "fault inside the value of a one-entry map written last (2-certificate chain, status-only header dump)", ""),
 "m3-C20": ("same slip as m2-C03, reached through gen-bundle -headerOverride", "b1, -headerOverride 'Variants: ...' with two possible keys", "`-headerOverride` pipelines added on reading the report (K15); C03 catches it at library level"),

 "m2-C01": ("expires compared through Unix(): accepted up to expires + 1 s when the instant has a sub-second part", "verification instant in (expires, expires+1s)", ""),
 "m2-C02": ("b1 reader refuses Signature > 16384 / header block > 524288 although the limits are inclusive", "a b1 exchange exactly at a limit", ""),
 "m2-C03": ("b1 index: a URL with one response and a Variants header gets a non-empty variants-value", "b1, single-response URL carrying Variants/Variant-Key", ""),
 "m2-C04": ("same slip as m2-C03 delivered for C04", "b1, single-response URL carrying Variants", ""),
 "m2-C05": ("bundle reader caches decoded responses by offset only", "two index entries with the same offset and different lengths", "the `idxalias` mutation was added while the agents ran (section 12, K10)"),
 "m2-C06": ("7-day cap measured from the verification time instead of the signed date", "expires - date > 7 days verified late in the window", ""),
 "m2-C07": ("integrity-block prepend done by append + swap", "a third signature (order wrong from the 3rd on)", ""),
 "m2-C08": ("Signature `expires` computed from a duration", "signer Date/Expires with sub-second parts, Expires fraction < Date fraction", "generators used whole seconds: signer times now carry random nanoseconds (K10)"),
 "m2-C09": ("lifetime cap applied to the remaining time", "lifetime > 7 days verified less than 7 days before expiry", ""),
 "m2-C10": ("offset+length guard only bounds length", "index offset 2^64-k with k between the responses offset and its length", "`idxwrap2` mutation added (K10)"),
 "m2-C11": ("EncodeTextString validates with a range loop comparing to RuneError", "a text string containing a correctly encoded U+FFFD", "U+FFFD added to the text universes of MC_CborEnc / MC_CborDec and the generators (K10)"),
 "m2-C12": ("DecodeTextString refuses U+FFFD", "a text string containing U+FFFD", "as m2-C11"),
 "m2-C13": ("length-first map key order in cbor.Deterministic", "map keys of different major types / lengths where bytewise and length-first order differ", ""),
 "m2-C14": ("record size + 32 > limit refused by the MI decoder", "record sizes within 32 of the limit", ""),
 "m2-C15": ("a chunk that failed validation stays in the decoder's output buffer", "a consumer that reads again after the error", "harness stopped at the first error: it now makes 3 more reads and Trace_Mice judges them (K10)"),
 "m2-C16": ("isValidKey/isValidToken test only the low byte of a rune", "a key / token with a rune >= U+0100 whose low byte is an allowed character", "non-ASCII runes added to generated keys and tokens (K10)"),
 "m2-C17": ("a zero-length byte string decodes to nil", "an augmented certificate with an empty OCSP / SCT value", ""),
 "m2-C18": ("b1 variants-value buffer hoisted out of the per-URL loop", "b1 bundle mixing a multi-variant URL and a single-response URL; depends on map iteration order", "missed at first (quick MC_Bundle stops at 2 exchanges, all variant templates on one URL): second MC_Bundle configuration (3 exchanges over variant + plain templates) and a mixed b1 bundle in the purity histories (K10)"),
 "m2-C19": ("Bundle.WriteTo reports 0 bytes when the first write fails", "a short write with error inside the 15-byte magic/version prefix", ""),
 "m2-C20": ("authority index points at the last certificate of the signer's chain", "sign-bundle with a chain of 2 certificates", "missed at first by C20 (caught by C06): the pipelines now sign with leaf-only and leaf+issuer chains (K10)"),

 "m1-C01": ("verifyPayload returns early for an empty payload in b2/b3 (skips the MI decoder)", "truncating the file at the first payload byte / Payload=nil of an exchange signed with a non-empty payload", ""),
 "m1-C02": ("MI NewDecoder also counts the 32-byte proof against the record-size limit", "record sizes 16353..16384 (legal, accepted by the signer) no longer verify", ""),
 "m1-C03": ("CBOR head boundary `n <= 1<<16` (65536 written as 19 00 00)", "a body / offset / response length of exactly 65536", ""),
 "m1-C04": ("CBOR head boundary `n < MaxUint16` (65535 written with a 4-byte argument)", "a value of exactly 65535 anywhere in a bundle", ""),
 "m1-C05": ("cbor decoder reads head arguments with a single Read: a short read is zero-filled", "a 2/4/8-byte argument cut off by the end of a nested buffer whose missing low bytes are zero (length 256)", "missed at first: bases with lengths 255/256 and the `sectrunc` / `sltrunc` mutations were added"),
 "m1-C06": ("authority index = len(VouchedSubsets) instead of len(Authorities)", "a later signer after a signer with a chain of 2 certificates", "missed at first: signer s4 (one host, chain of 2) and sequences [s4, s2, ..] were added"),
 "m1-C07": ("IntegrityBlockSigner caches the serialised block, never invalidated", ">= 2 successful signatures through the SAME signer object", "missed at first: histories now reuse one signer object in every other case"),
 "m1-C08": ("same encoder slip as m1-C04, found through signed exchanges", "a header value of exactly 65535 bytes", ""),
 "m1-C09": ("IsCacheable returns true on an Expires header before looking at Cache-Control", "b3 + Expires + no-store / private", "caught by one random pair at first: the grid now crosses every directive subset with an Expires header on two statuses"),
 "m1-C10": ("b2 index parser pre-allocates `make(.., 0, numUrls)` from the declared map count", "an index map header declaring 2^21 .. 2^62 entries", "missed at first: `idxcount` / `respcount` mutations and crash isolation (fatal out-of-memory) were added"),
 "m1-C11": ("duplicate-key check hoisted before sorting (adjacent in caller order only)", "three or more entries with the equal keys not adjacent", ""),
 "m1-C12": ("decoder reuses an 8-byte scratch buffer without clearing", "a 4/8-byte head followed later by a narrower multi-byte head on one decoder", ""),
 "m1-C13": ("string bounds check `>` instead of `>=`", "a string with a 1+ byte length argument missing exactly its last byte at the end of the input", ""),
 "m1-C14": ("decoder.Read reports EOF as soon as the last record was validated", "a final record that needs more than one Read (buffer smaller than the record, ReadAll growth at 512)", ""),
 "m1-C15": ("decoder.Read returns io.EOF together with a partial final record", "same trigger as m1-C14, other code path", ""),
 "m1-C16": ("`paramValue` declared outside the parameter loop", "a valued parameter followed by a bare one in one identifier", ""),
 "m1-C17": ("Validate loops over certChain[1:] but keeps the `i != 0` guard", "OCSP present on element 0 and element 1", ""),
 "m1-C18": ("HeaderMagicBytesB1/B2 built with append: spare capacity, HeaderMagicBytes() appends in place", "two goroutines serialising bundles of the same version", ""),
 "m1-C19": ("mice.Encode: error of a failed proof write shadowed", "fault position inside an inter-record proof of a multi-record payload", ""),
 "m1-C20": ("convertPathToURL re-parses ref.EscapedPath() (colon not escaped)", "a top-level file name containing ':'", ""),
}
rows = []
for d in sorted(glob.glob(os.path.join(V, "seeded", "*", "meta.json"))):
    m = json.load(open(d))
    desc = DESC.get(m["name"], ("", "", ""))
    caught = ", ".join("%s (%d)" % (k, v["violations"]) for k, v in m["checks"].items() if v["exit"] == 1)
    missed = ", ".join(k for k, v in m["checks"].items() if v["exit"] == 0)
    rows.append("| `seeded/%s` %s | %s | %s | %s%s | %s |" % (m["name"], desc[0], m["property"], desc[1], caught or "—", (" ; not by " + missed) if missed else "", desc[2]))
p = os.path.join(V, "DESIGN.md")
s = open(p).read()
start = s.index("| seeded change | breaks |")
end = s.index("(rows are appended as changes are confirmed)")
hdr = "| seeded change | breaks | needs, to manifest | caught by quick check (VIOLATION lines) | notes |\n|---|---|---|---|---|\n| reverse of F1..F11 | see section 7 | see section 7 | the check named there | observed on the then-unchanged tree |\n"
s = s[:start] + hdr + "\n".join(rows) + "\n\n" + s[end:]
open(p, "w").write(s)
print(len(rows), "rows")
