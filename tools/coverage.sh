#!/bin/sh
# Authoring aid: function-level coverage of /repo reached by the harness over all quick checks (C20 runs the built
# binaries, which are not instrumented).  usage: tools/coverage.sh [ids...]  -> prints functions with 0% coverage
DIR="$(cd "$(dirname "$0")/.." && pwd)"
export GOCOVERDIR=/tmp/verif-cover VERIF_COVER=1
rm -rf "$GOCOVERDIR"; mkdir -p "$GOCOVERDIR"
"$DIR/bin/checkall" quick "$@" > /dev/null
cd "$DIR/harness" && GOFLAGS=-mod=mod GOPROXY=off GOSUMDB=off GOTOOLCHAIN=local go tool covdata func -i="$GOCOVERDIR" | grep -v "verifapi\|/cmd/" | sort -k3 -n | awk '{print}' > "$DIR/.work/logs/coverage-func.txt"
grep -c . "$DIR/.work/logs/coverage-func.txt"
grep "\s0.0%" "$DIR/.work/logs/coverage-func.txt"
rm -rf "$GOCOVERDIR"
