#!/usr/bin/env python3
"""Authoring helper: prints TLA+ definitions of ASCII string constants as byte tuples."""
import sys
def tup(s): return "<<" + ",".join(str(b) for b in s.encode()) + ">>"
for arg in sys.argv[1:]:
    name, s = arg.split("=", 1)
    print("%s == %s   \\* %r" % (name, tup(s), s))
