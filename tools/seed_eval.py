#!/usr/bin/env python3
"""Evaluate a candidate seeded change delivered by a sub-agent in a scratch worktree.
usage: tools/seed_eval.py <name> <worktree> <property id> [extra check ids...]
Steps: (1) confirm in a FRESH scratch worktree: patch applies, builds, the 154 baseline tests pass with it, the
demonstration fails with it and passes without it; (2) run the named checks (quick) against that worktree
(VERIF_REPO); (3) store patch + demo + meta.json under /verif/seeded/<name>/ and print one summary line."""
import json, os, shutil, subprocess, sys, time
V = os.path.dirname(os.path.dirname(os.path.abspath(__file__)))
ENV = dict(os.environ, GOFLAGS="-mod=mod", GOPROXY="off", GOSUMDB="off", GOTOOLCHAIN="local")

def sh(cmd, cwd, env=ENV, timeout=1800):
    p = subprocess.run(cmd, cwd=cwd, env=env, shell=True, capture_output=True, text=True, timeout=timeout)
    return p.returncode, (p.stdout + p.stderr)

def main():
    name, wt, pid = sys.argv[1], sys.argv[2], sys.argv[3]
    checks = [pid] + sys.argv[4:]
    patch = os.path.join(wt, "mutant.diff")
    scratch = "/tmp/wt/verify-" + name
    subprocess.run("git -C /repo worktree remove --force %s" % scratch, shell=True, capture_output=True)
    rc, out = sh("git -C /repo worktree add -q %s HEAD" % scratch, "/")
    if rc:
        print("cannot create scratch worktree", out); return 2
    meta = {"name": name, "property": pid, "source_worktree": wt, "ran": []}
    try:
        # demo files = untracked files in the agent's worktree other than the deliverables
        rc, out = sh("git status --porcelain --untracked-files=all", wt)
        demos = [l[3:] for l in out.splitlines() if l.startswith("??") and not l[3:].startswith(("mutant.diff", "META.md"))]
        for d in demos:
            os.makedirs(os.path.dirname(os.path.join(scratch, d)) or scratch, exist_ok=True)
            shutil.copy(os.path.join(wt, d), os.path.join(scratch, d))
        demo_pkgs = sorted(set("./" + os.path.dirname(d) for d in demos if d.endswith(".go")))
        meta["demo_files"] = demos
        # without the change: demo passes
        rc0, out0 = sh("go test -tags verif -vet=off -count=1 %s" % " ".join(demo_pkgs), scratch)
        meta["ran"].append("original tree: go test %s -> exit %d" % (" ".join(demo_pkgs), rc0))
        rc, out = sh("git apply %s" % patch, scratch)
        if rc:
            print(name, "PATCH DOES NOT APPLY", out[:300]); return 2
        rcb, outb = sh("go build ./... ", scratch)
        rc1, out1 = sh("go test -tags verif -vet=off -count=1 %s" % " ".join(demo_pkgs), scratch)
        meta["ran"].append("with change: go build ./... -> exit %d; go test %s -> exit %d" % (rcb, " ".join(demo_pkgs), rc1))
        # baseline suite (all packages except the demo ones) with the change
        rcl, pk = sh("go list ./...", scratch)
        pkgs = [p for p in pk.split() if not any(p.endswith(dp[1:]) for dp in demo_pkgs) and "demo_mutant" not in p]
        # packages that contain an added demo test file inside an existing package: run with -run excluding? keep simple: run them too
        rct, outt = sh("go test -vet=off -count=1 " + " ".join(pkgs), scratch)
        fails = [l for l in outt.splitlines() if l.startswith(("FAIL", "--- FAIL"))]
        meta["ran"].append("with change: baseline go test (all non-demo packages) -> exit %d %s" % (rct, fails[:5]))
        confirmed = rc0 == 0 and rcb == 0 and rc1 != 0 and rct == 0
        meta["confirmed"] = confirmed
        meta["demo_fail_excerpt"] = "\n".join([l for l in out1.splitlines() if "FAIL" in l or "Error" in l or "want" in l][:8])
        results = {}
        if confirmed:
            for c in checks:
                t0 = time.time()
                env = dict(os.environ, VERIF_REPO=scratch)
                p = subprocess.run([os.path.join(V, "bin", "check"), c, "quick"], cwd=V, env=env, capture_output=True, text=True, timeout=3600)
                viol = [l for l in p.stdout.splitlines() if l.startswith("VIOLATION")]
                detail = [l.strip() for l in p.stdout.splitlines() if l.startswith("  ")][:3]
                results[c] = {"exit": p.returncode, "violations": len(viol), "wall_s": round(time.time() - t0), "detail": detail, "tail": p.stdout.splitlines()[-1:] }
                meta["ran"].append("VERIF_REPO=%s bin/check %s quick -> exit %d (%d VIOLATION lines)" % (scratch, c, p.returncode, len(viol)))
        meta["checks"] = results
        dst = os.path.join(V, "seeded", name)
        shutil.rmtree(dst, ignore_errors=True)
        os.makedirs(dst)
        shutil.copy(patch, os.path.join(dst, "patch.diff"))
        for d in demos:
            os.makedirs(os.path.dirname(os.path.join(dst, "demo", d)), exist_ok=True)
            shutil.copy(os.path.join(wt, d), os.path.join(dst, "demo", d))
        if os.path.exists(os.path.join(wt, "META.md")):
            shutil.copy(os.path.join(wt, "META.md"), os.path.join(dst, "AGENT_META.md"))
        json.dump(meta, open(os.path.join(dst, "meta.json"), "w"), indent=1)
        print("SEED %s confirmed=%s checks=%s" % (name, confirmed, {k: (v["exit"], v["violations"]) for k, v in results.items()}))
        for k, v in results.items():
            for dl in v["detail"][:2]:
                print("   %s: %s" % (k, dl[:300]))
        if not confirmed:
            print("   not confirmed:", meta["ran"])
    finally:
        subprocess.run("git -C /repo worktree remove --force %s" % scratch, shell=True, capture_output=True)
        alt = os.path.join(V, ".work", "alt-" + __import__("hashlib").md5(scratch.encode()).hexdigest()[:8])
        shutil.rmtree(alt, ignore_errors=True)
    return 0

if __name__ == "__main__":
    sys.exit(main())
