#!/usr/bin/env python3
"""After strengthening: re-run the quick check of the own property of the named seeded changes and record the result in
their meta.json; the result they had before is kept under "first_evaluation" (only the first time).
usage: tools/seed_update.py [--base <commit of /repo>] <note for first_evaluation> <name>...
--base: apply the patch to that commit of /repo instead of HEAD (for a change whose precondition a later fix: commit of
/repo removed; the meta then says so)."""
import json, os, subprocess, sys, time
V = os.path.dirname(os.path.dirname(os.path.abspath(__file__)))
ENV = dict(os.environ, GOFLAGS="-mod=mod", GOPROXY="off", GOSUMDB="off", GOTOOLCHAIN="local")


def main():
    args = sys.argv[1:]
    base = "HEAD"
    if args[:1] == ["--base"]:
        base, args = args[1], args[2:]
    note, names = args[0], args[1:]
    rc_all = 0
    for name in names:
        mp = os.path.join(V, "seeded", name, "meta.json")
        meta = json.load(open(mp))
        pid = meta["property"]
        scratch = "/tmp/wt/update-" + name
        subprocess.run("git -C /repo worktree remove --force %s" % scratch, shell=True, capture_output=True)
        p = subprocess.run("git -C /repo worktree add -q %s %s && git -C %s apply %s" % (scratch, base, scratch, os.path.join(V, "seeded", name, "patch.diff")),
                           shell=True, capture_output=True, text=True)
        if p.returncode:
            print(name, "PATCH-FAILS", p.stderr[:200]); rc_all = 1
            continue
        try:
            t0 = time.time()
            q = subprocess.run([os.path.join(V, "bin", "check"), pid, "quick"], cwd=V, env=dict(ENV, VERIF_REPO=scratch), capture_output=True, text=True, timeout=3600)
            viol = [l for l in q.stdout.splitlines() if l.startswith("VIOLATION")]
            detail = [l.strip() for l in q.stdout.splitlines() if l.startswith("  ")][:3]
            if "first_evaluation" not in meta:
                meta["first_evaluation"] = {"note": note, "checks": meta["checks"]}
            meta["checks"] = dict(meta["checks"])
            meta["checks"][pid] = {"exit": q.returncode, "violations": len(viol), "wall_s": round(time.time() - t0), "detail": detail, "tail": q.stdout.splitlines()[-1:]}
            meta["ran"].append("after strengthening: VERIF_REPO=<scratch worktree of /repo %s with the patch> bin/check %s quick -> exit %d (%d VIOLATION lines)" % (base, pid, q.returncode, len(viol)))
            if base != "HEAD":
                meta["base_commit"] = base
            json.dump(meta, open(mp, "w"), indent=1)
            print(name, pid, "exit", q.returncode, len(viol), "violations")
            rc_all |= q.returncode != 1
        finally:
            subprocess.run("git -C /repo worktree remove --force %s" % scratch, shell=True, capture_output=True)
            subprocess.run("git -C /repo worktree prune", shell=True, capture_output=True)
    return rc_all


sys.exit(main())
