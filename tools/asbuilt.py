#!/usr/bin/env python3
"""Regenerates the table of DESIGN.md section 13.3 from the evidence files (what each check ran last time)."""
import json, os, re
V = os.path.dirname(os.path.dirname(os.path.abspath(__file__)))
rows = []
for i in range(1, 21):
    pid = "C%02d" % i
    p = os.path.join(V, "evidence", pid + ".json")
    if not os.path.exists(p):
        continue
    e = json.load(open(p))
    c = e["coverage"]
    parts = c.get("parts", {})
    models = [k for k in parts if k.startswith("MC_") or k.startswith("apalache:")]
    fams = [k for k in parts if k not in models and "negative" not in k]
    rows.append("| %s | %s | %s | %s | %s | %s | %ss (%s) |" % (pid, ", ".join("`%s`" % m for m in models) or "-", ", ".join(fams) or "-",
                c.get("states", 0), c.get("traces_validated_against_impl", 0), len(e.get("assumptions", [])), int(e.get("wall_s", 0)), e.get("tier", "?")))
hdr = "| id | TLC / Apalache models run | harness families judged by a trace specification | states | runs of real code judged | stated assumptions | wall time (tier) |\n|---|---|---|---|---|---|---|\n"
p = os.path.join(V, "DESIGN.md")
s = open(p).read()
a, b = "<!-- asbuilt:start -->", "<!-- asbuilt:end -->"
if a not in s:
    raise SystemExit("markers missing")
s = s[:s.index(a) + len(a)] + "\n" + hdr + "\n".join(rows) + "\n" + s[s.index(b):]
open(p, "w").write(s)
print(len(rows), "rows")
