------------------------------ MODULE Trace_Purity ------------------------------
(* Recorded history of serializer calls (C18): every call names its serializer,   *)
(* logical input and goroutine, and carries its output; the history is admissible  *)
(* iff every output equals the reference output of that (serializer, input), no    *)
(* shared input was modified, and there is no "race" record (the vocabulary has    *)
(* none: a race reported by the detector is logged as such a record).              *)
EXTENDS Integers, Sequences, FiniteSets, TLC, Json, IOUtils
Trace == ndJsonDeserialize(IOEnv.VERIF_TRACE)
VARIABLE l
Failures(ev) ==
  IF ev.kind = "race" THEN {"data race reported by the race detector"}
  ELSE (IF \A i \in 1..Len(ev.calls) : ev.calls[i].out = ev.ref THEN {} ELSE {"output differs between repetitions / permutations / goroutines"})
  \cup (IF ev.mutated THEN {"a shared read-only input was modified"} ELSE {})
  \cup (IF ev.sharedcap THEN {"a package-level slice has spare capacity (append would write in place)"} ELSE {})
TraceInit == l = 1
TraceNext ==
  /\ l <= Len(Trace)
  /\ l' = l + 1
  /\ LET f == Failures(Trace[l]) IN IF f = {} THEN TRUE ELSE PrintT("REJECT " \o ToJson([case |-> Trace[l].case, why |-> f]))
  /\ IF l = Len(Trace) THEN PrintT("DONE " \o ToString(l)) ELSE TRUE
TraceSpec == TraceInit /\ [][TraceNext]_l
=============================================================================
