------------------------------ MODULE MiceCore ------------------------------
(***************************************************************************)
(* Merkle Integrity Content Encoding, draft-thomson-http-mice-02 / -03,    *)
(* from the drafts' recursive definition:                                  *)
(*   proof(last record)  = SHA-256(record || 0x00)                         *)
(*   proof(other record) = SHA-256(record || proof(next record) || 0x01)   *)
(*   stream = rs (8 bytes big-endian) || rec1 || proof2 || rec2 || ...     *)
(* empty payload: draft-02 one empty record; draft-03 the empty stream     *)
(* with integrity proof SHA-256(0x00).                                     *)
(* Header text: draft-02 "mi-sha256-draft2=" base64url without padding;    *)
(* draft-03 "mi-sha256-03=" standard base64.                               *)
(***************************************************************************)
EXTENDS Bytes
\* The primitives are parameters: the concrete instantiation (module Mice) binds Hash to the
\* JDK's SHA-256 over bytes; the abstract one (MC_Mice) to a perfect hash over symbol sequences
\* whose output still has a width, so that record / proof boundaries can be mis-aligned.
CONSTANTS Hash(_),      \* sequence -> sequence of HashLen elements
          HashLen,
          Flag0, Flag1, \* the one-element sequences appended for "last record" / "more records"
          SizeLen,      \* length of the record-size field
          SizeEnc(_),   \* natural -> field
          SizeZero(_), SizeAbove(_, _), SizeSmall(_), SizeVal(_)   \* field predicates / value

NumRecords(n, rs) == (n + rs - 1) \div rs
Rec(p, rs, i) == SubSeq(p, (i - 1) * rs + 1, Min2(i * rs, Len(p)))

\* walk the records from the last to the first, building the stream behind the size field
RECURSIVE EncBack(_, _, _, _, _, _)
EncBack(p, rs, i, k, next, acc) ==
  LET r == Rec(p, rs, i)
      pr == IF i = k THEN Hash(r \o Flag0) ELSE Hash(r \o next \o Flag1)
  IN IF i = 1 THEN [top |-> pr, body |-> r \o acc]
     ELSE EncBack(p, rs, i - 1, k, pr, pr \o r \o acc)

\* MiEnc(draft, p, rs) = [stream, top]   (rs >= 1)
MiEnc(draft, p, rs) ==
  IF p = <<>>
  THEN [stream |-> IF draft = "02" THEN SizeEnc(rs) ELSE <<>>, top |-> Hash(Flag0)]
  ELSE LET k == NumRecords(Len(p), rs)
           e == EncBack(p, rs, k, k, <<>>, <<>>)
       IN [stream |-> SizeEnc(rs) \o e.body, top |-> e.top]

-----------------------------------------------------------------------------
\* The decoder machine MiDec.  State record:
\*  st    "open" | "err"      pos    next unread position of the stream
\*  next  proof expected for the next record, <<>> once the last record has been accepted
\*  out   validated bytes not yet handed out
\*  rs    record size (small natural)      draft
DecState(st, pos, next, out, rs, draft) == [st |-> st, pos |-> pos, next |-> next, out |-> out, rs |-> rs, draft |-> draft]

\* NewDecoder: [ok, s].  max is a U64.  The record size is checked before anything after the
\* 8-byte size field is read (pos stays 9).
MiNew(draft, proof, stream, max) ==
  IF Len(stream) = 0
  THEN IF draft # "02" /\ Hash(Flag0) = proof
       THEN [ok |-> TRUE, s |-> DecState("open", 1, <<>>, <<>>, 0, draft)]
       ELSE [ok |-> FALSE, s |-> DecState("err", 1, <<>>, <<>>, 0, draft)]
  ELSE IF Len(stream) < SizeLen THEN [ok |-> FALSE, s |-> DecState("err", Len(stream) + 1, <<>>, <<>>, 0, draft)]
  ELSE LET f == SubSeq(stream, 1, SizeLen) IN
       IF SizeZero(f) \/ SizeAbove(f, max) \/ ~SizeSmall(f)
       THEN [ok |-> FALSE, s |-> DecState("err", SizeLen + 1, <<>>, <<>>, 0, draft)]
       ELSE [ok |-> TRUE, s |-> DecState("open", SizeLen + 1, proof, <<>>, SizeVal(f), draft)]

\* One Read(n) call, n >= 1: [s, data, res] with res "nil" | "eof" | "err"
MiFill(stream, s) ==   \* s.out = <<>> /\ s.next # <<>> : read and validate the next record
  LET avail == Len(stream) - s.pos + 1 IN
  IF avail >= s.rs + HashLen
  THEN LET chunk == Sub(stream, s.pos, s.rs + HashLen) IN
       IF Hash(chunk \o Flag1) = s.next
       THEN [s |-> [s EXCEPT !.pos = s.pos + s.rs + HashLen, !.out = SubSeq(chunk, 1, s.rs), !.next = SubSeq(chunk, s.rs + 1, s.rs + HashLen)], res |-> "nil"]
       ELSE [s |-> [s EXCEPT !.st = "err", !.pos = s.pos + s.rs + HashLen], res |-> "err"]
  ELSE IF avail > 0
  THEN LET rest == Sub(stream, s.pos, avail) IN
       IF avail > s.rs THEN [s |-> [s EXCEPT !.st = "err", !.pos = Len(stream) + 1], res |-> "err"]     \* input ends inside a proof
       ELSE IF Hash(rest \o Flag0) = s.next
       THEN [s |-> [s EXCEPT !.pos = Len(stream) + 1, !.out = rest, !.next = <<>>], res |-> "nil"]
       ELSE [s |-> [s EXCEPT !.st = "err", !.pos = Len(stream) + 1], res |-> "err"]
  ELSE \* nothing left although a record is expected
       IF s.draft = "02" /\ Hash(Flag0) = s.next
       THEN [s |-> [s EXCEPT !.next = <<>>], res |-> "eof"]       \* draft-02: empty final record
       ELSE [s |-> [s EXCEPT !.st = "err"], res |-> "err"]

MiRead(stream, s, n) ==
  IF s.out # <<>>
  THEN LET k == Min2(n, Len(s.out)) IN
       [s |-> [s EXCEPT !.out = SubSeq(s.out, k + 1, Len(s.out))], data |-> SubSeq(s.out, 1, k), res |-> "nil"]
  ELSE IF s.next = <<>> THEN [s |-> s, data |-> <<>>, res |-> "eof"]
  ELSE LET f == MiFill(stream, s) IN
       IF f.res # "nil" THEN [s |-> f.s, data |-> <<>>, res |-> f.res]
       ELSE LET k == Min2(n, Len(f.s.out)) IN
            [s |-> [f.s EXCEPT !.out = SubSeq(f.s.out, k + 1, Len(f.s.out))], data |-> SubSeq(f.s.out, 1, k), res |-> "nil"]

\* What a digest commits to, read off a stream that decodes completely: the decoded payload.
RECURSIVE MiDecodeAll(_, _, _)
MiDecodeAll(stream, s, acc) ==
  LET r == MiRead(stream, s, 1073741824) IN
  IF r.res = "nil" THEN MiDecodeAll(stream, r.s, acc \o r.data)
  ELSE [ok |-> r.res = "eof", payload |-> acc]
=============================================================================
