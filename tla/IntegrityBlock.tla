---------------------------- MODULE IntegrityBlock ----------------------------
(***************************************************************************)
(* Integrity block of a signed web bundle, in the version the tool emits   *)
(* (explainers/integrity-signature.md, first version):                     *)
(*   integrity-block = [ magic: bytes .size 8 (F0 9F 96 8B F0 9F 93 A6),   *)
(*                       version: bytes .size 4 ("1b\0\0"),                *)
(*                       signature-stack: [* [ attributes: {* tstr => bstr},*)
(*                                             signature: bstr ] ] ]       *)
(* in deterministic CBOR, followed by the unmodified bundle.  The newest   *)
(* signature is first.  Data to be signed for a new signature:             *)
(*   BE8(64) || SHA-512(bundle) || BE8(|block|) || block || BE8(|attrs|) || attrs *)
(* where block is the integrity block as it stood BEFORE this signature.   *)
(* Web Bundle ID = lower-case unpadded base32 of publicKey || 00 01 02.    *)
(* A stack is a sequence of [attrs: Seq([k, v]), sig], newest first.       *)
(***************************************************************************)
EXTENDS Bytes, Cbor, Crypto, SxgConsts

AttrsBytes(attrs) == EncMap([i \in 1..Len(attrs) |-> [k |-> EncText(attrs[i].k), v |-> EncBytes(attrs[i].v)]])
BlockBytes(stack) == EncArrayHdr(3) \o EncBytes(IBMagic) \o EncBytes(IBVer) \o EncArrayHdr(Len(stack))
                     \o Concat([i \in 1..Len(stack) |-> EncArrayHdr(2) \o AttrsBytes(stack[i].attrs) \o EncBytes(stack[i].sig)])
DataToBeSigned(hash, block, attrs) == U64(Len(hash)) \o hash \o U64(Len(block)) \o block \o U64(Len(AttrsBytes(attrs))) \o AttrsBytes(attrs)

AttrVal(attrs, key) == LET h == {i \in 1..Len(attrs) : attrs[i].k = key} IN IF h = {} THEN <<>> ELSE attrs[CHOOSE i \in h : TRUE].v

\* does the i-th entry of the stack verify, under the key stored in its own attributes, over the data to be
\* signed built from the file and the block as it stood before that signature (the older entries) ?
EntryVerifies(file, stack, i) ==
  Ed25519Verify(AttrVal(stack[i].attrs, K_ed25519),
                DataToBeSigned(SHA512(file), BlockBytes(SubSeq(stack, i + 1, Len(stack))), stack[i].attrs),
                stack[i].sig)

\* is the file an unsigned bundle (its last 8 bytes state its own length) ?  "ok" | "err"
ObtainOutcome(file) == IF Len(file) < 8 THEN "err"
                       ELSE IF SubSeq(file, Len(file) - 7, Len(file)) = U64(Len(file)) THEN "ok" ELSE "err"

WebBundleId(pk) == B32Lower(pk \o <<0, 1, 2>>)
=============================================================================
