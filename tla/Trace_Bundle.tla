------------------------------ MODULE Trace_Bundle ------------------------------
(* Trace validation for package bundle (C03, C04, C05, C10).                    *)
(*  kind "wr": a bundle handed to the real writer (destination kind logged),    *)
(*             the bytes the destination accepted, the returned count, the real  *)
(*             reader's result on them and two further write/read cycles         *)
(*  kind "rd": an arbitrary byte string handed to the real reader                *)
EXTENDS Bundle, TLC, Json, IOUtils
Trace == ndJsonDeserialize(IOEnv.VERIF_TRACE)
VARIABLE l

ReadExs(b2) == [i \in 1..Len(b2.exs) |-> ExCanon(b2.exs[i])]
\* the real reader's bundle against the location semantics x of the same bytes
SameAsExtract(b2, x) ==
  /\ b2.ver = x.ver /\ ReadExs(b2) = x.exs
  /\ b2.hasprimary = x.hasprimary /\ (x.hasprimary => b2.primary = x.primary)
  /\ b2.hasmanifest = x.hasmanifest /\ (x.hasmanifest => b2.manifest = x.manifest)
MultiKey(b) == \E i \in 1..Len(b.exs) : LET vk == StrLists(HValue(b.exs[i].hdrs, S_VariantKey)) IN vk.ok /\ Len(vk.v) > 1

WrFailures(ev) ==
  LET b == ev.b
      urls == { b.exs[i].url : i \in 1..Len(b.exs) } \cup {b.primary, b.manifest}
      x == ExtractKnown(ev.file, urls)
  \* a panic on a bundle that must be refused anyway is a (crude) refusal; on a writable bundle it is a failure
  IN (IF ev.wpanic /\ ~Refused(b) THEN {"writer panics"} ELSE {})
  \* Bundle.Validate: a primary URL must be the URL of one of the exchanges (as the library spells URLs)
  \cup (IF ev.valerr = (b.hasprimary /\ ~\E i \in 1..Len(b.exs) : b.exs[i].url = b.primary) THEN {} ELSE {"Validate"})
  \cup (IF Refused(b) = ev.werr THEN {} ELSE {IF ev.werr THEN "writer refuses a bundle it must write" ELSE "writer accepts a bundle it must refuse"})
  \* whatever the writer emits without error is judged (C04), also when it should have refused
  \cup (IF ev.werr THEN {}
        ELSE (IF ev.count = Len(ev.file) /\ ev.accepted = Len(ev.file) THEN {} ELSE {"returned byte count"})
        \cup (IF WellFormedBundle(ev.file, b.ver) THEN {} ELSE {"output is not a well-formed canonical bundle"}))
  \cup (IF ev.werr \/ Refused(b) THEN {}
        ELSE (IF x.res = "ok" /\ x.exs = ExpectedRead(b) /\ x.ver = b.ver
                 /\ (b.hasprimary => x.primary = b.primary) /\ x.hasmanifest = b.hasmanifest /\ (b.hasmanifest => x.manifest = b.manifest)
              THEN {} ELSE {"file does not hold the exchanges of the bundle (dropped / duplicated / mis-attributed / order)"})
        \cup (IF ev.verdict = "ok" /\ (x.res # "ok" \/ SameAsExtract(ev.b2, x)) THEN {} ELSE {"reader does not return what the file holds"})
        \cup (IF MultiKey(b) \/ (ev.file2 # <<>> /\ ev.file3 = ev.file2) THEN {} ELSE {"write/read does not reach a byte-identical fixpoint"}))

RdFailures(ev) ==
  LET x == Extract(ev.file) IN
  (IF ev.verdict = "panic" THEN {"reader panics"} ELSE {})
  \cup (IF x.res = "ok" /\ ev.verdict = "error" THEN {"reader rejects a bundle whose every location is in bounds"} ELSE {})
  \cup (IF x.res = "err" /\ ev.verdict = "ok" THEN {"reader accepts a bundle with an out-of-bounds / inconsistent length or malformed structure"} ELSE {})
  \cup (IF x.res = "ok" /\ ev.verdict = "ok" /\ ~SameAsExtract(ev.b2, x) THEN {"reader returns content that is not at the indexed locations"} ELSE {})
  \cup (IF x.res = "either" /\ ev.verdict = "ok" /\ x.exs # <<>> /\ ReadExs(ev.b2) # x.exs THEN {"reader returns content that is not at the indexed locations"} ELSE {})

Failures(ev) == IF ev.kind = "wr" THEN WrFailures(ev) ELSE RdFailures(ev)
TraceInit == l = 1
TraceNext ==
  /\ l <= Len(Trace)
  /\ l' = l + 1
  /\ LET f == Failures(Trace[l]) IN IF f = {} THEN TRUE ELSE PrintT("REJECT " \o ToJson([case |-> Trace[l].case, why |-> f]))
  /\ IF l = Len(Trace) THEN PrintT("DONE " \o ToString(l)) ELSE TRUE
TraceSpec == TraceInit /\ [][TraceNext]_l
=============================================================================
