-------------------------------- MODULE Purity --------------------------------
(***************************************************************************)
(* C18: serializers as pure functions under any history / schedule.        *)
(* N goroutines each run one serializer call on SHARED read-only inputs;   *)
(* a call is a sequence of Write steps on a PRIVATE destination; a step    *)
(* may "append to" a shared input slice, which in Go writes IN PLACE iff   *)
(* the slice has spare capacity (cap > len).  The model shows that outputs *)
(* are schedule-independent and shared memory is never written iff no      *)
(* serializer step appends to a shared slice with spare capacity; the      *)
(* premise is checked on the real values by the harness, the schedules are *)
(* exported and replayed on real goroutines under the race detector.       *)
(***************************************************************************)
EXTENDS Integers, Sequences, FiniteSets, TLC
CONSTANTS N,            \* goroutines
          Steps,        \* Write steps per call
          SpareCap,     \* does the shared input slice have spare capacity
          AppendsShared \* does the serializer append to the shared slice (GetWebBundleId-style)
VARIABLES pc,           \* pc[g] = number of steps goroutine g has done
          out,          \* out[g] = private output so far
          shared,       \* the shared input: [len, cap, tail] (tail = bytes beyond len in the backing array)
          writers,      \* set of goroutines that wrote shared memory
          sched         \* the schedule so far (sequence of goroutine ids)
vars == <<pc, out, shared, writers, sched>>
G == 1..N
Init == /\ pc = [g \in G |-> 0] /\ out = [g \in G |-> <<>>]
        /\ shared = [len |-> 2, cap |-> IF SpareCap THEN 4 ELSE 2, tail |-> <<0, 0>>]
        /\ writers = {} /\ sched = <<>>
\* one Write step of goroutine g: emits a byte derived from the shared input only
Step(g) == /\ pc[g] < Steps
           /\ pc' = [pc EXCEPT ![g] = @ + 1]
           /\ out' = [out EXCEPT ![g] = Append(@, shared.len * 10 + pc[g])]
           /\ sched' = Append(sched, g)
           /\ IF AppendsShared /\ pc[g] = 0 /\ shared.cap > shared.len
              THEN shared' = [shared EXCEPT !.tail = <<7, 7>>] /\ writers' = writers \cup {g}      \* append writes in place
              ELSE UNCHANGED <<shared, writers>>
Next == \E g \in G : Step(g)
Spec == Init /\ [][Next]_vars
Done == \A g \in G : pc[g] = Steps
\* same logical input, same bytes, for every goroutine and schedule
SameOutput == Done => \A g, h \in G : out[g] = out[h]
\* shared read-only inputs are never written (two writers = a data race)
NoSharedWrite == writers = {}
=============================================================================
