---------------------------- MODULE MC_WriterFaults ----------------------------
(* C19 at design level: a serializer that issues its output as any sequence of   *)
(* Write calls (every chunking of an output of length <= MaxOut) and stops at    *)
(* the first failed write, over the faulty destination for every k and both      *)
(* delivery modes.  TLC confirms the three properties for this discipline and    *)
(* (with -coverage) that every k is exercised.                                   *)
EXTENDS WriterFaults, TLC
CONSTANTS MaxOut
VARIABLES out, k, mode, pos, st, writes, done, reterr
vars == <<out, k, mode, pos, st, writes, done, reterr>>
Init == /\ out \in 0..MaxOut /\ k \in 0..MaxOut /\ mode \in {"errAtCall", "shortWrite", "transientErr", "transientShort", "budget", "fullErr", "transientFull"}
        /\ pos = 0 /\ st = [acc |-> 0, failed |-> FALSE] /\ writes = <<>> /\ done = FALSE /\ reterr = FALSE
\* next Write call of an arbitrary size, or completion
Step == /\ ~done
        /\ \/ /\ pos < out
              /\ \E len \in 1..(out - pos) :
                   LET r == DestWrite(st, len, k, mode) IN
                   /\ st' = r.st /\ writes' = Append(writes, [len |-> len, n |-> r.n, err |-> r.err])
                   /\ IF r.err THEN done' = TRUE /\ reterr' = TRUE /\ pos' = pos      \* stop at the first failed write
                      ELSE done' = FALSE /\ reterr' = FALSE /\ pos' = pos + len
           \/ /\ pos = out /\ done' = TRUE /\ reterr' = FALSE /\ UNCHANGED <<st, writes, pos>>
        /\ UNCHANGED <<out, k, mode>>
Spec == Init /\ [][Step]_vars
AcceptedIsPrefix == st.acc <= out /\ st.acc <= pos + (IF mode \in {"shortWrite", "transientShort"} \cup FullModes THEN out ELSE 0)
NoFalseSuccess == (done /\ k < out) => reterr
ControlSucceeds == (done /\ k >= out) => (~reterr /\ st.acc = out)
\* the behaviours of this model refine the typed module whose invariant Apalache proves inductive for all sizes
\* (a serializer that stops at its first failed write never sees whether the destination would have recovered: the
\* transient and budget destinations map onto the sticky ones)
AbsMode == IF mode \in {"shortWrite", "transientShort"} THEN "shortWrite" ELSE IF mode \in FullModes THEN "fullErr" ELSE "errAtCall"
Abs == INSTANCE WriterFaultsInd WITH acc <- st.acc, failed <- st.failed, mode <- AbsMode
AbsSpec == Abs!Spec
AbsInv == Abs!IndInv
LogConsistent == WritesFollowDest(writes, 1, [acc |-> 0, failed |-> FALSE], k, mode)
=============================================================================
