------------------------------ MODULE MC_IbTool ------------------------------
(* C07 at design level, the TOOL's signing procedure (sign-bundle integrity-block,   *)
(* SignWithIntegrityBlock) as the several steps it really is, against a signing       *)
(* strategy whose key may change BETWEEN any two of them (an HSM slot re-keyed, a     *)
(* rotating remote signer): the strategy is an environment with its own action.       *)
(*                                                                                    *)
(*   AskKey      rk := strategy.GetPublicKey()                                        *)
(*   BuildAttrs  attrs := {ed25519PublicKey: rk}                                      *)
(*   AskAgain    (only when AskTwice) rk := strategy.GetPublicKey()   -- the shape of  *)
(*               a tool that asks once for the attributes and once for the key to      *)
(*               verify under; the pinned tool does not do this                       *)
(*   ObtainSig   sig := strategy.Sign(DTBS(file, block before, attrs))  - made with    *)
(*               whatever key the strategy holds at that moment                       *)
(*   VerifyAdd   if sig verifies under rk over that data: push [attrs, sig], announce  *)
(*               ID(rk); else refuse, nothing added, nothing announced                *)
(*   Rotate      the strategy's key changes (at most MaxRot times), enabled always     *)
(*                                                                                    *)
(* Abstract crypto as in MC_IntegrityBlock: Sig(k, d) verifies under k' over d' iff   *)
(* k = k' /\ d = d'.  Invariants: every listed signature verifies under the key in    *)
(* ITS OWN attributes; the announced ID is the ID of that key; a refusal adds          *)
(* nothing.  With AskTwice = FALSE they hold for every placement of Rotate; with      *)
(* AskTwice = TRUE TLC finds the run Ask, BuildAttrs, Rotate, AskAgain, ObtainSig,    *)
(* VerifyAdd (the check passes under the second key, the attributes name the first):  *)
(* the single request is a necessary premise, which is what the hooked tool run of    *)
(* C07 (VERIF_STRATEGY=rotating, Trace_Cli!IbFailures) observes on the real binary.   *)
EXTENDS Integers, Sequences, TLC
CONSTANTS MaxRot, AskTwice, MaxSigs
VARIABLES pc, cur, rk, attrs, sig, stack, announced, rot, hist
vars == <<pc, cur, rk, attrs, sig, stack, announced, rot, hist>>
Keys == {"k1", "k2", "k3"}
NextKey(k) == CASE k = "k1" -> "k2" [] k = "k2" -> "k3" [] OTHER -> "k1"
Sig(k, d) == [k |-> k, d |-> d]
DTBS(block, a) == <<"filehash", block, a>>
None == "none"
Init == /\ pc = "start" /\ cur = "k1" /\ rk = None /\ attrs = None /\ sig = None /\ stack = <<>> /\ announced = <<>> /\ rot = 0 /\ hist = <<>>
Step(name) == hist' = Append(hist, name)
Rotate    == /\ rot < MaxRot /\ pc # "done" /\ cur' = NextKey(cur) /\ rot' = rot + 1 /\ Step("Rotate")
             /\ UNCHANGED <<pc, rk, attrs, sig, stack, announced>>
AskKey    == /\ pc = "start" /\ Len(stack) < MaxSigs /\ rk' = cur /\ pc' = "asked" /\ Step("AskKey")
             /\ UNCHANGED <<cur, attrs, sig, stack, announced, rot>>
BuildAttrs == /\ pc = "asked" /\ attrs' = rk /\ pc' = "attrs" /\ Step("BuildAttrs")
              /\ UNCHANGED <<cur, rk, sig, stack, announced, rot>>
AskAgain  == /\ AskTwice /\ pc = "attrs" /\ rk' = cur /\ pc' = "attrs2" /\ Step("AskAgain")
             /\ UNCHANGED <<cur, attrs, sig, stack, announced, rot>>
ObtainSig == /\ pc = (IF AskTwice THEN "attrs2" ELSE "attrs") /\ sig' = Sig(cur, DTBS(stack, attrs)) /\ pc' = "signed" /\ Step("ObtainSig")
             /\ UNCHANGED <<cur, rk, attrs, stack, announced, rot>>
VerifyAdd == /\ pc = "signed" /\ Step("VerifyAdd")
             /\ IF sig = Sig(rk, DTBS(stack, attrs))
                THEN stack' = <<[a |-> attrs, sig |-> sig]>> \o stack /\ announced' = Append(announced, rk)
                ELSE UNCHANGED <<stack, announced>>
             /\ pc' = "start" /\ rk' = None /\ attrs' = None /\ sig' = None      \* the next invocation of the tool (a second signature is a later version's feature; the block machine allows it)
             /\ UNCHANGED <<cur, rot>>
Finish    == pc = "start" /\ pc' = "done" /\ UNCHANGED <<cur, rk, attrs, sig, stack, announced, rot, hist>>
Next == Rotate \/ AskKey \/ BuildAttrs \/ AskAgain \/ ObtainSig \/ VerifyAdd \/ Finish
Spec == Init /\ [][Next]_vars
\* every listed signature verifies under the key stored in its own attributes, over the block as it stood before it
StackVerifies == \A i \in 1..Len(stack) : stack[i].sig = Sig(stack[i].a, DTBS(SubSeq(stack, i + 1, Len(stack)), stack[i].a))
\* newest first, and the i-th announcement from the end is the ID of the key recorded in the i-th entry
IdMatches == Len(announced) = Len(stack) /\ \A i \in 1..Len(stack) : announced[Len(announced) + 1 - i] = stack[i].a
\* non-vacuity: refusals do happen (a rotation between AskKey and ObtainSig), and so do successes after a rotation
View == <<pc, cur, rk, attrs, sig, stack, announced, rot>>
=============================================================================
