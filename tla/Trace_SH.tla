------------------------------- MODULE Trace_SH -------------------------------
(* Trace validation for package structuredheader (C16): one line = one value    *)
(* handed to the writer (String()), its error flag / output, and the result of  *)
(* the real parser on that output.                                              *)
EXTENDS StructuredHeader, TLC, Json, IOUtils
Trace == ndJsonDeserialize(IOEnv.VERIF_TRACE)
VARIABLE l

\* kind "parse": a string handed to both real parsers; verdicts and values against the reference parsers
\* (Go's parameter maps carry no order: the harness lists them sorted by key, the reference parser in text order; keys are unique)
PSet(ps) == { <<ps[i].k, ps[i].v>> : i \in 1..Len(ps) }
PlEq(u, w) == Len(u) = Len(w) /\ \A i \in 1..Len(u) : u[i].label = w[i].label /\ Len(u[i].params) = Len(w[i].params) /\ PSet(u[i].params) = PSet(w[i].params)
ParseJudge(ev) == LET a == RefParseLL(ev.s)  b == RefParsePL(ev.s) IN
  ~ev.panic /\ ev.ll = a.ok /\ ev.pl = b.ok /\ (a.ok => ev.llv = a.v) /\ (b.ok => PlEq(ev.plv, b.v))
Judge(ev) ==
  IF ev.kind = "parse" THEN ParseJudge(ev) ELSE
  IF ev.kind = "ll"
  THEN IF ~ValidLL(ev.v) THEN ev.err
       ELSE ~ev.err /\ SerOkLL(ev.v, ev.out) /\ ev.v2ok /\ ev.v2 = ev.v
  ELSE IF ~ValidPL(ev.v) THEN ev.err
       ELSE /\ ~ev.err
            /\ \A i \in 1..Len(ev.v) : SortedParams(ev.v[i])     \* the harness lists parameters sorted
            /\ SerOkPL(ev.v, ev.out)                              \* hence the text lists them sorted too
            /\ ev.v2ok /\ ev.v2 = ev.v

TraceInit == l = 1
TraceNext ==
  /\ l <= Len(Trace)
  /\ l' = l + 1
  /\ IF Judge(Trace[l]) THEN TRUE ELSE PrintT("REJECT " \o ToJson([case |-> Trace[l].case]))
  /\ IF l = Len(Trace) THEN PrintT("DONE " \o ToString(l)) ELSE TRUE
TraceSpec == TraceInit /\ [][TraceNext]_l
=============================================================================
