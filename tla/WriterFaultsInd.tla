--------------------------- MODULE WriterFaultsInd ---------------------------
(***************************************************************************)
(* Unbounded safety of the writer discipline of C19 (MC_WriterFaults):     *)
(* the same Step action without the log variable `writes`, with the        *)
(* destination state flattened into acc / failed, typed for Apalache.      *)
(* IndInv is an inductive invariant for ALL output sizes, fault positions  *)
(* and chunkings (out, k range over Nat), and it implies the three design  *)
(* properties of C19.  Checked by lib/proofs.py (from the C19 check) with apalache-mc:          *)
(*   Init => IndInv                 (--init=Init    --inv=IndInv --length=0)*)
(*   IndInv /\ Next => IndInv'      (--init=IndInit --inv=IndInv --length=1)*)
(*   IndInv => Props                (--init=IndInit --inv=Props  --length=0)*)
(* MC_WriterFaults checks with TLC that its own behaviours refine this     *)
(* module (PROPERTY AbsSpec), which ties the proof to the model that is    *)
(* bound to the code.                                                      *)
(***************************************************************************)
EXTENDS Integers
VARIABLES
  \* @type: Int;
  out,
  \* @type: Int;
  k,
  \* @type: Str;
  mode,
  \* @type: Int;
  pos,
  \* @type: Int;
  acc,
  \* @type: Bool;
  failed,
  \* @type: Bool;
  done,
  \* @type: Bool;
  reterr
vars == <<out, k, mode, pos, acc, failed, done, reterr>>

Init == /\ out \in Nat /\ k \in Nat /\ mode \in {"errAtCall", "shortWrite", "fullErr"}
        /\ pos = 0 /\ acc = 0 /\ failed = FALSE /\ done = FALSE /\ reterr = FALSE

\* DestWrite of WriterFaults.tla on the flattened state: the call succeeds iff it still fits below k
Fits(len) == ~failed /\ acc + len <= k
Write(len) ==
  IF Fits(len)
  THEN /\ acc' = acc + len /\ failed' = FALSE
       /\ done' = FALSE /\ reterr' = FALSE /\ pos' = pos + len
  ELSE /\ failed' = TRUE
       /\ acc' = IF failed \/ mode = "errAtCall" THEN acc ELSE IF mode = "shortWrite" THEN k ELSE acc + len     \* fullErr: the offending call is taken completely
       /\ done' = TRUE /\ reterr' = TRUE /\ pos' = pos          \* the serializer stops at the first failed write
Next == /\ ~done
        /\ \/ /\ pos < out
              /\ \E len \in 1..(out - pos) : Write(len)
           \/ /\ pos = out /\ done' = TRUE /\ reterr' = FALSE /\ UNCHANGED <<acc, failed, pos>>
        /\ UNCHANGED <<out, k, mode>>
Spec == Init /\ [][Next]_vars

IndInv ==
  /\ out \in Nat /\ k \in Nat /\ pos \in Nat /\ acc \in Nat
  /\ mode \in {"errAtCall", "shortWrite", "fullErr"}
  /\ failed \in BOOLEAN /\ done \in BOOLEAN /\ reterr \in BOOLEAN
  /\ pos <= out
  /\ ~failed => (acc = pos /\ pos <= k)
  /\ failed => (done /\ reterr /\ k < out /\ pos <= acc /\ acc <= out /\ (mode # "fullErr" => acc <= k) /\ (mode = "fullErr" => acc > k))
  /\ reterr => (failed /\ done)
  /\ (done /\ ~reterr) => (pos = out /\ ~failed)
  /\ ~done => (~failed /\ ~reterr)
IndInit == IndInv

AcceptedIsPrefix == acc <= out
NoFalseSuccess == (done /\ k < out) => reterr
ControlSucceeds == (done /\ k >= out) => (~reterr /\ acc = out)
Props == AcceptedIsPrefix /\ NoFalseSuccess /\ ControlSucceeds
=============================================================================
