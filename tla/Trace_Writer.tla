------------------------------ MODULE Trace_Writer ------------------------------
(* Trace validation for C19 (and the CountingWriter part of C04).               *)
EXTENDS WriterFaults, TLC, Json, IOUtils
Trace == ndJsonDeserialize(IOEnv.VERIF_TRACE)
VARIABLE l
Failures(ev) == IF ev.kind = "run" THEN RunFailures(ev)
                ELSE IF CwOk(ev.calls, 1, 0) THEN {} ELSE {"CountingWriter accounting / io.ReaderFrom contract"}
TraceInit == l = 1
TraceNext ==
  /\ l <= Len(Trace)
  /\ l' = l + 1
  /\ LET f == Failures(Trace[l]) IN IF f = {} THEN TRUE ELSE PrintT("REJECT " \o ToJson([case |-> Trace[l].case, why |-> f]))
  /\ IF l = Len(Trace) THEN PrintT("DONE " \o ToString(l)) ELSE TRUE
TraceSpec == TraceInit /\ [][TraceNext]_l
=============================================================================
