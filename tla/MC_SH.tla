-------------------------------- MODULE MC_SH --------------------------------
(* C16: every string of length <= MaxLen over a grammar-relevant alphabet (and  *)
(* families behind a fixed prefix) is parsed by both reference parsers; the     *)
(* accepted ones are printed ("ACC ...") for the accepted-set exchange with the *)
(* real parsers.  Design invariants: every accepted value is valid, and its     *)
(* canonical serialisation parses back to the same value.                       *)
EXTENDS StructuredHeader, TLC, Json
CONSTANTS MaxLen, Alphabet, Family
\* Family "all": every string; "bin": strings starting with '*' (byte sequences, MaxLen counts the whole string);
\* "pl": strings starting with "a;"; "str": strings starting with a double quote
Prefixes == CASE Family = "all" -> { <<>> } [] Family = "bin" -> { <<42>> } [] Family = "pl" -> { <<97, 59>> } [] Family = "str" -> { <<34>> }
VARIABLE s

LL(x) == RefParseLL(x)
PL(x) == RefParsePL(x)
Emit(x) == LET a == LL(x)  b == PL(x) IN
           IF a.ok \/ b.ok THEN PrintT("ACC " \o ToJson([s |-> x, ll |-> a.ok, pl |-> b.ok, llv |-> a.v, plv |-> b.v])) ELSE TRUE
Init == s \in Prefixes /\ Emit(s)
Next == Len(s) < MaxLen /\ \E c \in Alphabet : s' = Append(s, c) /\ Emit(s')
Spec == Init /\ [][Next]_s

AcceptedValid == (LL(s).ok => ValidLL(LL(s).v)) /\ (PL(s).ok => ValidPL(PL(s).v))
ReserialiseLL == LL(s).ok => SerOkLL(LL(s).v, SerLL(LL(s).v))
ReserialisePL == PL(s).ok => SerOkPL(PL(s).v, SerPL(PL(s).v))
=============================================================================
