-------------------------------- MODULE MC_Sxg --------------------------------
(***************************************************************************)
(* C01 at design level: signature validity of a signed exchange            *)
(* (draft-yasskin-http-origin-signed-responses 3.5 / 4) against a          *)
(* Dolev-Yao attacker, with cryptography idealised as a term algebra.      *)
(*                                                                         *)
(*  - keys K1 (honest), K2 (the attacker's own); certificates c1 -> K1,    *)
(*    c1b -> K1 (a second certificate for the same key), c2 -> K2          *)
(*  - Sig(k, m) is a term; it verifies under key k' over m' iff k = k' and *)
(*    m = m'; the attacker can build Sig(K2, m) for any m but Sig(K1, m)   *)
(*    only by copying one the honest signer made (ghost variable signed)   *)
(*  - the signed message is the draft's byte layout over SYMBOL sequences  *)
(*    with real length prefixes, so MsgInjective (no two field tuples give *)
(*    the same message) is a checked property, not an assumption           *)
(*  - MI is abstracted assume/guarantee style: a stream decodes to the     *)
(*    payload its digest commits to or fails (what MC_Mice establishes)    *)
(* The attacker rewrites any field, any Signature parameter, the stream,   *)
(* the certificate the fetcher returns, re-signs with K2, adds a second    *)
(* signature item before or after the honest one.  Invariant Authentic.    *)
(***************************************************************************)
EXTENDS Integers, Sequences, FiniteSets, TLC
CONSTANTS MaxMoves
VARIABLES e,        \* the exchange as the verifier will see it
          items,    \* its Signature header: sequence of items
          leaf,     \* certificate the fetcher returns
          signed,   \* ghost: <<key, message>> pairs really signed by the holder of key
          moves, result, now
vars == <<e, items, leaf, signed, moves, result, now>>

Vers == {"b1", "b3"}
Certs == {"c1", "c1b", "c2"}
KeyOf(c) == IF c = "c2" THEN "K2" ELSE "K1"
\* symbol sequences of different lengths, so that boundaries can be confused if a length prefix is missing
Urls == { <<1>>, <<1, 2>> }
VUrls == { <<1, 9>>, <<2, 9>> }          \* first symbol = origin: same origin iff equal to Head(url)
HdrSets == { <<2>>, <<5, 2>>, <<2, 5>> } \* a header set; its last symbol is the payload its digest commits to
Statuses == {2, 5}                       \* deliberately the same symbols as URLs and headers: only length prefixes keep fields apart
Methods == {"GET", "POST"}
Times == 0..3
Streams == {2, 5, 0}                      \* the payload a stream decodes to (0: does not decode)
Commit(h) == h[Len(h)]

LP(x) == <<Len(x)>> \o x
\* the signed message: context, cert-sha256, validity-url, date, expires, url, headers (with the status and,
\* for b1, the method inside the header block), each variable-length part length-prefixed
HdrBlock(x) == <<x.status>> \o (IF x.ver = "b1" THEN <<IF x.method = "GET" THEN 1 ELSE 2>> ELSE <<>>) \o x.hdrs
Msg(x, it) == <<x.ver, it.certsha>> \o LP(it.vurl) \o <<it.date, it.expires>> \o LP(x.url) \o LP(HdrBlock(x))

Sig(k, m) == [k |-> k, m |-> m]
Junk == [k |-> "none", m |-> <<>>]

Honest == [ver |-> "b3", url |-> <<1, 2>>, status |-> 5, hdrs |-> <<5, 2>>, method |-> "GET", stream |-> 2]
HonestItem(x) == LET it0 == [certsha |-> "c1", vurl |-> <<1, 9>>, date |-> 1, expires |-> 2, integrity |-> "ok", sig |-> Junk]
                 IN [it0 EXCEPT !.sig = Sig("K1", Msg(x, it0))]

Init == /\ e \in { [Honest EXCEPT !.ver = v] : v \in Vers }
        /\ items = << HonestItem(e) >>
        /\ leaf = "c1"
        /\ signed = { <<"K1", Msg(e, HonestItem(e))>> }
        /\ moves = 0 /\ result = [done |-> FALSE, ok |-> FALSE, payload |-> 0, item |-> 0] /\ now = 0

\* --- attacker
SetField == \/ \E u \in Urls : e' = [e EXCEPT !.url = u]
            \/ \E s \in Statuses : e' = [e EXCEPT !.status = s]
            \/ \E h \in HdrSets : e' = [e EXCEPT !.hdrs = h]
            \/ \E m \in Methods : e' = [e EXCEPT !.method = m]
            \/ \E st \in Streams : e' = [e EXCEPT !.stream = st]
            \/ \E v \in Vers : e' = [e EXCEPT !.ver = v]
SetParam(i) == \/ \E c \in Certs : items' = [items EXCEPT ![i].certsha = c]
               \/ \E v \in VUrls : items' = [items EXCEPT ![i].vurl = v]
               \/ \E t \in Times : items' = [items EXCEPT ![i].date = t]
               \/ \E t \in Times : items' = [items EXCEPT ![i].expires = t]
               \/ items' = [items EXCEPT ![i].integrity = "bad"]
               \/ items' = [items EXCEPT ![i].sig = Junk]
\* the attacker signs the current content with its own key (and thereby becomes a key holder who signed it)
ReSign(i) == /\ items' = [items EXCEPT ![i].sig = Sig("K2", Msg(e, items[i]))]
             /\ signed' = signed \cup { <<"K2", Msg(e, items[i])>> }
AddItem == /\ Len(items) < 2
           /\ \/ items' = << [items[1] EXCEPT !.sig = Junk] >> \o items          \* a junk item before the honest one
              \/ items' = items \o << [items[1] EXCEPT !.sig = Junk] >>          \* ... or after it
Attack == /\ ~result.done /\ moves < MaxMoves /\ moves' = moves + 1
          /\ \/ SetField /\ UNCHANGED <<items, leaf, signed>>
             \/ \E i \in 1..Len(items) : SetParam(i) /\ UNCHANGED <<e, leaf, signed>>
             \/ \E i \in 1..Len(items) : ReSign(i) /\ UNCHANGED <<e, leaf>>
             \/ AddItem /\ UNCHANGED <<e, leaf, signed>>
             \/ \E c \in Certs : leaf' = c /\ UNCHANGED <<e, items, signed>>
          /\ UNCHANGED <<result, now>>

\* --- the verifier: the draft's steps for one signature item
ItemValid(x, it, lf, t) ==
  /\ it.vurl[1] = x.url[1]                                      \* validity-url same-origin with the request URL
  /\ it.expires - it.date <= 2 /\ it.date <= t /\ t <= it.expires  \* lifetime cap (scaled) and window
  /\ it.certsha = lf                                            \* cert-sha256 names the fetched leaf
  /\ it.sig = Sig(KeyOf(lf), Msg(x, it))                        \* signature over the rebuilt message under the leaf's key
  /\ it.integrity = "ok"
  /\ x.stream = Commit(x.hdrs)                                  \* payload decodes under the (signed) digest header
  /\ (x.ver = "b1" => x.method = "GET")
Verify == /\ ~result.done
          /\ \E t \in Times :
               /\ now' = t
               /\ LET good == { i \in 1..Len(items) : ItemValid(e, items[i], leaf, t) } IN
                  result' = IF good = {} THEN [done |-> TRUE, ok |-> FALSE, payload |-> 0, item |-> 0]
                            ELSE [done |-> TRUE, ok |-> TRUE, payload |-> e.stream, item |-> CHOOSE i \in good : \A j \in good : i <= j]
          /\ UNCHANGED <<e, items, leaf, signed, moves>>
Next == Attack \/ Verify
Spec == Init /\ [][Next]_vars

\* C01: a successful verification returns exactly what the holder of the leaf's key signed, at a time inside
\* the signed window, and the payload is the one the signed digest commits to
Authentic == result.ok =>
  LET it == items[result.item] IN
  /\ <<KeyOf(leaf), Msg(e, it)>> \in signed
  /\ it.date <= now /\ now <= it.expires
  /\ result.payload = Commit(e.hdrs)
\* an exchange whose content differs from the honestly signed one is accepted only if the attacker's own key vouches for it
NoForgery == (result.ok /\ KeyOf(leaf) = "K1") =>
  /\ e.url = Honest.url /\ e.status = Honest.status /\ e.hdrs = Honest.hdrs /\ result.payload = 2
  /\ (e.ver = "b1" => e.method = "GET")
\* the message layout is injective on the universe (a dropped / mis-sized length prefix would be a counterexample)
AllX == { [ver |-> v, url |-> u, status |-> s, hdrs |-> h, method |-> m, stream |-> 0] : v \in Vers, u \in Urls, s \in Statuses, h \in HdrSets, m \in Methods }
AllIt == { [certsha |-> c, vurl |-> v, date |-> d, expires |-> x, integrity |-> "ok", sig |-> Junk] : c \in Certs, v \in VUrls, d \in {1}, x \in {2, 3} }
MsgInjective == \A x1, x2 \in AllX : \A i1, i2 \in AllIt :
   Msg(x1, i1) = Msg(x2, i2) =>
     /\ x1.ver = x2.ver /\ x1.url = x2.url /\ x1.status = x2.status /\ x1.hdrs = x2.hdrs /\ (x1.ver = "b1" => x1.method = x2.method)
     /\ i1.certsha = i2.certsha /\ i1.vurl = i2.vurl /\ i1.date = i2.date /\ i1.expires = i2.expires
\* evaluated once (in the initial states): it quantifies over the whole universe
MsgInjectiveOnce == (moves = 0 /\ ~result.done /\ Len(items) = 1 /\ leaf = "c1") => MsgInjective
View == <<e, items, leaf, moves, result, now>>
=============================================================================
