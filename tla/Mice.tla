-------------------------------- MODULE Mice --------------------------------
(* Concrete instantiation of MiceCore: bytes, SHA-256 (JDK through the Crypto overrides),
   8-byte big-endian record size; plus the header text of both drafts. *)
EXTENDS Bytes, Crypto
Sha(x) == SHA256(x)
SizeZeroC(f) == f = U64Zero
SizeAboveC(f, max) == U64Less(max, f)
INSTANCE MiceCore WITH Hash <- Sha, HashLen <- 32, Flag0 <- <<0>>, Flag1 <- <<1>>, SizeLen <- 8, SizeEnc <- U64,
                       SizeZero <- SizeZeroC, SizeAbove <- SizeAboveC, SizeSmall <- IsSmall, SizeVal <- SmallVal

AlgName(draft) == IF draft = "02" THEN <<109,105,45,115,104,97,50,53,54,45,100,114,97,102,116,50>>   \* mi-sha256-draft2
                  ELSE <<109,105,45,115,104,97,50,53,54,45,48,51>>                                     \* mi-sha256-03
DigestText(draft, proof) == AlgName(draft) \o <<61>> \o B64Enc(proof, draft = "02", draft # "02")


-----------------------------------------------------------------------------
\* Parsing the digest header value: <algorithm> "=" <base64 of 32 bytes>.
\* Outcome "ok" / "err", or "either" for the two places where the text is decoded
\* leniently by common base64 decoders and the property does not care (Dev_B64Lenient):
\* non-zero unused bits in the last character, CR / LF inside the value.
IndexOf(s, c) == FirstIn(s, 1, Len(s), LAMBDA z : z = c)
ParseDigest(draft, text) ==
  LET eq == IndexOf(text, 61) IN
  IF eq = 0 THEN [res |-> "err", proof |-> <<>>]
  ELSE LET alg == SubSeq(text, 1, eq - 1)
           val == SubSeq(text, eq + 1, Len(text))
           clean == SelectSeq(val, LAMBDA c : c # 13 /\ c # 10)
           d == B64Dec(clean, draft = "02", draft # "02")
       IN IF alg # AlgName(draft) THEN [res |-> "err", proof |-> <<>>]
          ELSE IF ~d.ok \/ Len(d.v) # 32 THEN [res |-> "err", proof |-> <<>>]
          ELSE IF clean # val \/ ~d.canon THEN [res |-> "either", proof |-> d.v]
          ELSE [res |-> "ok", proof |-> d.v]

-----------------------------------------------------------------------------
=============================================================================
