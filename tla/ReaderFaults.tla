----------------------------- MODULE ReaderFaults -----------------------------
(***************************************************************************)
(* The byte SOURCE side of every parser in the repository (the io.Reader   *)
(* contract) - the counterpart of WriterFaults.  A parser never sees "the  *)
(* input": it sees the results of a sequence of Read calls, and the source *)
(* is free to hand out fewer bytes than asked (any fragmentation, including*)
(* zero bytes), to report the end together with the last bytes or on a     *)
(* call of its own, and to fail after k bytes.                             *)
(*                                                                         *)
(* A schedule is sch = [pat, end, k]:                                      *)
(*   pat  non-empty sequence of fragment sizes used cyclically; 0 = a call *)
(*        that returns (0, nil); 99 = as many bytes as the caller asked for*)
(*   end  "eof"      after the last byte a further call returns (0, EOF)   *)
(*        "eofdata"  the call that delivers the last byte returns (n, EOF) *)
(*        "err"      after k bytes a further call returns (0, error)       *)
(*        "errdata"  the call that delivers byte k returns (n, error)      *)
(*        "transient" after k bytes ONE call returns (0, error); the calls  *)
(*                   after it continue with byte k+1 (a time-out, a retry) *)
(*        "eofmore"  after k bytes ONE call returns (0, EOF); the calls     *)
(*                   after it continue (a queue that was empty and has been *)
(*                   refilled: bytes.Buffer between a writer and a reader)  *)
(*   k    number of bytes handed out before the failure                     *)
(*                                                                         *)
(* SrcRead is the source; ReadFull / ReadAll are the two disciplines the   *)
(* code uses on top of it (io.ReadFull, ioutil.ReadAll).                   *)
(***************************************************************************)
EXTENDS Integers, Sequences

Min2(a, b) == IF a < b THEN a ELSE b
Limit(sch, L) == IF sch.end \in {"err", "errdata"} THEN Min2(sch.k, L) ELSE L

\* one Read call with a buffer of `ask` > 0 bytes: s = [pos, i, hit] -> [n, res \in {"nil","eof","err"}, s]
\* (hit: the one failing call of a transient / eofmore schedule has been made)
Passing(sch) == sch.end \in {"transient", "eofmore"}
SrcRead(sch, L, s, ask) ==
  LET lim == IF Passing(sch) THEN (IF ~s.hit /\ s.pos <= sch.k THEN Min2(sch.k, L) ELSE L) ELSE Limit(sch, L)   \* no fragment crosses k before the failing call
      failing == sch.end \in {"err", "errdata"}
  IN IF Passing(sch) /\ s.pos = sch.k /\ ~s.hit
     THEN [n |-> 0, res |-> IF sch.end = "transient" THEN "err" ELSE "eof", s |-> [s EXCEPT !.hit = TRUE]]
     ELSE
     IF s.pos >= lim
     THEN [n |-> 0, res |-> IF failing THEN "err" ELSE "eof", s |-> s]
     ELSE LET f == sch.pat[(s.i % Len(sch.pat)) + 1]
              n == Min2(Min2(f, ask), lim - s.pos)       \* a fragment size >= ask (99) means: all that was asked for
              s2 == [s EXCEPT !.pos = s.pos + n, !.i = s.i + 1]
          IN IF n > 0 /\ s2.pos = lim /\ sch.end = "eofdata" THEN [n |-> n, res |-> "eof", s |-> s2]
             ELSE IF n > 0 /\ s2.pos = lim /\ sch.end = "errdata" THEN [n |-> n, res |-> "err", s |-> s2]
             ELSE [n |-> n, res |-> "nil", s |-> s2]

\* What a parser can observe.  `consumed` = bytes a contiguous, fault-free delivery hands out to it;
\* `probed` = it made a call after the last byte (it looked for the end of input).
\* A failure after k bytes is observable iff the parser needs a byte beyond k, or looks for the end at k = L.
Observed(sch, L, consumed, probed) ==
  /\ sch.end \in {"err", "errdata", "transient", "eofmore"}
  /\ sch.k <= L
  /\ \/ sch.k < consumed
     \/ sch.k = L /\ consumed = L /\ probed

\* The rule every parser is held to (Trace_ReaderFaults): under any schedule its outcome is the outcome of
\* the contiguous fault-free delivery, except that an observable failure may (for a streaming decoder: must)
\* turn it into an error.  It never invents a value the stream does not hold.
OutcomeOk(sch, L, consumed, probed, contig, sched) ==
  \/ sched = contig
  \/ Observed(sch, L, consumed, probed) /\ sched = "err"
=============================================================================
