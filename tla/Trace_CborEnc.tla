---------------------------- MODULE Trace_CborEnc ----------------------------
(* Trace validation for cbor.Encoder (C11): one line = one recorded call      *)
(* sequence on a fresh encoder, each call with the bytes it appended and its   *)
(* error flag.  Accepted iff every call is a step of the CborEnc machine.      *)
EXTENDS CborMachines, TLC, Json, IOUtils
Trace == ndJsonDeserialize(IOEnv.VERIF_TRACE)
VARIABLE l

BadCalls(ev) == { i \in 1..Len(ev.calls) : ~EncCallOk(ev.calls[i], ev.calls[i].err, ev.calls[i].out) }

TraceInit == l = 1
TraceNext ==
  /\ l <= Len(Trace)
  /\ l' = l + 1
  /\ IF BadCalls(Trace[l]) = {} THEN TRUE
     ELSE PrintT("REJECT " \o ToJson([case |-> Trace[l].case, calls |-> BadCalls(Trace[l])]))
  /\ IF l = Len(Trace) THEN PrintT("DONE " \o ToString(l)) ELSE TRUE
TraceSpec == TraceInit /\ [][TraceNext]_l
=============================================================================
