------------------------------ MODULE Trace_Sxg ------------------------------
(* Trace validation for package signedexchange (C08, C02, C01, C09, C10) with *)
(* JDK crypto.  One line = one self-contained case.                           *)
(*  kind "full": build + MI-encode + sign, dump message / headers / integrity, *)
(*               write, read back, verify at several instants before / after   *)
(*  kind "ver" : one exchange as verified (possibly mutated), one instant,     *)
(*               the real verdict; `exact` says whether the verdict must equal *)
(*               Accept (in-domain scenario) or only be sound (Authentic)      *)
EXTENDS Sxg, TLC, Json, IOUtils
Trace == ndJsonDeserialize(IOEnv.VERIF_TRACE)
VARIABLE l

\* ---- kind "full"
FullFailures(ev) ==
  LET xin == ev.xin  x == ev.x  sg == ev.signer
      sp == [certsha |-> SHA256(sg.leaf), vurl |-> sg.vurl, date |-> sg.date, expires |-> sg.expires]
      enc == MiEnc(Draft(xin), xin.payload, ev.rs)
      hc == HeadersCbor(x)
      m == MsgH(x, sp, hc)
      pl == RefParsePL(x.sighdr)
      want == HAdd(HAdd(xin.resph, H_ContentEncoding, ContentEncodingName(xin)), DigestHeaderName(xin), DigestText(Draft(xin), enc.top))
      rr == RefRead(ev.file)
      rrl == RefReadL(ev.file, TRUE)
      \* a response that already carries the version's digest header cannot be MI-encoded again (one digest value,
      \* one algorithm: the verifier reads a single "alg=value"); the library must refuse it up front
      pre == HGet(xin.resph, DigestHeaderName(xin)) # <<>>
  \* ev.regen: the exchange was obtained from ReadExchange, edited and signed again without an MI step (nothing to say
  \* about how payload and digest header came about; everything else is judged as for a first-generation exchange)
  IN IF ~ev.regen /\ pre THEN (IF ev.signerr = "mi" THEN {} ELSE {"signer refused"})
     ELSE IF ev.signerr # "" THEN {"signer refused"}
     ELSE
       (IF ev.regen THEN {} ELSE IF x.payload = enc.stream /\ HSet(x.resph) = HSet(want) /\ x.uri = xin.uri /\ x.status = xin.status
           /\ x.method = xin.method /\ HSet(x.reqh) = HSet(xin.reqh) THEN {} ELSE {"MiEncodePayload"})
  \cup (IF HeadersEncodable(x) THEN (IF ~ev.hdrerr /\ ev.hdrs = hc THEN {} ELSE {"header CBOR"})
        ELSE (IF ev.hdrerr THEN {} ELSE {"colliding header names serialised"}))
  \cup (IF ~HeadersEncodable(x) \/ ev.msg = m THEN {} ELSE {"signed message"})
  \cup (IF ~HeadersEncodable(x) THEN {}
        ELSE IF pl.ok /\ Len(pl.v) = 1 /\ PHas(pl.v[1].params, K_sig, "bin")
                /\ x.sighdr = SigHeaderText(x, sp, sg.certurl, PVal(pl.v[1].params, K_sig))
             THEN (IF EcdsaVerifyCert(sg.leaf, m, PVal(pl.v[1].params, K_sig)) THEN {} ELSE {"signature does not verify over the specified message"})
             ELSE {"Signature header text"})
  \cup (IF ~HeadersEncodable(x) \/ ev.integrity = S_sha256 \o B64Enc(SHA256(hc), FALSE, TRUE) THEN {} ELSE {"header integrity"})
  \* the request URL is the format's fallback URL ("MUST be an absolute URL with a scheme of https"): Write refuses what
  \* is plainly not one; where the decision is left to net/url ("either") only the consequence is demanded (read back)
  \cup (IF UrlClass(x.uri) = "either"
        THEN (IF (HeadersEncodable(x) /\ FitsLimitsH(x, hc)) \/ ev.writeerr THEN {} ELSE {"write limits"})
        ELSE (IF (HeadersEncodable(x) /\ FitsLimitsH(x, hc) /\ UrlClass(x.uri) = "ok") = ~ev.writeerr THEN {} ELSE {"write limits"}))
  \cup (IF ev.writeerr \/ ev.file = FileH(x, hc) THEN {} ELSE {"file layout"})
  \cup (IF ev.writeerr THEN {}
        ELSE IF ~ev.readerr /\ SameFields(x, ev.x2) /\ rrl.res = "ok" /\ SameFields(x, rrl.x) /\ (UrlClass(x.uri) = "ok" => rr.res = "ok") THEN {} ELSE {"read back"})
  \cup { "verify " \o ev.verifs[i].phase \o " #" \o ToString(i) : i \in { j \in 1..Len(ev.verifs) :
           LET v == ev.verifs[j]
               a == Accept(IF v.phase = "mem" THEN x ELSE ev.x2, v.t, sg.leaf)
               \* a request URL outside the plain grammar: whether net/url takes it is not specified here, so only
               \* soundness is demanded (accepted => every condition holds)
               exact == UrlClass((IF v.phase = "mem" THEN x ELSE ev.x2).uri) = "ok"
           IN ~(~v.panic /\ (IF exact THEN v.ok = a.ok ELSE (v.ok => a.ok)) /\ (v.ok => (v.ret = a.payload /\ (ev.regen \/ v.ret = xin.payload)))) } }

\* ---- kind "ver"
VerFailures(ev) ==
  LET a == Accept(ev.x, ev.t, ev.leaf)
      signed == { <<ev.signed[i].cert, ev.signed[i].msg>> : i \in 1..Len(ev.signed) }
      rr == IF ev.hasfile THEN RefRead(ev.file) ELSE BadRead("either")
  IN (IF ev.panic THEN {"panic"} ELSE {})
  \cup (IF ev.ok /\ ~HasNegativeTime(ev.x) /\ ~Authentic(ev.x, ev.t, ev.leaf, signed, ev.ret) THEN {"accepted content the key holder did not sign"} ELSE {})
  \cup (IF ev.exact /\ ~HasNegativeTime(ev.x) /\ ev.ok # a.ok THEN {IF ev.ok THEN "accepted although a condition is violated" ELSE "rejected although every condition holds"} ELSE {})
  \cup (IF HasNegativeTime(ev.x) /\ ev.ok /\ ~TimesSound(ev.x, ev.t) THEN {"accepted although the lifetime cap or the window is violated (signed timestamps)"} ELSE {})
  \cup (IF ev.exact /\ ev.ok /\ a.ok /\ ev.ret # a.payload THEN {"payload"} ELSE {})
  \cup (IF ev.hasfile /\ rr.res = "ok" /\ (ev.readerr \/ ~SameFields(rr.x, ev.x)) THEN {"reader returned other fields than the file holds"} ELSE {})
  \cup (IF ev.hasfile /\ rr.res = "err" /\ ~ev.readerr THEN {"reader accepted a malformed file"} ELSE {})

Failures(ev) == IF ev.kind = "full" THEN FullFailures(ev) ELSE VerFailures(ev)

TraceInit == l = 1
TraceNext ==
  /\ l <= Len(Trace)
  /\ l' = l + 1
  /\ LET f == Failures(Trace[l]) IN
     IF f = {} THEN TRUE ELSE PrintT("REJECT " \o ToJson([case |-> Trace[l].case, why |-> f]))
  /\ IF l = Len(Trace) THEN PrintT("DONE " \o ToString(l)) ELSE TRUE
TraceSpec == TraceInit /\ [][TraceNext]_l
=============================================================================
