----------------------------- MODULE WriterFaults -----------------------------
(***************************************************************************)
(* A destination writer that fails, stickily, once it has accepted k bytes *)
(* (fault delivered either as an error return accepting nothing of the     *)
(* offending call, or as a short write with an error), and what every      *)
(* serializer must guarantee on top of it (C19):                           *)
(*   - what the destination accepted is a prefix of the fault-free output  *)
(*   - if the output does not fit (k < |O|) the serializer returns an      *)
(*     error, never success for a partial output                           *)
(*   - if it fits, success and the complete output                         *)
(*   - a returned byte count equals what the destination accepted          *)
(* An observed run is [O, k, mode, writes: Seq([len, n, err]), accepted,    *)
(* reterr, count (-1 if the serializer returns none)].                      *)
(***************************************************************************)
EXTENDS Bytes

\* the destination machine: state [acc (number of bytes accepted), failed]; one Write(len) step
\* Modes: errAtCall / shortWrite fail stickily; transientErr / transientShort fail ONE call (the first that does not fit)
\* and take everything afterwards (a destination that recovers: a full pipe drained, a retried network write); budget
\* never latches (each call fails exactly when it does not fit, so a later, smaller call is taken again).
\* fullErr / transientFull: the first call that does not fit is TAKEN COMPLETELY and reported as failed all the same
\* (n = len together with an error: legal for io.Writer - a chunked HTTP body whose closing CRLF fails, a file whose
\* data reached the page cache and whose sync failed); afterwards sticky (fullErr) or recovered (transientFull).
FullModes == {"fullErr", "transientFull"}
DestWrite(st, len, k, mode) ==
  IF mode = "budget" THEN (IF st.acc + len <= k THEN [st |-> [st EXCEPT !.acc = st.acc + len], n |-> len, err |-> FALSE]
                           ELSE [st |-> [st EXCEPT !.failed = TRUE], n |-> 0, err |-> TRUE])
  ELSE IF st.failed /\ mode \in {"transientErr", "transientShort", "transientFull"} THEN [st |-> [st EXCEPT !.acc = st.acc + len], n |-> len, err |-> FALSE]
  ELSE IF st.failed THEN [st |-> st, n |-> 0, err |-> TRUE]
  ELSE IF st.acc + len <= k THEN [st |-> [st EXCEPT !.acc = st.acc + len], n |-> len, err |-> FALSE]
  ELSE IF mode \in {"errAtCall", "transientErr"} THEN [st |-> [st EXCEPT !.failed = TRUE], n |-> 0, err |-> TRUE]
  ELSE IF mode \in FullModes THEN [st |-> [acc |-> st.acc + len, failed |-> TRUE], n |-> len, err |-> TRUE]
  ELSE [st |-> [acc |-> k, failed |-> TRUE], n |-> k - st.acc, err |-> TRUE]

\* the logged write results are the destination's behaviour (sanity of the instrumented writer)
RECURSIVE WritesFollowDest(_, _, _, _, _)
WritesFollowDest(ws, i, st, k, mode) ==
  IF i > Len(ws) THEN TRUE
  ELSE LET r == DestWrite(st, ws[i].len, k, mode) IN
       ws[i].n = r.n /\ ws[i].err = r.err /\ WritesFollowDest(ws, i + 1, r.st, k, mode)

\* number of bytes the destination had accepted when it FIRST reported a failure (-1: it never did)
RECURSIVE AccAtFirstErr(_, _, _)
AccAtFirstErr(ws, i, acc) == IF i > Len(ws) THEN -1 ELSE IF ws[i].err THEN acc + ws[i].n ELSE AccAtFirstErr(ws, i + 1, acc + ws[i].n)

RunFailures(ev) ==
  (IF WritesFollowDest(ev.writes, 1, [acc |-> 0, failed |-> FALSE], ev.k, ev.mode) THEN {} ELSE {"instrumented writer log inconsistent"})
  \cup (IF ev.panic THEN {"panic"} ELSE {})
  \cup (IF IsPrefixB(ev.accepted, ev.O) THEN {} ELSE {"accepted bytes are not a prefix of the fault-free output"})
  \cup (IF ev.mode \notin FullModes /\ ev.k < Len(ev.O) /\ ~ev.reterr THEN {"success reported for a partial output"} ELSE {})
  \* a destination that takes the whole offending call: it "fails after accepting" AccAtFirstErr bytes; the statement
  \* demands an error for every such point below the full output length (a failure reported together with the very
  \* last byte is left to the serializer)
  \cup (LET a == AccAtFirstErr(ev.writes, 1, 0) IN
        IF ev.mode \in FullModes /\ a >= 0 /\ a < Len(ev.O) /\ ~ev.reterr THEN {"success reported although the destination failed below the full output length"} ELSE {})
  \cup (IF ev.k >= Len(ev.O) /\ (ev.reterr \/ ev.accepted # ev.O) THEN {"no-fault control run failed or is incomplete"} ELSE {})
  \cup (IF ev.count >= 0 /\ ev.count # Len(ev.accepted) THEN {"returned byte count differs from what the destination accepted"} ELSE {})

\* CountingWriter as a component: calls [op \in "write"|"readfrom", data, n, err, written (after the call)]
\* over a destination that accepts everything (or fails after k); srcwt: the source implements io.WriterTo
RECURSIVE CwOk(_, _, _)
CwOk(calls, i, total) ==
  IF i > Len(calls) THEN TRUE
  ELSE LET c == calls[i] IN
       /\ c.written = total + c.accepted                      \* Written counts exactly what the destination accepted
       /\ c.op = "readfrom" /\ ~c.desterr => (c.n = Len(c.data) /\ ~c.err /\ c.accepted = Len(c.data))    \* io.ReaderFrom: all of the source, nil error at EOF
       /\ c.op = "write" /\ ~c.desterr => (c.n = Len(c.data) /\ ~c.err)
       /\ c.n = c.accepted
       /\ CwOk(calls, i + 1, total + c.accepted)
=============================================================================
