---------------------------- MODULE Trace_CborDec ----------------------------
(* Trace validation for cbor.Decoder (C12, C10): one line = one input stream  *)
(* and the calls made on one decoder over it; each call logs err, value and   *)
(* the number of bytes left in the source afterwards.                         *)
EXTENDS CborMachines, TLC, Json, IOUtils
Trace == ndJsonDeserialize(IOEnv.VERIF_TRACE)
VARIABLE l

PosAfter(ev, i) == IF i = 0 THEN 1 ELSE Len(ev.in) - ev.calls[i].rest + 1
BadCalls(ev) == { i \in 1..Len(ev.calls) :
                    ~DecCallOk(ev.in, PosAfter(ev, i - 1), ev.calls[i].op,
                               [err |-> ev.calls[i].err, a |-> ev.calls[i].a, s |-> ev.calls[i].s, pos |-> PosAfter(ev, i)]) }
TraceInit == l = 1
TraceNext ==
  /\ l <= Len(Trace)
  /\ l' = l + 1
  /\ IF BadCalls(Trace[l]) = {} THEN TRUE
     ELSE PrintT("REJECT " \o ToJson([case |-> Trace[l].case, calls |-> BadCalls(Trace[l])]))
  /\ IF l = Len(Trace) THEN PrintT("DONE " \o ToString(l)) ELSE TRUE
TraceSpec == TraceInit /\ [][TraceNext]_l
=============================================================================
