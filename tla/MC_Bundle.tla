------------------------------- MODULE MC_Bundle -------------------------------
(* C03 / C04 at design level: every abstract bundle over a small universe of    *)
(* exchange templates (two URLs, bodies of length 0/1/23/24, b1 variant sets     *)
(* that are complete, incomplete, overlapping, multi-key, inconsistent), both    *)
(* versions, optional primary / manifest.  Checked in every state: writing is    *)
(* refused exactly on broken coverage / repeated URL / manifest in b2; otherwise *)
(* the written bytes are a well-formed canonical bundle and the location         *)
(* semantics (Extract) returns exactly the expected exchanges in index order.    *)
(* Every bundle is exported ("VEC") and replayed on the real writer and reader.  *)
EXTENDS Bundle, TLC, Json
CONSTANTS MaxEx,
          Tmpl        \* which templates may be appended (subset of 1..14)
VARIABLES b, done

U1 == <<104,116,116,112,115,58,47,47,97,46,116,101,115,116,47>>          \* https://a.test/
U2 == <<104,116,116,112,115,58,47,47,97,46,116,101,115,116,47,108,111,110,103,101,114>>  \* https://a.test/longer
VAR1 == <<65,99,99,101,112,116,45,76,97,110,103,117,97,103,101,59,101,110,59,102,114>>   \* Accept-Language;en;fr
VAR2 == VAR1 \o <<44,32,65,59,120>>                                                     \* ..., A;x
H(n, v) == [n |-> n, vs |-> <<v>>]
CT == H(<<67,111,110,116,101,110,116,45,84,121,112,101>>, <<116,47,112>>)
Body(n) == [i \in 1..n |-> 65 + (i % 26)]
Ex(u, hs, n) == [url |-> u, status |-> 200, hdrs |-> hs, body |-> Body(n)]
Templates == <<
  Ex(U1, <<CT>>, 0), Ex(U1, <<>>, 24), Ex(U2, <<CT>>, 23), Ex(U2, <<CT>>, 1),
  Ex(U1, <<H(S_Variants, VAR1), H(S_VariantKey, <<101,110>>)>>, 1),               \* en
  Ex(U1, <<H(S_Variants, VAR1), H(S_VariantKey, <<102,114>>)>>, 23),              \* fr
  Ex(U1, <<H(S_Variants, VAR1), H(S_VariantKey, <<101,110,44,32,102,114>>)>>, 24), \* en, fr  (multi-key)
  Ex(U1, <<H(S_Variants, VAR1), H(S_VariantKey, <<100,101>>)>>, 1),               \* de (not a possible key)
  Ex(U1, <<H(S_Variants, VAR2), H(S_VariantKey, <<101,110,59,120>>)>>, 1),        \* en;x under other Variants
  Ex(U1, <<H(S_Variants, VAR2), H(S_VariantKey, <<102,114,59,120>>)>>, 0),        \* fr;x
  \* the same headers given as repeated field lines (the index is built from the comma-joined value)
  Ex(U1, <<H(S_Variants, VAR1), [n |-> S_VariantKey, vs |-> << <<101,110>>, <<102,114>> >>]>>, 1),                              \* en / fr on two lines
  Ex(U1, <<[n |-> S_Variants, vs |-> << VAR1, <<65,59,120>> >>], H(S_VariantKey, <<101,110,59,120>>)>>, 23),                  \* Variants on two lines (= VAR2 up to spacing)
  \* twins: the SAME response (status, header fields, body) under another URL than templates 2 and 1 - each exchange is an item
  \* of its own in the responses array, with a location of its own
  Ex(U2, <<>>, 24), Ex(U2, <<CT>>, 0) >>

Init == /\ b \in { [ver |-> v, hasprimary |-> hp, primary |-> U1, hasmanifest |-> hm, manifest |-> U2, hassigs |-> FALSE, sigs |-> <<>>, exs |-> <<>>] :
                    v \in {"b1", "b2"}, hp \in BOOLEAN, hm \in BOOLEAN }
        /\ done = FALSE
Next == /\ ~done
        /\ \/ Len(b.exs) < MaxEx /\ \E t \in Tmpl : b' = [b EXCEPT !.exs = Append(b.exs, Templates[t])] /\ done' = FALSE
           \/ done' = TRUE /\ b' = b /\ PrintT("VEC " \o ToJson([b |-> b, refused |-> Refused(b)]))
Spec == Init /\ [][Next]_<<b, done>>

WrittenIsWellFormed == ~Refused(b) => WellFormedBundle(SpecWrite(b), b.ver)
ReadsBack == ~Refused(b) => LET x == Extract(SpecWrite(b)) IN
               x.res = "ok" /\ x.exs = ExpectedRead(b) /\ x.ver = b.ver
               /\ (b.hasprimary => x.primary = b.primary) /\ x.hasmanifest = b.hasmanifest
\* sanity: something is refused and something is not (non-vacuity is also checked through coverage of VEC)
=============================================================================
