----------------------------- MODULE MC_CborDec -----------------------------
(* C12: the decoder machine explored over every initial byte x follow-byte    *)
(* pattern x content shorter/equal/longer than declared x every accessor.     *)
(* Behaviours are printed ("VEC {in, ops}"), replayed on the real cbor.Decoder *)
(* and the recorded run is judged by Trace_CborDec.                           *)
EXTENDS CborMachines, TLC, Json
CONSTANTS MaxOps, Pairs
VARIABLES in, pos, ops, halted
vars == <<in, pos, ops, halted>>

Ops == {"uint", "arr", "map", "bytes", "text", "byte"}

Pat(nf) == IF nf = 0 THEN { <<>> }
           ELSE { Zeros(nf), Zeros(nf - 1) \o <<1>>, Zeros(nf - 1) \o <<23>>, Zeros(nf - 1) \o <<24>>,
                  IF nf = 1 THEN <<24>> ELSE Zeros(nf \div 2 - 1) \o <<1>> \o Zeros(nf \div 2),   \* least value needing this class
                  <<127>> \o Rep(nf - 1, 255), <<128>> \o Zeros(nf - 1), Rep(nf, 255), Rep(nf - 1, 255) \o <<247>>,
                  Zeros(nf - 1) }                                                                  \* truncated head
A(n) == Rep(n, 97)
Tails(ib, fol) ==
  LET b == <<ib>> \o fol
      h == HeadAt(b, 1)
  IN IF h.ok /\ h.mt \in {2, 3} /\ IsSmall(h.arg) /\ SmallVal(h.arg) <= 300
     THEN LET L == SmallVal(h.arg) IN
          { A(L), A(L + 1) } \cup (IF L > 0 THEN { A(L - 1), A(L - 1) \o <<200>>, A(L - 1) \o <<200, 97>> } ELSE {})
             \cup (IF L >= 3 THEN { A(L - 3) \o <<239, 191, 189>>, <<239, 191, 189>> \o A(L - 3) } ELSE {})      \* U+FFFD is a valid character
     ELSE { <<>>, <<97, 97>> } \cup (IF Ai(ib) >= 28 THEN { A(Ai(ib)), A(Ai(ib) + 1) } ELSE {})
StreamsOK == UNION { UNION { { <<ib>> \o fol \o t : t \in Tails(ib, fol) } :
                               fol \in Pat(IF NFollow(Ai(ib)) < 0 THEN 0 ELSE NFollow(Ai(ib))) } : ib \in 0..255 }
SmallItems == { <<0>>, <<24, 24>>, <<25, 1, 0>>, <<65, 97>>, <<97, 97>>, <<97, 200>>, <<64>>, <<130>>, <<161>>, <<31>>, <<28>>, <<95>>, <<24>>, <<66, 97>> }

Init == /\ in \in (IF Pairs THEN { x \o y : x \in SmallItems, y \in SmallItems } ELSE StreamsOK)
        /\ pos = 1 /\ ops = <<>> /\ halted = FALSE

Step(op) ==
  /\ ops' = Append(ops, op)
  /\ IF DecSucceeds(in, pos, op) THEN pos' = DecValue(in, pos, op).pos /\ halted' = FALSE
     ELSE pos' = pos /\ halted' = TRUE
  /\ in' = in
  /\ IF Len(ops') = MaxOps \/ ~DecSucceeds(in, pos, op) THEN PrintT("VEC " \o ToJson([in |-> in, ops |-> ops'])) ELSE TRUE
Next == ~halted /\ Len(ops) < MaxOps /\ \E op \in Ops : Step(op)
Spec == Init /\ [][Next]_vars

\* design-level sanity of the call semantics against generic well-formedness
LeafAgreesWithWf ==
  \A op \in {"uint", "bytes"} :
     DecSucceeds(in, pos, op) => WfEnd(in, pos) = DecValue(in, pos, op).pos
TextAgreesWithWf == DecSucceeds(in, pos, "text") => WfEnd(in, pos) = DecValue(in, pos, "text").pos
\* reserved / indefinite heads never succeed
NoReserved == (pos <= Len(in) /\ Ai(in[pos]) >= 28) => \A op \in Ops \ {"byte"} : ~DecSucceeds(in, pos, op)
PosInRange == pos >= 1 /\ pos <= Len(in) + 1
=============================================================================
