------------------------------- MODULE MC_Mice -------------------------------
(* C15 / C14 at design level: the MiDec machine of MiceCore under an adversary  *)
(* that supplies EVERY chunk of the stream (any sequence of known symbols of    *)
(* length 0..rs+HW) and the record-size field, against the digest of an honest  *)
(* payload.  Abstract crypto: Hash(x) is a tuple of HW slice tokens of the      *)
(* perfect hash of the symbol sequence x, so equal hashes mean equal preimages  *)
(* but record / proof boundaries can still be mis-aligned by the adversary.     *)
(* Data symbols include the two flag values.                                    *)
EXTENDS Bytes, TLC, Json
CONSTANTS EmitVec, HW, MaxRS, MaxARS, MaxLen, Data, MaxFills   \* MaxARS: largest record size the adversary may announce (= the caller's limit)
VARIABLES phase, draft, payload, hrs, proof, stream, s, delivered, fills, ended, lastres
vars == <<phase, draft, payload, hrs, proof, stream, s, delivered, fills, ended, lastres>>

D(n) == [i |-> 0, k |-> "d", v |-> <<n>>]
Z(n) == [i |-> -1, k |-> "z", v |-> <<n>>]
AH(pre) == [j \in 1..HW |-> [i |-> j, k |-> "h", v |-> pre]]
SzEnc(n) == << Z(n) >>
SzZero(f) == f[1].v[1] = 0
SzAbove(f, max) == f[1].v[1] > max
SzSmall(f) == f[1].k = "z"
SzVal(f) == f[1].v[1]
M == INSTANCE MiceCore WITH Hash <- AH, HashLen <- HW, Flag0 <- << D(0) >>, Flag1 <- << D(1) >>, SizeLen <- 1,
                            SizeEnc <- SzEnc, SizeZero <- SzZero, SizeAbove <- SzAbove, SizeSmall <- SzSmall, SizeVal <- SzVal

Payloads == UNION { [1..n -> Data] : n \in 0..MaxLen }
Honest(dr, p, rs) == M!MiEnc(dr, [j \in 1..Len(p) |-> D(p[j])], rs)

\* what the adversary can put on the wire: data symbols, every token of the honest stream
\* (all proofs of the honest chain), slices of an unrelated hash
Universe(hs) == { D(n) : n \in Data } \cup { hs[j] : j \in 1..Len(hs) } \cup { AH(<< D(0), D(0), D(0), D(0), D(0) >>)[j] : j \in 1..HW }
Chunks(U, n) == UNION { [1..m -> U] : m \in 0..n }

Init == /\ phase = "new" /\ draft \in {"02", "03"} /\ payload \in Payloads /\ hrs \in 1..MaxRS
        /\ proof = Honest(draft, payload, hrs).top
        /\ stream = <<>> /\ s = M!DecState("err", 1, <<>>, <<>>, 0, draft) /\ delivered = <<>> /\ fills = 0 /\ ended = FALSE /\ lastres = "nil"

\* NewDecoder: the adversary chooses the size field (or an empty stream)
New == /\ phase = "new"
       /\ \E f \in { <<>> } \cup { SzEnc(n) : n \in 0..(MaxARS + 1) } :
            LET r == M!MiNew(draft, proof, f, MaxARS) IN
            /\ stream' = f
            /\ ended' = (f = <<>>)
            /\ s' = r.s
            /\ phase' = IF r.ok THEN "open" ELSE "refused"
       /\ UNCHANGED <<draft, payload, hrs, proof, delivered, fills, lastres>>

\* Read with an unbounded buffer: Fill (adversary supplies the next chunk) + deliver
Read == /\ phase = "open" /\ fills < MaxFills
        /\ IF s.out # <<>> \/ s.next = <<>>
           THEN LET r == M!MiRead(stream, s, 1000) IN
                /\ s' = r.s /\ delivered' = delivered \o r.data /\ lastres' = r.res
                /\ phase' = IF r.res = "nil" THEN "open" ELSE IF r.res = "eof" THEN "eof" ELSE "err"
                /\ UNCHANGED <<stream, ended, fills>>
           ELSE \E c \in (IF ended THEN { <<>> } ELSE Chunks(Universe(Honest(draft, payload, hrs).stream), s.rs + HW)) :
                LET st2 == stream \o c
                    r == M!MiRead(st2, s, 1) IN       \* hand out one symbol at a time
                /\ stream' = st2
                /\ ended' = (ended \/ Len(c) < s.rs + HW)
                /\ fills' = fills + 1
                /\ s' = r.s /\ delivered' = delivered \o r.data /\ lastres' = r.res
                /\ phase' = IF r.res = "nil" THEN "open" ELSE IF r.res = "eof" THEN "eof" ELSE "err"
        /\ UNCHANGED <<draft, payload, hrs, proof>>

\* terminal transitions are exported for replay on the real decoder
Emit == (EmitVec /\ phase' \in {"eof", "err", "refused"} /\ phase \notin {"eof", "err", "refused"}) =>
          PrintT("VEC " \o ToJson([draft |-> draft, payload |-> payload, hrs |-> hrs, stream |-> stream',
                                   res |-> phase', ndel |-> Len(delivered'), hw |-> HW, max |-> MaxARS]))
Next == (New \/ Read) /\ Emit
Spec == Init /\ [][Next]_vars

SymPayload == [j \in 1..Len(payload) |-> D(payload[j])]
\* everything handed out or validated-and-pending is a prefix of the payload the digest commits to
Authenticated == IsPrefixB(delivered \o s.out, SymPayload)
\* clean end-of-stream only after the whole payload
CleanEof == phase = "eof" => delivered = SymPayload
\* a refused record size never leaves the size field position
RefusedEarly == phase = "refused" => s.pos <= 2
\* the honest stream decodes to the payload (C14 round trip at design level)
HonestDecodes ==
  phase = "new" =>
    LET e == Honest(draft, payload, hrs)
        n == M!MiNew(draft, e.top, e.stream, MaxARS)
    IN n.ok /\ LET r == M!MiDecodeAll(e.stream, n.s, <<>>) IN r.ok /\ r.payload = SymPayload
View == <<phase, draft, payload, hrs, s, delivered, fills, ended>>
=============================================================================
