-------------------------------- MODULE Trace_Cli --------------------------------
(* C20: records of command-line pipelines (exit statuses, files written, facts     *)
(* read off stdout) judged by the tool contracts and by the FORMAT specifications:  *)
(* a bundle from gen-bundle by WellFormedBundle + the directory relation, a signed  *)
(* exchange by RefRead + Accept, a cert chain by ChainBytes, an integrity-block     *)
(* output by BlockBytes + Ed25519 verification, the ID by WebBundleId.              *)
EXTENDS BundleSig, IntegrityBlock, TLC, Json, IOUtils
Trace == ndJsonDeserialize(IOEnv.VERIF_TRACE)
VARIABLE l

HexVal(c) == IF IsDigit(c) THEN c - 48 ELSE IF c >= 65 /\ c <= 70 THEN c - 55 ELSE IF c >= 97 /\ c <= 102 THEN c - 87 ELSE -1
RECURSIVE PctDecode(_)
PctDecode(s) == IF s = <<>> THEN <<>>
                ELSE IF s[1] = 37 /\ Len(s) >= 3 /\ HexVal(s[2]) >= 0 /\ HexVal(s[3]) >= 0 THEN <<HexVal(s[2]) * 16 + HexVal(s[3])>> \o PctDecode(SubSeq(s, 4, Len(s)))
                ELSE <<s[1]>> \o PctDecode(Tail(s))
\* path of an absolute URL: from the first "/" after the authority up to "?" / "#"
UrlPath(u) == LET a == SchemeEnd(u) + 3
                  p == FirstIn(u, a, Len(u), LAMBDA c : c = 47)
                  e == FirstIn(u, a, Len(u), LAMBDA c : c = 63 \/ c = 35)
              IN IF p = 0 \/ (e # 0 /\ e < p) THEN <<>> ELSE SubSeq(u, p, IF e = 0 THEN Len(u) ELSE e - 1)
HasQueryOrFragment(u) == \E i \in 1..Len(u) : u[i] = 63 \/ u[i] = 35
IndexName == <<105,110,100,101,120,46,104,116,109,108>>        \* index.html
EndsWithIndex(rel) == Len(rel) >= 10 /\ SubSeq(rel, Len(rel) - 9, Len(rel)) = IndexName /\ (Len(rel) = 10 \/ rel[Len(rel) - 10] = 47)

\* what the bundle made from a directory must contain: per regular file one exchange at base || rel with the
\* file's bytes; index.html is delivered at its directory's slash URL and its own URL redirects there
ExpectedDir(basePath, files) ==
  UNION { IF EndsWithIndex(files[i].rel)
          THEN { [path |-> basePath \o SubSeq(files[i].rel, 1, Len(files[i].rel) - 10), redirect |-> FALSE, body |-> files[i].body],
                 [path |-> basePath \o files[i].rel, redirect |-> TRUE, body |-> <<>>] }
          ELSE { [path |-> basePath \o files[i].rel, redirect |-> FALSE, body |-> files[i].body] } : i \in 1..Len(files) }
Origin0 == <<104,116,116,112,115,58,47,47,101,120,97,109,112,108,101,46,99,111,109>>     \* https://example.com
FoundDir(exs) == { [path |-> PctDecode(UrlPath(exs[i].url)), redirect |-> exs[i].status \in {301, 302, 307, 308},
                    body |-> IF exs[i].status \in {301, 302, 307, 308} THEN <<>> ELSE exs[i].body] : i \in 1..Len(exs) }

DirFailures(ev) ==
  LET x == ExtractWith(ev.file, LAMBDA u : "ok") IN
  (IF ev.gen_exit = 0 THEN {} ELSE {"gen-bundle failed on a directory within the documented range"})
  \cup (IF ev.gen_exit # 0 THEN {}
        ELSE (IF WellFormedBundle(ev.file, ev.ver) THEN {} ELSE {"gen-bundle output is not a well-formed bundle"})
        \cup (IF x.res # "err" /\ FoundDir(x.exs) = ExpectedDir(ev.basepath, ev.files) /\ Len(x.exs) = Cardinality(ExpectedDir(ev.basepath, ev.files))
                 /\ \A i \in 1..Len(x.exs) : IsPrefixB(ev.origin \o <<47>>, x.exs[i].url) /\ ~HasQueryOrFragment(x.exs[i].url)
                                              /\ (x.exs[i].status = 200 \/ x.exs[i].status \in {301, 302, 307, 308})
              THEN {} ELSE {"bundle does not hold exactly one exchange per file at base URL + percent-encoded relative path"})
        \cup (IF ev.dump_exit = 0 THEN {} ELSE {"dump-bundle rejects gen-bundle's output"})
        \* covered = the signer's certificate is valid for the bundle's host: every exchange is then reported as signed; otherwise
        \* the tool vouches for nothing (an empty subset), which is still a bundle the consumer must take: nothing signed, no error
        \cup (IF ev.sign = "sigsection" /\ ~(ev.sign_exit = 0 /\ ev.dump2_exit = 0 /\ ev.marks.verr = 0 /\ ev.marks.sigerr = 0
                                         /\ (IF ev.covered THEN ev.marks.signed = Len(x.exs) ELSE ev.marks.signed = 0 /\ ev.marks.notsigned = Len(x.exs)))
              THEN {"bundle signed with a signatures section does not verify in dump-bundle"} ELSE {}))

\* ev.strategy = "stable": the tool signs with the key in the file (ev.pk).  ev.strategy = "rotating" (hook of /repo 0264ba8): the
\* strategy answers ev.pk to its first GetPublicKey request and ev.pk2 to every later one, and signs with the key of its last
\* answer.  C07 does not say which key the tool ends up recording; it says that the signature it lists verifies under the key
\* stored in its own attributes, that the reported ID is the ID of that key, and that the signer refuses (adds nothing)
\* when the signature it obtained does not verify under the key it is about to record.  So: the recorded key rk is read from
\* the output's own attributes, it must be one of the keys the strategy answered, and everything else is stated over rk;
\* with a rotating strategy a refusal (non-zero exit) is a legal outcome too, and then the ID of a signed bundle must not be announced.
IbFailures(ev) ==
  LET rot == ev.strategy = "rotating"
      pre0 == EncArrayHdr(3) \o EncBytes(IBMagic) \o EncBytes(IBVer) \o EncArrayHdr(1) \o EncArrayHdr(2)
      a0 == AttrsBytes(<< [k |-> K_ed25519, v |-> ev.pk] >>)
      kpos == Len(pre0) + Len(a0) - 31                     \* the 32 key bytes are the tail of the one-entry attributes map
      rk == IF rot /\ Len(ev.out) >= kpos + 31 THEN SubSeq(ev.out, kpos, kpos + 31) ELSE ev.pk
      attrs == << [k |-> K_ed25519, v |-> rk] >>
      prefix == pre0 \o AttrsBytes(attrs) \o <<88, 64>>
      n == Len(prefix)
  IN (IF ev.sign_exit = 0 \/ rot THEN {} ELSE {"sign-bundle integrity-block failed on gen-bundle's output"})
  \cup (IF ev.sign_exit # 0 THEN (IF rot /\ ev.id # <<>> THEN {"a Web Bundle ID was announced although signing was refused"} ELSE {})
        ELSE (IF rk \in {ev.pk} \cup (IF rot THEN {ev.pk2} ELSE {}) THEN {} ELSE {"the recorded public key is not a key the signing strategy answered"})
        \cup (IF Len(ev.out) = n + 64 + Len(ev.infile) /\ SubSeq(ev.out, 1, n) = prefix /\ SubSeq(ev.out, n + 65, Len(ev.out)) = ev.infile THEN {}
              ELSE {"output is not [magic, version, [[attributes, signature]]] followed by the untouched bundle"})
        \cup (IF Len(ev.out) >= n + 64 /\ Ed25519Verify(rk, DataToBeSigned(SHA512(ev.infile), BlockBytes(<<>>), attrs), SubSeq(ev.out, n + 1, n + 64)) THEN {}
              ELSE {"integrity-block signature does not verify under the public key stored in its own attributes"})
        \cup (IF ev.id = WebBundleId(rk) THEN {} ELSE {"printed Web Bundle ID is not the ID of the recorded key"}))
  \cup (IF ev.dumpid_exit = 0 /\ ev.dumpid = WebBundleId(ev.pk) THEN {} ELSE {"dump-id"})

CertFailures(ev) ==
  LET chain == [i \in 1..Len(ev.certs) |-> [cert |-> ev.certs[i], hasocsp |-> i = 1, ocsp |-> IF i = 1 THEN ev.ocsp ELSE <<>>,
                                            hassct |-> i = 1 /\ ev.hassct, sct |-> IF i = 1 /\ ev.hassct THEN SctList(ev.scts) ELSE <<>>]] IN
  (IF ev.gen_exit = 0 /\ ev.out = ChainBytes(chain) THEN {} ELSE {"gen-certurl output is not the specified cert-chain+cbor"})
  \cup (IF ev.dump_exit = 0 THEN {} ELSE {"dump-certurl rejects gen-certurl's output"})

\* the same logical input (same files, created in different orders) gives the same bytes and the same exit status
CertPureFailures(ev) ==
  IF \A i \in 1..Len(ev.outs) : ev.outs[i] = ev.outs[1] /\ ev.exits[i] = ev.exits[1] THEN {}
  ELSE {"gen-certurl output depends on the order in which the files of -sctDir were created"}

\* defaults compose: what gen-signedexchange writes (with or without -version) is a file of that version which
\* dump-signedexchange -verify takes from a file, from standard input and from a server that labels it correctly
SxgDefaultFailures(ev) ==
  (IF ev.gen_exit = 0 /\ RefRead(ev.file).res = "ok" /\ RefRead(ev.file).x.ver = ev.ver THEN {} ELSE {"gen-signedexchange did not write an exchange of the expected version"})
  \cup (IF ev.dump_exit = 0 /\ ev.valid THEN {} ELSE {"dump-signedexchange -verify does not take gen-signedexchange's output"})

SxgFailures(ev) ==
  LET rr == RefRead(ev.file) IN
  (IF ev.gen_exit = 0 THEN {} ELSE {"gen-signedexchange failed on flags within the documented range"})
  \cup (IF ev.gen_exit # 0 THEN {}
        ELSE (IF rr.res = "ok" /\ Accept(rr.x, ev.t, ev.leaf).ok /\ Accept(rr.x, ev.t, ev.leaf).payload = ev.content THEN {}
              ELSE {"gen-signedexchange wrote an exchange that does not verify per the specification"})
        \cup (IF ev.dump_exit = 0 /\ ev.valid THEN {} ELSE {"dump-signedexchange -verify rejects gen-signedexchange's output"}))

\* gen-signedexchange as a relation between the text of its flags and the file.  flags = <<[n, v]>> in command-line order,
\* n = text before the first colon, v = the rest, both trimmed.
FlagField(flags, name) == LET vs == SelectSeq([i \in 1..Len(flags) |-> IF LowerB(flags[i].n) = name THEN [hit |-> TRUE, v |-> flags[i].v] ELSE [hit |-> FALSE, v |-> <<>>]], LAMBDA z : z.hit)
                          IN JoinWith([i \in 1..Len(vs) |-> vs[i].v], <<44>>)
FlagsHeld(flags, h) == \A i \in 1..Len(flags) : <<LowerB(flags[i].n), FlagField(flags, LowerB(flags[i].n))>> \in HSet(h)
SxgFlagFailures(ev) ==
  LET rr == RefRead(ev.file)
      pl == RefParsePL(rr.x.sighdr) IN
  (IF ev.gen_exit = 0 THEN {} ELSE {"gen-signedexchange failed on flags within the documented range"})
  \cup (IF ev.gen_exit # 0 THEN {}
        ELSE IF rr.res # "ok" THEN {"gen-signedexchange wrote a file that does not parse per the specification"}
        ELSE (IF Accept(rr.x, ev.t, ev.leaf).ok /\ Accept(rr.x, ev.t, ev.leaf).payload = ev.content THEN {}
              ELSE {"gen-signedexchange wrote an exchange that does not verify per the specification"})
        \cup (IF rr.x.uri = ev.uri /\ rr.x.status = ev.status /\ (HasRequestMap(rr.x) => rr.x.method = ev.method) THEN {}
              ELSE {"the exchange does not carry the -uri / -status / -method given"})
        \cup (IF FlagsHeld(ev.respflags, rr.x.resph) THEN {}
              ELSE {"a -responseHeader flag is not in the exchange as given (name before the first colon, value after it, repeated names comma-joined)"})
        \cup (IF HasRequestMap(rr.x) => FlagsHeld(ev.reqflags, rr.x.reqh) THEN {}
              ELSE {"a -requestHeader flag is not in the exchange as given"})
        \cup (IF ev.hdrdump = HeadersCbor(rr.x) THEN {} ELSE {"-dumpHeadersCbor is not the canonical CBOR of the exchange's headers"})
        \cup (IF pl.ok /\ Len(pl.v) = 1 /\ ItemWellTyped(pl.v[1].params) /\ ev.msgdump = Msg(rr.x, SpOf(pl.v[1].params)) THEN {}
              ELSE {"-dumpSignatureMessage is not the message the specification has signed"})
        \cup (IF ~ev.now \/ (ev.dump_exit = 0 /\ ev.valid) THEN {} ELSE {"dump-signedexchange -verify rejects gen-signedexchange's output"}))

\* HAR import: GET entries with status 100..999; pseudo and banned headers dropped; later entry for a URL dropped unless both carry Variants
HarExpected(entries) ==
  LET ok(i) == entries[i].method = S_GET /\ entries[i].status >= 100 /\ entries[i].status <= 999
                /\ \A j \in 1..(i - 1) : ~(entries[j].method = S_GET /\ entries[j].url = entries[i].url)
  IN { [url |-> entries[i].url, status |-> entries[i].status, body |-> entries[i].body,
        hs |-> { <<LowerB(entries[i].resph[k].n), entries[i].resph[k].v>> : k \in { k2 \in 1..Len(entries[i].resph) :
                    entries[i].resph[k2].n[1] # 58 /\ LowerB(entries[i].resph[k2].n) \notin UncachedHeaders } }] : i \in { i2 \in 1..Len(entries) : ok(i2) } }
HarFailures(ev) ==
  LET x == ExtractWith(ev.file, LAMBDA u : "ok") IN
  (IF ev.gen_exit = 0 /\ ev.dump_exit = 0 THEN {} ELSE {"gen-bundle -har / dump-bundle failed"})
  \cup (IF ev.gen_exit # 0 THEN {}
        ELSE IF WellFormedBundle(ev.file, ev.ver) /\ x.res # "err"
                /\ { [url |-> x.exs[i].url, status |-> x.exs[i].status, body |-> x.exs[i].body, hs |-> x.exs[i].hs] : i \in 1..Len(x.exs) } = HarExpected(ev.entries)
             THEN {} ELSE {"bundle from HAR does not hold exactly the GET entries with banned / pseudo headers dropped"})

\* URL list: the file's lines, trimmed; blank lines and lines starting with '#' skipped; a URL listed again skipped; one
\* exchange per remaining line holding what the server answered for it (served: the final answer per URL)
UlKept(listfile) ==
  LET ls == SplitOn(listfile, 10)
      t == [i \in 1..Len(ls) |-> TrimWS(ls[i])]
  IN SelectSeq([i \in 1..Len(t) |-> IF t[i] # <<>> /\ t[i][1] # 35 /\ (\A j \in 1..(i - 1) : t[j] # t[i]) THEN t[i] ELSE <<>>], LAMBDA z : z # <<>>)
UrlListExpected(listfile, served) ==
  LET kept == UlKept(listfile) IN
  { LET sv == served[CHOOSE k \in 1..Len(served) : served[k].url = kept[i]] IN
    [url |-> kept[i], status |-> sv.status, body |-> sv.body, hs |-> { <<LowerB(sv.resph[k].n), JoinWith(sv.resph[k].vs, <<44>>)>> : k \in 1..Len(sv.resph) }] : i \in 1..Len(kept) }
UrlListFailures(ev) ==
  LET x == ExtractWith(ev.file, LAMBDA u : "ok") IN
  IF ev.skipped THEN {} ELSE
  (IF ev.gen_exit = 0 /\ ev.dump_exit = 0 THEN {} ELSE {"gen-bundle -URLList / dump-bundle failed"})
  \cup (IF ev.gen_exit # 0 THEN {}
        ELSE IF WellFormedBundle(ev.file, ev.ver) /\ x.res # "err" /\ Len(x.exs) = Len(UlKept(ev.listfile))
                /\ { [url |-> x.exs[i].url, status |-> x.exs[i].status, body |-> x.exs[i].body, hs |-> x.exs[i].hs] : i \in 1..Len(x.exs) } = UrlListExpected(ev.listfile, ev.served)
             THEN {} ELSE {"bundle from a URL list does not hold exactly one exchange per listed URL with the server's status, header fields and body"})

\* OCSP over the network: the responder named in the leaf certificate is asked with the DER request as a POST body, or
\* (RFC 5019) with GET <responder>/<url-escaped base64 of the SAME request> when -preferGET is given and that URL has at
\* most 255 characters; the answer becomes the ocsp value.  ev.req = what the responder saw; ev.reqder = the request the
\* POST form of the same invocation carried (the harness runs both forms)
IsAlnum(c) == IsAlpha(c) \/ IsDigit(c)
HexDigitU(n) == IF n < 10 THEN 48 + n ELSE 55 + n
S_POST == <<80,79,83,84>>
S_ocspreq == <<97,112,112,108,105,99,97,116,105,111,110,47,111,99,115,112,45,114,101,113,117,101,115,116>>   \* application/ocsp-request
PctEsc(c) == IF IsAlnum(c) \/ c \in {45, 46, 95, 126} THEN <<c>> ELSE <<37, HexDigitU(c \div 16), HexDigitU(c % 16)>>
QueryEscape(s) == Concat([i \in 1..Len(s) |-> PctEsc(s[i])])
OcspGetUrl(responder, der) == responder \o <<47>> \o QueryEscape(B64Enc(der, FALSE, TRUE))
OcspFetchFailures(ev) ==
  LET chain == [i \in 1..Len(ev.certs) |-> [cert |-> ev.certs[i], hasocsp |-> i = 1, ocsp |-> IF i = 1 THEN ev.answer ELSE <<>>, hassct |-> FALSE, sct |-> <<>>]]
      useget == ev.preferget /\ Len(OcspGetUrl(ev.responder, ev.reqder)) <= 255
  IN IF ev.skipped THEN {} ELSE
  (IF ev.gen_exit = 0 /\ ev.out = ChainBytes(chain) THEN {} ELSE {"gen-certurl output is not the chain with the responder's answer as ocsp value"})
  \cup (IF ev.dump_exit = 0 THEN {} ELSE {"dump-certurl rejects gen-certurl's output"})
  \cup (IF Len(ev.reqs) = 1 THEN {} ELSE {"the responder was not asked exactly once"})
  \cup (IF Len(ev.reqs) # 1 THEN {}
        ELSE IF useget THEN (IF ev.reqs[1].method = S_GET /\ ev.responderbase \o ev.reqs[1].path = OcspGetUrl(ev.responder, ev.reqder) THEN {}
                             ELSE {"-preferGET: the request is not GET <responder>/<escaped base64 of the DER request>"})
        ELSE (IF ev.reqs[1].method = S_POST /\ ev.responderbase \o ev.reqs[1].path = ev.responder /\ ev.reqs[1].body = ev.reqder /\ ev.reqs[1].ctype = S_ocspreq THEN {}
              ELSE {"the request is not a POST of the DER request (application/ocsp-request) to the responder"}))

\* dump-signedexchange's views: functions of the file
ValidLine == <<84,104,101,32,101,120,99,104,97,110,103,101,32,104,97,115,32,97,32,118,97,108,105,100,32,115,105,103,110,97,116,117,114,101,46>>
PayloadBanner(n) == <<112,97,121,108,111,97,100,32,91>> \o DecDigits(n) \o <<32,98,121,116,101,115,93,58,10>>      \* "payload [n bytes]:\n"
SxgViewFailures(ev) ==
  LET rr == RefRead(ev.file)
      a == Accept(rr.x, ev.t, ev.leaf) IN
  (IF ev.gen_exit = 0 /\ rr.res = "ok" THEN {} ELSE {"gen-signedexchange failed"})
  \cup (IF ev.gen_exit # 0 \/ rr.res # "ok" THEN {}
        ELSE IF ev.dump_exit # 0 THEN {"dump-signedexchange failed on gen-signedexchange's output"}
        ELSE IF ev.view = "headerIntegrity" THEN (IF ev.stdout = HeaderIntegrity(rr.x) \o <<10>> THEN {} ELSE {"-headerIntegrity does not print sha256-<base64 of the SHA-256 of the header CBOR>"})
        ELSE IF ev.view = "signature" THEN (IF ev.stdout = rr.x.sighdr \o <<10>> THEN {} ELSE {"-signature does not print the Signature header value"})
        \* "payload [<n> bytes]:" and then the n bytes of the VERIFIED (decoded) payload
        ELSE IF ev.view = "payloadonly" THEN (IF a.ok /\ ev.stdout = <<10>> \o ValidLine \o <<10>> \o PayloadBanner(Len(a.payload)) \o a.payload THEN {} ELSE {"-verify -headers=false does not print the verdict and the verified payload"})
        ELSE (IF ev.json.ok /\ ev.json.valid = a.ok /\ ev.json.integrity = HeaderIntegrity(rr.x) /\ ev.json.uri = rr.x.uri /\ ev.json.status = rr.x.status
                 /\ ~ev.json.haspayload THEN {}
              ELSE {"-json does not report the verdict / header integrity / request URL / status of the exchange"}))

\* the chain fetched from the exchange's own cert-url: valid iff the server has the right chain there
SxgFetchFailures(ev) ==
  LET rr == RefRead(ev.file) IN
  IF ev.skipped THEN {} ELSE
  (IF ev.gen_exit = 0 /\ rr.res = "ok" /\ Accept(rr.x, ev.t, ev.leaf).ok THEN {} ELSE {"gen-signedexchange did not write an exchange that verifies per the specification"})
  \cup (IF ev.gen_exit # 0 THEN {}
        ELSE IF ev.certfetch = "served" THEN (IF ev.dump_exit = 0 /\ ev.valid /\ ev.fetched = 1 THEN {} ELSE {"dump-signedexchange -verify does not verify with the chain fetched from cert-url"})
        ELSE (IF ev.dump_exit # 0 /\ ~ev.valid THEN {} ELSE {"dump-signedexchange -verify reports a valid signature although cert-url serves no / another chain"}))

\* -manifestURL: in a b1 bundle the manifest section holds exactly that URL (and everything else is as without it);
\* for b2, which has no such section, the tool fails instead of writing a bundle without it
ManifestFailures(ev) ==
  LET x == ExtractWith(ev.file, LAMBDA u : "ok") IN
  IF ev.ver = "b2" THEN (IF ev.gen_exit # 0 THEN {} ELSE {"gen-bundle -manifestURL wrote a b2 bundle although the format has no manifest section"})
  ELSE (IF ev.gen_exit = 0 /\ ev.dump_exit = 0 THEN {} ELSE {"gen-bundle -manifestURL / dump-bundle failed on a b1 bundle"})
       \cup (IF ev.gen_exit # 0 THEN {}
             ELSE IF WellFormedBundle(ev.file, ev.ver) /\ x.res # "err" /\ x.hasmanifest /\ x.manifest = ev.manifest /\ Len(x.exs) = ev.nfiles THEN {}
             ELSE {"the b1 bundle does not carry the given manifest URL in its manifest section"})

Failures(ev) == CASE ev.kind = "manifestcli" -> ManifestFailures(ev) [] ev.kind = "urllist" -> UrlListFailures(ev) [] ev.kind = "ocspfetch" -> OcspFetchFailures(ev) [] ev.kind = "sxgview" -> SxgViewFailures(ev) [] ev.kind = "sxgfetch" -> SxgFetchFailures(ev)
                  [] ev.kind = "dirbundle" -> DirFailures(ev) [] ev.kind = "ibcli" -> IbFailures(ev) [] ev.kind = "certcli" -> CertFailures(ev) [] ev.kind = "certpure" -> CertPureFailures(ev)
                  [] ev.kind = "sxgcli" -> SxgFailures(ev) [] ev.kind = "sxgflags" -> SxgFlagFailures(ev) [] ev.kind = "sxgdefaults" -> SxgDefaultFailures(ev) [] ev.kind = "harcli" -> HarFailures(ev)
TraceInit == l = 1
TraceNext ==
  /\ l <= Len(Trace)
  /\ l' = l + 1
  /\ LET f == Failures(Trace[l]) IN IF f = {} THEN TRUE ELSE PrintT("REJECT " \o ToJson([case |-> Trace[l].case, why |-> f]))
  /\ IF l = Len(Trace) THEN PrintT("DONE " \o ToString(l)) ELSE TRUE
TraceSpec == TraceInit /\ [][TraceNext]_l
=============================================================================
