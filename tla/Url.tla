--------------------------------- MODULE Url ---------------------------------
(***************************************************************************)
(* The URL fragment this code base relies on, for URLs drawn from the      *)
(* generator's grammar  scheme "://" host [":" port] [path] ["?" query]    *)
(* ["#" fragment]  (no userinfo, no IPv6 literals): scheme, host, port and *)
(* the RFC 6454 origin (scheme, case-folded host, effective port).         *)
(***************************************************************************)
EXTENDS Bytes
FirstIndex(s, P(_), from) == FirstIn(s, from, Len(s), P)
SchemeEnd(u) == LET IsColon(c) == c = 58 IN FirstIndex(u, IsColon, 1)
HasAuthority(u) == LET e == SchemeEnd(u) IN e > 1 /\ e + 2 <= Len(u) /\ u[e + 1] = 47 /\ u[e + 2] = 47
UrlScheme(u) == LowerB(SubSeq(u, 1, SchemeEnd(u) - 1))
Authority(u) == LET st == SchemeEnd(u) + 3
                    IsEnd(c) == c \in {47, 63, 35}
                    e == FirstIndex(u, IsEnd, st)
                IN SubSeq(u, st, IF e = 0 THEN Len(u) ELSE e - 1)
HostPort(u) == LET a == Authority(u)
                   c == LastIn(a, 1, Len(a), LAMBDA ch : ch = 58)
               IN IF c = 0 THEN [host |-> a, port |-> <<>>]
                  ELSE [host |-> SubSeq(a, 1, c - 1), port |-> SubSeq(a, c + 1, Len(a))]
DefaultPort(scheme) == IF scheme = <<104,116,116,112,115>> THEN <<52,52,51>> ELSE IF scheme = <<104,116,116,112>> THEN <<56,48>> ELSE <<>>
Origin(u) == LET hp == HostPort(u) IN
             [scheme |-> UrlScheme(u), host |-> LowerB(hp.host), port |-> IF hp.port = <<>> THEN DefaultPort(UrlScheme(u)) ELSE hp.port]
SameOrigin(u1, u2) == HasAuthority(u1) /\ HasAuthority(u2) /\ Origin(u1) = Origin(u2)
IsHttps(u) == HasAuthority(u) /\ UrlScheme(u) = <<104,116,116,112,115>>
=============================================================================
