----------------------------- MODULE MC_CborEnc -----------------------------
(* C11: the encoder machine explored exhaustively over boundary arguments.    *)
(* State: out (bytes written so far), hist (calls so far), errd.              *)
(* Every terminal behaviour is printed ("VEC <calls>") and replayed on the    *)
(* real cbor.Encoder; the recorded run is then judged by Trace_CborEnc.       *)
EXTENDS CborMachines, TLC, Json
CONSTANTS MaxCalls, U1, U2, U3,     \* universe name per call position: "full" | "medium" | "small" | "refused"
          GoOn                      \* TRUE: the caller keeps using the SAME encoder after a refused call (a refusal is an
                                    \* answer, not the end of the encoder: a server drops that item and encodes the next)
VARIABLES out, hist, errd
vars == <<out, hist, errd>>

C(op, a, neg, s, v, es) == [op |-> op, a |-> a, neg |-> neg, s |-> s, v |-> v, es |-> es]

Base == { U64(0), U64(1), U64(23), U64(24), U64(255), U64(256), U64(65535), U64(65536),
          <<0,0,0,0,255,255,255,255>>, <<0,0,0,1,0,0,0,0>>,
          <<127,255,255,255,255,255,255,255>>, <<128,0,0,0,0,0,0,0>>, <<255,255,255,255,255,255,255,255>> }
One == U64(1)
Around == Base \cup { U64Add(b, One).v : b \in { x \in Base : U64Add(x, One).carry = 0 } }
               \cup { U64Sub(b, One) : b \in { x \in Base : x # U64Zero } }
SmallArgs == { U64(0), U64(23), U64(24), U64(256), <<0,0,0,1,0,0,0,0>>, <<255,255,255,255,255,255,255,255>> }

FillB(n) == [i \in 1..n |-> (i * 7) % 256]
FillT(n) == [i \in 1..n |-> 97 + (i % 26)]
BadUtf8 == { <<128>>, <<192,128>>, <<237,160,128>>, <<226,130>>, <<245,128,128,128>>, <<97,255>>, <<224,159,191>> }
GoodUtf8 == { <<239,191,189>>, <<97,239,191,189,98>>, <<195,169>>, <<226,130,172>>, <<240,159,140,144>>, <<237,159,191>>, <<244,143,191,191>> }

\* keys 8..12: pairs of DISTINCT keys that some notion of "similar" would conflate: letter case ("A" / "a", also as
\* the argument bytes of uint 65 / 97 and of a one-byte byte string next to a text string) and bytes that are not UTF-8
Keys == << EncUint(U64(0)), EncUint(U64(24)), EncText(<<97>>), EncText(<<98>>), EncText(<<97,97>>),
           EncBytes(<<>>), EncBytes(<<97>>),
           EncText(<<65>>), EncUint(U64(65)), EncUint(U64(97)), EncBytes(<<128>>), EncBytes(<<129>>) >>
Vals == << EncUint(U64(1)), EncText(<<120>>), EncBytes(FillB(24)), EncUint(U64(256)),
           EncMap(<< [k |-> EncText(<<98>>), v |-> EncUint(U64(2))], [k |-> EncText(<<97>>), v |-> EncUint(U64(1))] >>),
           EncArrayHdr(0), EncBool(TRUE),
           EncUint(U64(8)), EncUint(U64(9)), EncUint(U64(10)), EncUint(U64(11)), EncUint(U64(12)) >>
Entry(i) == [k |-> Keys[i], v |-> Vals[i]]
KeySeqs(K, n) == UNION { [1..m -> K] : m \in 0..n }
MapCalls(K, n) == { C("map", U64Zero, FALSE, <<>>, FALSE, [j \in 1..Len(q) |-> Entry(q[j])]) : q \in KeySeqs(K, n) }

Universe(name) ==
  IF name = "full" THEN
       { C("uint", a, FALSE, <<>>, FALSE, <<>>) : a \in Around }
  \cup { C("int", a, ng, <<>>, FALSE, <<>>) : a \in { x \in Around : x[1] < 128 }, ng \in BOOLEAN }
  \cup { C("bytes", U64Zero, FALSE, FillB(n), FALSE, <<>>) : n \in {0, 1, 23, 24, 255, 256} }
  \cup { C("text", U64Zero, FALSE, FillT(n), FALSE, <<>>) : n \in {0, 1, 23, 24, 255, 256} }
  \cup { C("text", U64Zero, FALSE, s, FALSE, <<>>) : s \in BadUtf8 \cup GoodUtf8 }
  \cup { C("arr", a, FALSE, <<>>, FALSE, <<>>) : a \in { U64(0), U64(1), U64(23), U64(24), U64(255), U64(256), U64(65535), U64(65536), U64(2147483647) } }
  \cup { C("bool", U64Zero, FALSE, <<>>, b, <<>>) : b \in BOOLEAN }
  \cup MapCalls(1..7, 3) \cup MapCalls({3, 8}, 2) \cup MapCalls({9, 10}, 2) \cup MapCalls({11, 12}, 2) \cup MapCalls({7, 3, 8}, 3)
  ELSE IF name = "refused" THEN      \* calls the encoder must refuse
       { C("text", U64Zero, FALSE, s, FALSE, <<>>) : s \in {<<128>>, <<97,255>>} }
  \cup { c \in MapCalls({1, 3, 4}, 3) \cup MapCalls({3, 8}, 3) : HasDupKey(c.es) }
  ELSE IF name = "medium" THEN
       { C("uint", a, FALSE, <<>>, FALSE, <<>>) : a \in Base }
  \cup { C("int", a, TRUE, <<>>, FALSE, <<>>) : a \in { x \in Base : x[1] < 128 } }
  \cup { C("bytes", U64Zero, FALSE, FillB(n), FALSE, <<>>) : n \in {0, 23, 24} }
  \cup { C("text", U64Zero, FALSE, s, FALSE, <<>>) : s \in {<<>>, <<97>>, <<128>>, <<195,169>>} }
  \cup { C("arr", a, FALSE, <<>>, FALSE, <<>>) : a \in { U64(0), U64(2), U64(24) } }
  \cup { C("bool", U64Zero, FALSE, <<>>, TRUE, <<>>) }
  \cup MapCalls({1, 3, 4, 5}, 2)
  ELSE
       { C("uint", a, FALSE, <<>>, FALSE, <<>>) : a \in SmallArgs }
  \cup { C("int", U64(24), TRUE, <<>>, FALSE, <<>>), C("int", <<127,255,255,255,255,255,255,255>>, TRUE, <<>>, FALSE, <<>>) }
  \cup { C("bytes", U64Zero, FALSE, FillB(24), FALSE, <<>>), C("text", U64Zero, FALSE, <<97>>, FALSE, <<>>), C("text", U64Zero, FALSE, <<128>>, FALSE, <<>>) }
  \cup { C("arr", U64(2), FALSE, <<>>, FALSE, <<>>), C("bool", U64Zero, FALSE, <<>>, FALSE, <<>>) }
  \cup MapCalls({4, 5}, 2)

UName(i) == IF i = 1 THEN U1 ELSE IF i = 2 THEN U2 ELSE U3

Init == out = <<>> /\ hist = <<>> /\ errd = FALSE

Call(c) ==
  /\ hist' = Append(hist, c)
  /\ IF EncSpecErr(c) THEN out' = out /\ errd' = TRUE        \* idealised: nothing written on refusal
     ELSE out' = out \o EncSpecOut(c) /\ errd' = FALSE
  /\ IF Len(hist') = MaxCalls \/ (EncSpecErr(c) /\ ~GoOn) THEN PrintT("VEC " \o ToJson(hist')) ELSE TRUE

Next == (GoOn \/ ~errd) /\ Len(hist) < MaxCalls /\ \E c \in Universe(UName(Len(hist) + 1)) : Call(c)
Spec == Init /\ [][Next]_vars

RECURSIVE HistTokens(_)
HistTokens(h) == IF h = <<>> THEN <<>>
                 ELSE HistTokens(SubSeq(h, 1, Len(h) - 1)) \o (IF EncSpecErr(h[Len(h)]) THEN <<>> ELSE CallTokens(h[Len(h)]))

\* an independent decoder maps the output back to exactly the encoded values
RoundTrip == Tokens(out) = HistTokens(hist)
ShortestHeads == AllHeadsShortest(out)
TextIsUtf8 == \A i \in 1..Len(Tokens(out)) : Tokens(out)[i].t = "text" => Utf8Valid(Tokens(out)[i].d)
LastCall == hist[Len(hist)]
MapCanonical == (hist # <<>> /\ LastCall.op = "map" /\ ~EncSpecErr(LastCall)) => CanonicalItem(EncSpecOut(LastCall))
PermIndependent ==
  (hist # <<>> /\ LastCall.op = "map") =>
     \A f \in Permutations(1..Len(LastCall.es)) :
        LET es2 == [i \in 1..Len(LastCall.es) |-> LastCall.es[f[i]]]
        IN EncMap(es2) = EncMap(LastCall.es) /\ HasDupKey(es2) = HasDupKey(LastCall.es)
DupRefused == (hist # <<>> /\ LastCall.op = "map" /\ HasDupKey(LastCall.es)) => errd
=============================================================================
