----------------------------- MODULE Trace_Totality -----------------------------
(* C10: every parser of external data has exactly two terminal outcomes, a value  *)
(* or an error; the vocabulary below has no "panic" and no "timeout", so such an   *)
(* observation is not a behaviour.  Each terminal event carries the bytes          *)
(* allocated during the call (GC off) and the action's postcondition is            *)
(*      alloc <= C(parser) + K * Len(input)                                        *)
(* ("crash" = the process died with an unrecoverable runtime error during the call, e.g. out of memory.)          *)
(* with the constants stated next to the mechanism that justifies them:            *)
(*  - signed-exchange prologue: two 3-byte length fields and one 2-byte field cap   *)
(*    the buffers at 2^24 + 2^24 + 2^16 bytes                                      *)
(*  - MI decoder: one record buffer of at most maxRecordSize + 32 bytes            *)
(*  - everything else: byte / text strings are copied incrementally, element loops *)
(*    stop at the first error, so nothing is proportional to a DECLARED number     *)
(* K = 256 bytes per input byte covers boxed items, maps and error values (the     *)
(* largest measured ratio is about 55, for structured-header items).               *)
EXTENDS Integers, Sequences, TLC, Json, IOUtils
Trace == ndJsonDeserialize(IOEnv.VERIF_TRACE)
VARIABLE l
K == 256
MiB == 1048576
C(parser) == IF parser = "sxg.ReadExchange+Verify" THEN 16777216 + 16777216 + 65536 + MiB
             ELSE IF parser \in {"mice.Decode03", "mice.Decode02"} THEN 16384 + 32 + MiB
             ELSE MiB
Failures(ev) ==
  (IF ev.outcome \in {"value", "error"} THEN {} ELSE {ev.outcome})
  \cup (IF ev.alloc \div K <= C(ev.parser) \div K + ev.n THEN {} ELSE {"allocation not bounded by C + K * input size"})
TraceInit == l = 1
TraceNext ==
  /\ l <= Len(Trace)
  /\ l' = l + 1
  /\ LET f == Failures(Trace[l]) IN IF f = {} THEN TRUE ELSE PrintT("REJECT " \o ToJson([case |-> Trace[l].case, why |-> f]))
  /\ IF l = Len(Trace) THEN PrintT("DONE " \o ToString(l)) ELSE TRUE
TraceSpec == TraceInit /\ [][TraceNext]_l
=============================================================================
