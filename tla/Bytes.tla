------------------------------- MODULE Bytes -------------------------------
(***************************************************************************)
(* Byte strings are Seq(0..255).  TLC integers are 32-bit, so every 64-bit *)
(* quantity of the formats (CBOR arguments, offsets, lengths, dates) is an *)
(* 8-byte big-endian tuple ("U64"); arithmetic on them reports carry-out.  *)
(***************************************************************************)
EXTENDS Integers, Sequences, FiniteSets

Byte == 0..255

Zeros(n) == [i \in 1..n |-> 0]
Rep(n, v) == [i \in 1..n |-> v]

Min2(a, b) == IF a < b THEN a ELSE b
Max2(a, b) == IF a > b THEN a ELSE b

\* Sub(b, p, n): n bytes of b starting at 1-based position p (caller checks bounds)
Sub(b, p, n) == SubSeq(b, p, p + n - 1)

IsPrefixB(a, b) == Len(a) <= Len(b) /\ SubSeq(b, 1, Len(a)) = a

\* bytewise lexicographic order
BytesLess(a, b) ==
  LET m == Min2(Len(a), Len(b))
      d == {i \in 1..m : a[i] # b[i]}
  IN IF d = {} THEN Len(a) < Len(b)
     ELSE LET i == CHOOSE x \in d : \A y \in d : x <= y IN a[i] < b[i]

RECURSIVE Concat(_)
Concat(ss) == IF ss = <<>> THEN <<>> ELSE Head(ss) \o Concat(Tail(ss))

-----------------------------------------------------------------------------
\* U64: 8-byte big-endian tuples

U64Zero == Zeros(8)
Pad8(s) == Zeros(8 - Len(s)) \o s

\* n must be in 0 .. 2^31-1
U64(n) == << 0, 0, 0, 0, n \div 16777216, (n \div 65536) % 256, (n \div 256) % 256, n % 256 >>

\* big-endian encoding of a small natural on w bytes (w <= 8); caller guarantees it fits
BE(n, w) == SubSeq(U64(n), 9 - w, 8)

IsSmall(a) == a[1] = 0 /\ a[2] = 0 /\ a[3] = 0 /\ a[4] = 0 /\ a[5] < 128
SmallVal(a) == ((a[5] * 256 + a[6]) * 256 + a[7]) * 256 + a[8]

\* value of a short big-endian field (<= 3 bytes, always fits in a TLC int)
BEVal(s) == IF Len(s) = 0 THEN 0
            ELSE IF Len(s) = 1 THEN s[1]
            ELSE IF Len(s) = 2 THEN s[1] * 256 + s[2]
            ELSE (s[1] * 256 + s[2]) * 256 + s[3]

LeadingZeros(a) ==
  LET nz == {i \in 1..Len(a) : a[i] # 0}
  IN IF nz = {} THEN Len(a) ELSE (CHOOSE x \in nz : \A y \in nz : x <= y) - 1

U64Less(a, b) == BytesLess(a, b)      \* equal length: numeric order
U64Leq(a, b) == a = b \/ BytesLess(a, b)

\* addition with carry-out: [v |-> 8 bytes, carry |-> 0/1]
RECURSIVE AddFrom(_, _, _, _)
AddFrom(a, b, i, c) ==
  IF i = 0 THEN [v |-> <<>>, carry |-> c]
  ELSE LET s == a[i] + b[i] + c
           r == AddFrom(a, b, i - 1, s \div 256)
       IN [v |-> Append(r.v, s % 256), carry |-> r.carry]
U64Add(a, b) == AddFrom(a, b, 8, 0)

\* a - b for a >= b
RECURSIVE SubFrom(_, _, _, _)
SubFrom(a, b, i, br) ==
  IF i = 0 THEN <<>>
  ELSE LET d == a[i] - b[i] - br
       IN Append(SubFrom(a, b, i - 1, IF d < 0 THEN 1 ELSE 0), IF d < 0 THEN d + 256 ELSE d)
U64Sub(a, b) == SubFrom(a, b, 8, 0)

-----------------------------------------------------------------------------
\* ASCII helpers
IsUpper(c) == c >= 65 /\ c <= 90
IsLower(c) == c >= 97 /\ c <= 122
IsAlpha(c) == IsUpper(c) \/ IsLower(c)
IsDigit(c) == c >= 48 /\ c <= 57
LowerC(c) == IF IsUpper(c) THEN c + 32 ELSE c
LowerB(s) == [i \in 1..Len(s) |-> LowerC(s[i])]

\* decimal digits of a small natural
RECURSIVE DecDigits(_)
DecDigits(n) == IF n < 10 THEN <<48 + n>> ELSE Append(DecDigits(n \div 10), 48 + (n % 10))

-----------------------------------------------------------------------------
\* UTF-8 validity (RFC 3629: no overlongs, no surrogates, <= U+10FFFF), stated without
\* recursion so that 64 KiB strings are cheap: every byte is either a lead byte whose
\* continuation bytes follow it, or a continuation byte owned by the nearest preceding lead.
Utf8Need(c) == IF c < 128 THEN 1 ELSE IF c >= 194 /\ c <= 223 THEN 2 ELSE IF c >= 224 /\ c <= 239 THEN 3
               ELSE IF c >= 240 /\ c <= 244 THEN 4 ELSE 0
IsCont(c) == c >= 128 /\ c <= 191
\* admissible range of the byte following lead byte c
Utf8Second(c, d) == CASE c = 224 -> d >= 160 /\ d <= 191
                      [] c = 237 -> d >= 128 /\ d <= 159
                      [] c = 240 -> d >= 144 /\ d <= 191
                      [] c = 244 -> d >= 128 /\ d <= 143
                      [] OTHER -> IsCont(d)
Utf8Valid(s) ==
  \/ \A i \in 1..Len(s) : s[i] < 128
  \/ \A j \in 1..Len(s) :
       LET c == s[j] IN
       IF IsCont(c)
       THEN \E k \in 1..3 : /\ j - k >= 1 /\ Utf8Need(s[j - k]) > k
                            /\ \A m \in (j - k + 1)..(j - 1) : IsCont(s[m])
       ELSE LET n == Utf8Need(c) IN
            /\ n > 0
            /\ j + n - 1 <= Len(s)
            /\ \A m \in (j + 1)..(j + n - 1) : IsCont(s[m])
            /\ n > 1 => Utf8Second(c, s[j + 1])

=============================================================================
