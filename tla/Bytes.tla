------------------------------- MODULE Bytes -------------------------------
(***************************************************************************)
(* Byte strings are Seq(0..255).  TLC integers are 32-bit, so every 64-bit *)
(* quantity of the formats (CBOR arguments, offsets, lengths, dates) is an *)
(* 8-byte big-endian tuple ("U64"); arithmetic on them reports carry-out.  *)
(***************************************************************************)
EXTENDS Integers, Sequences, FiniteSets
\* SequencesExt is instantiated under a name so that its many operator names (Prefixes, Last, InsertAt, ...) do not leak
SeqX == INSTANCE SequencesExt

Byte == 0..255
Min2Raw(a, b) == IF a < b THEN a ELSE b

\* Linear-time scans.  TLC evaluates a RECURSIVE operator of depth d in O(d^2) and CHOOSE-minimum
\* over a set in O(n^2); SequencesExt!SelectInSubSeq / SelectLastInSubSeq have Java implementations
\* that scan once and return the ABSOLUTE index (0 if none) - checked here so that a different
\* implementation cannot silently change the meaning.
ASSUME SeqX!SelectInSubSeq(<<1, 2, 7, 7>>, 2, 4, LAMBDA c : c = 7) = 3
ASSUME SeqX!SelectLastInSubSeq(<<7, 2, 7, 1>>, 1, 3, LAMBDA c : c = 7) = 3
\* first / last index in from..to (clipped to the sequence) whose element satisfies Test; 0 if none
FirstIn(s, from, to, Test(_)) == IF from > to \/ from > Len(s) THEN 0 ELSE SeqX!SelectInSubSeq(s, from, Min2Raw(to, Len(s)), Test)
LastIn(s, from, to, Test(_)) == IF from > to \/ from > Len(s) THEN 0 ELSE SeqX!SelectLastInSubSeq(s, from, Min2Raw(to, Len(s)), Test)

Zeros(n) == [i \in 1..n |-> 0]
Rep(n, v) == [i \in 1..n |-> v]

Min2(a, b) == IF a < b THEN a ELSE b
Max2(a, b) == IF a > b THEN a ELSE b

\* Sub(b, p, n): n bytes of b starting at 1-based position p (caller checks bounds)
Sub(b, p, n) == SubSeq(b, p, p + n - 1)

IsPrefixB(a, b) == Len(a) <= Len(b) /\ SubSeq(b, 1, Len(a)) = a

\* bytewise lexicographic order
BytesLess(a, b) ==
  LET m == Min2(Len(a), Len(b))
      k == IF m = 0 THEN 0 ELSE FirstIn([i \in 1..m |-> IF a[i] = b[i] THEN 0 ELSE 1], 1, m, LAMBDA z : z = 1)
  IN IF k = 0 THEN Len(a) < Len(b) ELSE a[k] < b[k]

RECURSIVE Concat(_)
Concat(ss) == IF ss = <<>> THEN <<>> ELSE Head(ss) \o Concat(Tail(ss))

-----------------------------------------------------------------------------
\* U64: 8-byte big-endian tuples

U64Zero == Zeros(8)
Pad8(s) == Zeros(8 - Len(s)) \o s

\* n must be in 0 .. 2^31-1
U64(n) == << 0, 0, 0, 0, n \div 16777216, (n \div 65536) % 256, (n \div 256) % 256, n % 256 >>

\* big-endian encoding of a small natural on w bytes (w <= 8); caller guarantees it fits
BE(n, w) == SubSeq(U64(n), 9 - w, 8)

IsSmall(a) == a[1] = 0 /\ a[2] = 0 /\ a[3] = 0 /\ a[4] = 0 /\ a[5] < 128
SmallVal(a) == ((a[5] * 256 + a[6]) * 256 + a[7]) * 256 + a[8]

\* value of a short big-endian field (<= 3 bytes, always fits in a TLC int)
BEVal(s) == IF Len(s) = 0 THEN 0
            ELSE IF Len(s) = 1 THEN s[1]
            ELSE IF Len(s) = 2 THEN s[1] * 256 + s[2]
            ELSE (s[1] * 256 + s[2]) * 256 + s[3]

LeadingZeros(a) ==
  LET nz == {i \in 1..Len(a) : a[i] # 0}
  IN IF nz = {} THEN Len(a) ELSE (CHOOSE x \in nz : \A y \in nz : x <= y) - 1

U64Less(a, b) == BytesLess(a, b)      \* equal length: numeric order
U64Leq(a, b) == a = b \/ BytesLess(a, b)

\* addition with carry-out: [v |-> 8 bytes, carry |-> 0/1]
RECURSIVE AddFrom(_, _, _, _)
AddFrom(a, b, i, c) ==
  IF i = 0 THEN [v |-> <<>>, carry |-> c]
  ELSE LET s == a[i] + b[i] + c
           r == AddFrom(a, b, i - 1, s \div 256)
       IN [v |-> Append(r.v, s % 256), carry |-> r.carry]
U64Add(a, b) == AddFrom(a, b, 8, 0)

\* a - b for a >= b
RECURSIVE SubFrom(_, _, _, _)
SubFrom(a, b, i, br) ==
  IF i = 0 THEN <<>>
  ELSE LET d == a[i] - b[i] - br
       IN Append(SubFrom(a, b, i - 1, IF d < 0 THEN 1 ELSE 0), IF d < 0 THEN d + 256 ELSE d)
U64Sub(a, b) == SubFrom(a, b, 8, 0)

-----------------------------------------------------------------------------
\* ASCII helpers
IsUpper(c) == c >= 65 /\ c <= 90
IsLower(c) == c >= 97 /\ c <= 122
IsAlpha(c) == IsUpper(c) \/ IsLower(c)
IsDigit(c) == c >= 48 /\ c <= 57
LowerC(c) == IF IsUpper(c) THEN c + 32 ELSE c
LowerB(s) == [i \in 1..Len(s) |-> LowerC(s[i])]

\* decimal digits of a small natural
RECURSIVE DecDigits(_)
DecDigits(n) == IF n < 10 THEN <<48 + n>> ELSE Append(DecDigits(n \div 10), 48 + (n % 10))

-----------------------------------------------------------------------------
\* UTF-8 validity (RFC 3629: no overlongs, no surrogates, <= U+10FFFF), stated without
\* recursion so that 64 KiB strings are cheap: every byte is either a lead byte whose
\* continuation bytes follow it, or a continuation byte owned by the nearest preceding lead.
Utf8Need(c) == IF c < 128 THEN 1 ELSE IF c >= 194 /\ c <= 223 THEN 2 ELSE IF c >= 224 /\ c <= 239 THEN 3
               ELSE IF c >= 240 /\ c <= 244 THEN 4 ELSE 0
IsCont(c) == c >= 128 /\ c <= 191
\* admissible range of the byte following lead byte c
Utf8Second(c, d) == CASE c = 224 -> d >= 160 /\ d <= 191
                      [] c = 237 -> d >= 128 /\ d <= 159
                      [] c = 240 -> d >= 144 /\ d <= 191
                      [] c = 244 -> d >= 128 /\ d <= 143
                      [] OTHER -> IsCont(d)
Utf8Valid(s) ==
  \/ \A i \in 1..Len(s) : s[i] < 128
  \/ \A j \in 1..Len(s) :
       LET c == s[j] IN
       IF IsCont(c)
       THEN \E k \in 1..3 : /\ j - k >= 1 /\ Utf8Need(s[j - k]) > k
                            /\ \A m \in (j - k + 1)..(j - 1) : IsCont(s[m])
       ELSE LET n == Utf8Need(c) IN
            /\ n > 0
            /\ j + n - 1 <= Len(s)
            /\ \A m \in (j + 1)..(j + n - 1) : IsCont(s[m])
            /\ n > 1 => Utf8Second(c, s[j + 1])

-----------------------------------------------------------------------------
\* base64 (RFC 4648): standard and URL-safe alphabets
B64Char(v, url) == IF v < 26 THEN 65 + v ELSE IF v < 52 THEN 97 + (v - 26) ELSE IF v < 62 THEN 48 + (v - 52)
                   ELSE IF v = 62 THEN (IF url THEN 45 ELSE 43) ELSE (IF url THEN 95 ELSE 47)
Pow2(k) == CASE k = 0 -> 1 [] k = 1 -> 2 [] k = 2 -> 4 [] k = 3 -> 8 [] k = 4 -> 16 [] k = 5 -> 32 [] k = 6 -> 64
             [] k = 7 -> 128 [] k = 8 -> 256 [] k = 9 -> 512 [] k = 10 -> 1024 [] k = 11 -> 2048
\* j-th 6-bit group (0-based) of b, missing low bits are zero
Sextet(b, j) == LET bit == j * 6
                    bi == bit \div 8 + 1
                    off == bit % 8
                    w == b[bi] * 256 + (IF bi + 1 <= Len(b) THEN b[bi + 1] ELSE 0)
                IN (w \div Pow2(10 - off)) % 64
B64Enc(b, url, pad) ==
  LET ns == (Len(b) * 8 + 5) \div 6
      body == [j \in 1..ns |-> B64Char(Sextet(b, j - 1), url)]
  IN IF pad THEN body \o Rep((4 - (ns % 4)) % 4, 61) ELSE body

B64Val(c, url) == IF IsUpper(c) THEN c - 65 ELSE IF IsLower(c) THEN c - 97 + 26 ELSE IF IsDigit(c) THEN c - 48 + 52
                  ELSE IF c = (IF url THEN 45 ELSE 43) THEN 62 ELSE IF c = (IF url THEN 95 ELSE 47) THEN 63 ELSE -1
\* Strict decoding: [ok, v, canon].  ok: only alphabet characters, a possible length, and (pad)
\* exactly the padding that completes the last quantum / (~pad) no padding at all.
\* canon: the unused low bits of the last character are zero.
B64Dec(s, url, pad) ==
  LET np == IF pad THEN Cardinality({i \in 1..Len(s) : s[i] = 61 /\ \A k \in i..Len(s) : s[k] = 61}) ELSE 0
      ns == Len(s) - np
      okc == \A i \in 1..ns : B64Val(s[i], url) >= 0
      oklen == (ns % 4) # 1 /\ (pad => ((Len(s) % 4) = 0 /\ np <= 2 /\ np = (4 - (ns % 4)) % 4))
      nb == (ns * 6) \div 8
      Bit(k) == \* k-th bit (0-based) of the sextet stream
         (B64Val(s[k \div 6 + 1], url) \div Pow2(5 - (k % 6))) % 2
      ByteAt(i) == LET k == (i - 1) * 8 IN
         Bit(k) * 128 + Bit(k + 1) * 64 + Bit(k + 2) * 32 + Bit(k + 3) * 16 + Bit(k + 4) * 8 + Bit(k + 5) * 4 + Bit(k + 6) * 2 + Bit(k + 7)
  IN IF ~(okc /\ oklen) THEN [ok |-> FALSE, v |-> <<>>, canon |-> FALSE]
     ELSE [ok |-> TRUE, v |-> [i \in 1..nb |-> ByteAt(i)],
           canon |-> \A k \in (nb * 8)..(ns * 6 - 1) : Bit(k) = 0]

-----------------------------------------------------------------------------
\* decimal text <-> U64 (TLC integers are 32-bit)
\* a * m + d on 8-byte tuples (m, d small); ovf = result does not fit in 64 bits
RECURSIVE MulAddFrom(_, _, _, _)
MulAddFrom(a, m, i, c) ==
  IF i = 0 THEN [v |-> <<>>, carry |-> c]
  ELSE LET t == a[i] * m + c
           r == MulAddFrom(a, m, i - 1, t \div 256)
       IN [v |-> Append(r.v, t % 256), carry |-> r.carry]
U64MulAdd(a, m, d) == MulAddFrom(a, m, 8, d)
RECURSIVE DecFrom(_, _, _)
DecFrom(ds, i, acc) ==
  IF i > Len(ds) THEN [ok |-> TRUE, v |-> acc]
  ELSE LET r == U64MulAdd(acc, 10, ds[i] - 48) IN
       IF r.carry # 0 THEN [ok |-> FALSE, v |-> U64Zero] ELSE DecFrom(ds, i + 1, r.v)
\* ds: non-empty sequence of ASCII digits
DecToU64(ds) == IF Len(ds) = 0 \/ \E i \in 1..Len(ds) : ~IsDigit(ds[i]) THEN [ok |-> FALSE, v |-> U64Zero] ELSE DecFrom(ds, 1, U64Zero)
\* division of an 8-byte tuple by a small m: [q, r]
RECURSIVE DivFrom(_, _, _, _)
DivFrom(a, m, i, rem) ==
  IF i > 8 THEN [q |-> <<>>, r |-> rem]
  ELSE LET t == rem * 256 + a[i]
           rest == DivFrom(a, m, i + 1, t % m)
       IN [q |-> <<t \div m>> \o rest.q, r |-> rest.r]
RECURSIVE U64ToDec(_)
U64ToDec(a) == LET d == DivFrom(a, 10, 1, 0) IN
               IF d.q = U64Zero THEN <<48 + d.r>> ELSE Append(U64ToDec(d.q), 48 + d.r)
-----------------------------------------------------------------------------
\* base32 (RFC 4648) in lower case without padding, for inputs whose length is a multiple of 5
B32Char(v) == IF v < 26 THEN 97 + v ELSE 50 + (v - 26)
Quintet(b, j) == LET bit == j * 5
                     bi == bit \div 8 + 1
                     off == bit % 8
                     w == b[bi] * 256 + (IF bi + 1 <= Len(b) THEN b[bi + 1] ELSE 0)
                 IN (w \div Pow2(11 - off)) % 32
B32Lower(b) == [j \in 1..((Len(b) * 8) \div 5) |-> B32Char(Quintet(b, j - 1))]

=============================================================================
