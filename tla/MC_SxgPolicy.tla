------------------------------ MODULE MC_SxgPolicy ------------------------------
(* C09 at design level: the acceptance policy over ABSTRACT scenarios.  A scenario  *)
(* is a baseline valid exchange plus deviations, one value per kind (verification   *)
(* instant, lifetime, method, a request / response header name, Cache-Control       *)
(* directive set and its spelling, Expires, status, validity-URL variant, Content-   *)
(* Type, integrity id).  TLC enumerates the baseline, every single deviation and     *)
(* every pair of deviations per version, evaluates the policy stated over the        *)
(* attributes (Ok) and checks structural facts about it (each condition is           *)
(* independently necessary; harmless deviations never flip the verdict).  Every      *)
(* scenario is exported with its verdict, built as a real signed exchange by the     *)
(* harness, verified by the real code, and judged a second time by Trace_Sxg from    *)
(* the bytes: three verdicts that must agree.                                        *)
EXTENDS Integers, Sequences, FiniteSets, TLC, Json
VARIABLE sc
Vers == {"1b1", "1b2", "1b3"}
Base(v) == [ver |-> v, win |-> "fixed", decoy |-> <<"none", "none">>, t |-> "mid", life |-> 3600, method |-> "GET", reqhdr |-> "none", resphdr |-> "none", cc |-> {}, ccform |-> "one",
            expireshdr |-> "none", status |-> 200, vurl |-> "same", ct |-> TRUE, integ |-> "right"]
\* win: where the signed window lies ("present" = around the verifying process's own clock, which is NOT an input);
\* t: the instant handed to the verifier, relative to the window or a fixed sentinel (zero = the zero time.Time)
\* decoy: a second member of the Signature list, before or after the genuine one, that fails exactly one per-signature condition
DecoyKinds == {"overlong", "expired", "future", "otherorigin", "integrity", "nodate", "badsig", "certsha", "unparsable-params"}
Options == [ win |-> {"present"},
             decoy |-> { <<k, pos>> : k \in DecoyKinds, pos \in {"first", "last"} },
             t |-> {"date-1s", "date-1ns", "date", "date+1s", "expires-1s", "expires", "expires+1ns", "expires+1s", "zero", "epoch", "farfuture"},
             life |-> {1, 604799, 604800, 604801},
             method |-> {"HEAD", "POST", "get", "PUT"},
             reqhdr |-> {"cookie", "Cookie", "COOKIE", "authorization", "Proxy-Authorization", "sec-websocket-key", "x-harmless", "cookies"},
             resphdr |-> {"set-cookie", "Set-Cookie", "SET-COOKIE", "keep-alive", "Strict-Transport-Security", "www-authenticate", "x-harmless", "set-cookies"},
             cc |-> (SUBSET {"no-store", "private", "public", "max-age", "s-maxage", "no-cache"}) \ {{}},
             ccform |-> {"multi", "upper"},
             expireshdr |-> {"date", "zero", "neg", "iso", "junk", "empty"},     \* the VALUE of an Expires header: an HTTP-date, "0", "-1", an ISO-8601 instant, a word, the empty string

             status |-> {199, 203, 302, 307, 404, 418, 500, 599},
             vurl |-> {"otherhost", "http", "otherport", "p443", "upperhost", "otherpath", "subdomain", "relpath", "empty", "schemerel"},
             ct |-> {FALSE},
             integ |-> {"other", "junk"} ]
Kinds == DOMAIN Options
Set1(s, k, v) == [s EXCEPT ![k] = v]
\* Scenarios = per version the baseline, every single deviation and every pair of deviations of different kinds.
\* (Not defined as a set: TLC evaluates constant definitions eagerly and spent 150 s normalising it; Next enumerates it.)

Stateful == {"authorization", "cookie", "cookie2", "proxy-authorization", "sec-websocket-key"}
Uncached == {"connection", "keep-alive", "proxy-connection", "trailer", "transfer-encoding", "upgrade", "authentication-control", "authentication-info",
             "clear-site-data", "optional-www-authenticate", "proxy-authenticate", "proxy-authentication-info", "public-key-pins", "sec-websocket-accept",
             "set-cookie", "set-cookie2", "setprofile", "strict-transport-security", "www-authenticate"}
Lower(s) == CASE s = "Cookie" -> "cookie" [] s = "COOKIE" -> "cookie" [] s = "Proxy-Authorization" -> "proxy-authorization"
              [] s = "Set-Cookie" -> "set-cookie" [] s = "SET-COOKIE" -> "set-cookie" [] s = "Strict-Transport-Security" -> "strict-transport-security" [] OTHER -> s
Understood == (100..103) \cup (200..208) \cup {226} \cup (300..305) \cup (307..308) \cup (400..418) \cup (421..426) \cup {428, 429, 431, 451} \cup (500..508) \cup {510, 511}
DefaultCacheable == {200, 203, 204, 206, 300, 301, 404, 405, 410, 414, 501}

HasRequest(s) == s.ver \in {"1b1", "1b2"}
Window(s) == s.t \in {"mid", "date", "date+1s", "expires-1s", "expires"}
Lifetime(s) == s.life <= 604800
SameOrigin(s) == s.vurl \in {"same", "p443", "upperhost", "otherpath"}
Method(s) == HasRequest(s) => s.method \in {"GET", "HEAD"}
NoStateful(s) == HasRequest(s) => Lower(s.reqhdr) \notin Stateful
NoUncached(s) == Lower(s.resphdr) \notin Uncached
Storable(s) == /\ s.status \in Understood
               /\ "no-store" \notin s.cc /\ "private" \notin s.cc
               /\ \/ s.expireshdr \notin {"none", "empty"} \/ "max-age" \in s.cc \/ "s-maxage" \in s.cc \/ s.status \in DefaultCacheable \/ "public" \in s.cc
B3(s) == s.ver = "1b3" => (s.ct /\ Storable(s))
Ok(s) == Window(s) /\ Lifetime(s) /\ SameOrigin(s) /\ Method(s) /\ NoStateful(s) /\ NoUncached(s) /\ s.integ = "right" /\ B3(s)

RECURSIVE SetToSeq(_)
SetToSeq(T) == IF T = {} THEN <<>> ELSE LET x == CHOOSE y \in T : TRUE IN <<x>> \o SetToSeq(T \ {x})
Init == sc = Base("1b3")
KindSeq == <<"win", "decoy", "t", "life", "method", "reqhdr", "resphdr", "cc", "ccform", "expireshdr", "status", "vurl", "ct", "integ">>
ASSUME {KindSeq[i] : i \in 1..Len(KindSeq)} = Kinds
Next == /\ sc = Base("1b3")
        /\ \E v \in Vers :
             \/ sc' = Base(v)
             \/ \E i \in 1..Len(KindSeq) : \E x \in Options[KindSeq[i]] : sc' = Set1(Base(v), KindSeq[i], x)
             \/ \E i \in 1..Len(KindSeq) : \E j \in (i + 1)..Len(KindSeq) : \E x1 \in Options[KindSeq[i]] : \E x2 \in Options[KindSeq[j]] :
                  sc' = Set1(Set1(Base(v), KindSeq[i], x1), KindSeq[j], x2)
        /\ PrintT("VEC " \o ToJson([s |-> [sc' EXCEPT !.cc = SetToSeq(sc'.cc)], ok |-> Ok(sc')]))
Spec == Init /\ [][Next]_sc

\* the baseline is accepted; every condition is independently necessary (some single deviation violates it alone)
BaselineOk == \A v \in Vers : Ok(Base(v))
EachConditionNecessary ==
  /\ ~Ok(Set1(Set1(Base("1b3"), "win", "present"), "t", "zero")) /\ ~Ok(Set1(Base("1b3"), "t", "epoch")) /\ Ok(Set1(Base("1b3"), "win", "present"))
  /\ ~Ok(Set1(Base("1b3"), "t", "date-1ns")) /\ ~Ok(Set1(Base("1b3"), "t", "expires+1ns")) /\ Ok(Set1(Base("1b3"), "t", "expires"))
  /\ ~Ok(Set1(Base("1b2"), "life", 604801)) /\ Ok(Set1(Base("1b2"), "life", 604800))
  /\ ~Ok(Set1(Base("1b1"), "method", "POST")) /\ Ok(Set1(Base("1b3"), "method", "POST")) /\ ~Ok(Set1(Base("1b2"), "method", "get"))
  /\ ~Ok(Set1(Base("1b1"), "reqhdr", "COOKIE")) /\ Ok(Set1(Base("1b1"), "reqhdr", "cookies"))
  /\ ~Ok(Set1(Base("1b3"), "resphdr", "SET-COOKIE")) /\ Ok(Set1(Base("1b3"), "resphdr", "set-cookies"))
  /\ ~Ok(Set1(Base("1b3"), "vurl", "otherport")) /\ Ok(Set1(Base("1b3"), "vurl", "p443")) /\ Ok(Set1(Base("1b3"), "vurl", "upperhost"))
  /\ ~Ok(Set1(Base("1b3"), "ct", FALSE)) /\ Ok(Set1(Base("1b2"), "ct", FALSE))
  /\ ~Ok(Set1(Base("1b3"), "integ", "other"))
  /\ ~Ok(Set1(Base("1b3"), "cc", {"no-store"})) /\ Ok(Set1(Base("1b2"), "cc", {"no-store"}))
  /\ ~Ok(Set1(Base("1b3"), "status", 302)) /\ Ok(Set1(Set1(Base("1b3"), "status", 302), "cc", {"public"}))
  /\ ~Ok(Set1(Set1(Base("1b3"), "expireshdr", "date"), "cc", {"private"}))        \* Expires never overrides no-store / private
  \* RFC 7234 section 3 asks for the PRESENCE of an Expires field (an invalid date means "already expired", section 5.3, not "absent")
  /\ Ok(Set1(Set1(Base("1b3"), "status", 302), "expireshdr", "zero")) /\ Ok(Set1(Set1(Base("1b3"), "status", 302), "expireshdr", "date"))
  /\ ~Ok(Set1(Set1(Base("1b3"), "status", 302), "expireshdr", "empty"))
  /\ ~Ok(Set1(Base("1b3"), "status", 599))
\* the spelling of the Cache-Control value never matters
SpellingIrrelevant == \A v \in Vers : \A c \in Options.cc : \A f \in Options.ccform : Ok(Set1(Set1(Base(v), "cc", c), "ccform", f)) = Ok(Set1(Base(v), "cc", c))
\* a list member that fails never decides: the verdict is the one of the list without it
DecoyIrrelevant == \A v \in Vers : \A d \in Options.decoy : Ok(Set1(Base(v), "decoy", d)) = Ok(Base(v))
\* evaluated once, in the initial state (it quantifies over the option sets itself)
Design == (sc = Base("1b3")) => (BaselineOk /\ EachConditionNecessary /\ SpellingIrrelevant /\ DecoyIrrelevant)
=============================================================================
