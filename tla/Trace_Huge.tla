------------------------------ MODULE Trace_Huge ------------------------------
(* Instances too large to hand to TLC byte by byte (tens of MiB: thresholds such   *)
(* as "reserve at most 16 MiB", "write in 4 MiB chunks").  The harness reports,    *)
(* per run, named facts as pairs (want, got): lengths, counts, error flags and     *)
(* SHA-256 digests, where `want` is what the format specification prescribes for   *)
(* the instance the harness built (the content is generated, so its digest and the *)
(* length arithmetic of the enclosing heads are known without the library) and     *)
(* `got` is what the library returned.  The run is a behaviour of the              *)
(* specification iff every pair agrees.                                            *)
EXTENDS Integers, Sequences, TLC, Json, IOUtils
Trace == ndJsonDeserialize(IOEnv.VERIF_TRACE)
VARIABLE l
Failures(ev) == { ev.facts[i].name : i \in { j \in 1..Len(ev.facts) : ev.facts[j].want # ev.facts[j].got } }
TraceInit == l = 1
TraceNext ==
  /\ l <= Len(Trace)
  /\ l' = l + 1
  /\ LET f == Failures(Trace[l]) IN IF f = {} THEN TRUE ELSE PrintT("REJECT " \o ToJson([case |-> Trace[l].case, why |-> f]))
  /\ IF l = Len(Trace) THEN PrintT("DONE " \o ToString(l)) ELSE TRUE
TraceSpec == TraceInit /\ [][TraceNext]_l
=============================================================================
