------------------------- MODULE Trace_IntegrityBlock -------------------------
(* Trace validation for package integrityblock (C07) with JDK Ed25519/SHA-512.  *)
(* One line = one signing history on one file: ObtainIntegrityBlock, a sequence *)
(* of SignAndAddNewSignature calls with strategies whose signature does ("match")*)
(* or does not ("wrongkey", "garbage") verify under the key about to be recorded,*)
(* the final stack, the output file and the reported Web Bundle IDs.             *)
EXTENDS IntegrityBlock, TLC, Json, IOUtils
Trace == ndJsonDeserialize(IOEnv.VERIF_TRACE)
VARIABLE l

Good(ev) == SelectSeq(ev.steps, LAMBDA s : s.strat = "match")
Failures(ev) ==
  (IF (ObtainOutcome(ev.file) = "err") = ev.obtainerr THEN {} ELSE {"detection of an existing block / bad trailing length"})
  \cup (IF ev.obtainerr THEN (IF ev.steps = <<>> /\ ev.out = <<>> THEN {} ELSE {"signed although the file was refused"})
        ELSE
          (IF \A i \in 1..Len(ev.steps) : (ev.steps[i].strat = "match") = ~ev.steps[i].err THEN {}
           ELSE {"a signature that does not verify under the key to be recorded must be refused (and a verifying one accepted)"})
     \cup (IF \A i \in 1..Len(ev.steps) : ev.steps[i].stacklen = Cardinality({j \in 1..i : ev.steps[j].strat = "match"}) THEN {}
           ELSE {"stack grew on a refused signature / did not grow on an accepted one"})
     \cup (IF Len(ev.stack) = Len(Good(ev))
              /\ \A i \in 1..Len(ev.stack) : ev.stack[i].attrs = Good(ev)[Len(Good(ev)) + 1 - i].attrs       \* newest first
           THEN {} ELSE {"signature stack order / attributes"})
     \cup (IF \A i \in 1..Len(ev.stack) : EntryVerifies(ev.file, ev.stack, i) THEN {} ELSE {"a listed signature does not verify over the specified data-to-be-signed"})
     \cup (IF ev.out = BlockBytes(ev.stack) \o ev.file THEN {} ELSE {"output is not block || untouched original file"})
     \cup (IF CanonicalItem(BlockBytes(ev.stack)) /\ CoreDeterministic(BlockBytes(ev.stack)) THEN {} ELSE {"block is not deterministic CBOR"}))
  \cup (IF \A i \in 1..Len(ev.ids) : ev.ids[i].id = WebBundleId(ev.ids[i].pk) THEN {} ELSE {"Web Bundle ID"})

TraceInit == l = 1
TraceNext ==
  /\ l <= Len(Trace)
  /\ l' = l + 1
  /\ LET f == Failures(Trace[l]) IN IF f = {} THEN TRUE ELSE PrintT("REJECT " \o ToJson([case |-> Trace[l].case, why |-> f]))
  /\ IF l = Len(Trace) THEN PrintT("DONE " \o ToString(l)) ELSE TRUE
TraceSpec == TraceInit /\ [][TraceNext]_l
=============================================================================
