--------------------------------- MODULE Sxg ---------------------------------
(***************************************************************************)
(* application/signed-exchange versions b1 / b2 / b3, written from         *)
(* draft-yasskin-http-origin-signed-responses (vendored in the repository) *)
(* and draft-yasskin-httpbis-origin-signed-exchanges-impl:                 *)
(*   - CBOR representation of exchange headers (3.4 / impl 3.2)            *)
(*   - the signed message (3.5 step 7 / impl 3.5)                          *)
(*   - the Signature header (3.1), a structured-header parameterised list  *)
(*   - the file layout (5.3 / impl 5.3) and its limits                     *)
(*   - signature validity (3.5) and cross-origin trust (4) as the          *)
(*     predicate Accept(x, t, leaf)                                        *)
(* An exchange x is a record                                               *)
(*   [ver, uri, method, reqh, status, resph, payload, sighdr]              *)
(* with header maps as sequences of [n |-> name bytes, vs |-> Seq(value)]  *)
(* (the entries of a Go http.Header map) and status a small natural.       *)
(* 64-bit quantities (dates) are U64 tuples.                               *)
(***************************************************************************)
EXTENDS Bytes, Cbor, StructuredHeader, Mice, Url, SxgConsts

IsB1(x) == x.ver = "1b1"
HasRequestMap(x) == x.ver \in {"1b1", "1b2"}
Draft(x) == IF IsB1(x) THEN "02" ELSE "03"
IntegrityId(x) == IF IsB1(x) THEN I_b1 ELSE I_b23
DigestHeaderName(x) == IF IsB1(x) THEN H_MIDraft2 ELSE H_Digest
ContentEncodingName(x) == IF IsB1(x) THEN CE_02 ELSE CE_03
Magic(x) == CASE x.ver = "1b1" -> Magic1 [] x.ver = "1b2" -> Magic2 [] OTHER -> Magic3
Ctx(x) == CASE x.ver = "1b1" -> Ctx1 [] x.ver = "1b2" -> Ctx2 [] OTHER -> Ctx3

-----------------------------------------------------------------------------
\* Header maps.  HGet(h, name): first value stored under exactly `name` (Go's Header.Get with a
\* canonical name); HJoined: all values under that key joined by ","
HEntry(h, name) == {i \in 1..Len(h) : h[i].n = name}
HGet(h, name) == IF HEntry(h, name) = {} THEN <<>>
                 ELSE LET i == CHOOSE j \in HEntry(h, name) : TRUE IN IF h[i].vs = <<>> THEN <<>> ELSE h[i].vs[1]
HJoined(h, name) == IF HEntry(h, name) = {} THEN <<>>
                    ELSE LET i == CHOOSE j \in HEntry(h, name) : TRUE IN JoinWith(h[i].vs, <<44>>)

\* CBOR map entries of a header map: lower-cased name -> values joined by ","
CanonH(h) == [i \in 1..Len(h) |-> [k |-> EncBytes(LowerB(h[i].n)), v |-> EncBytes(JoinWith(h[i].vs, <<44>>))]]
RespEntries(x) == << [k |-> EncBytes(S_status), v |-> EncBytes(DecDigits(x.status))] >> \o CanonH(x.resph)
ReqEntries(x) == << [k |-> EncBytes(S_method), v |-> EncBytes(x.method)] >>
                 \o (IF IsB1(x) THEN << [k |-> EncBytes(S_url), v |-> EncBytes(x.uri)] >> ELSE <<>>)
                 \o CanonH(x.reqh)
\* two names that collide after case folding cannot be represented
HeadersEncodable(x) == ~HasDupKey(RespEntries(x)) /\ (HasRequestMap(x) => ~HasDupKey(ReqEntries(x)))
HeadersCbor(x) == IF HasRequestMap(x) THEN EncArrayHdr(2) \o EncMap(ReqEntries(x)) \o EncMap(RespEntries(x))
                  ELSE EncMap(RespEntries(x))

HeaderIntegrity(x) == S_sha256 \o B64Enc(SHA256(HeadersCbor(x)), FALSE, TRUE)

-----------------------------------------------------------------------------
\* The signed message.  sp = [certsha, vurl, date, expires] (date, expires: U64)
MsgH(x, sp, hc) ==
  IF IsB1(x)
  THEN Rep(64, 32) \o Ctx(x) \o <<0>> \o
       EncMap(<< [k |-> EncText(K_certsha), v |-> EncBytes(sp.certsha)],
                 [k |-> EncText(K_vurl), v |-> EncBytes(sp.vurl)],
                 [k |-> EncText(K_date), v |-> EncUint(sp.date)],
                 [k |-> EncText(K_expires), v |-> EncUint(sp.expires)],
                 [k |-> EncText(K_headers), v |-> hc] >>)
  ELSE Rep(64, 32) \o Ctx(x) \o <<0>> \o <<32>> \o sp.certsha
       \o U64(Len(sp.vurl)) \o sp.vurl \o sp.date \o sp.expires
       \o U64(Len(x.uri)) \o x.uri
       \o U64(Len(hc)) \o hc
Msg(x, sp) == MsgH(x, sp, HeadersCbor(x))

\* The Signature header value: one parameterised identifier, parameters in sorted key order,
\* serialised by the draft's algorithm (StructuredHeader!SerPI)
SigParams(x, sp, certurl, sig) ==
  << [k |-> K_certsha, v |-> Item("bin", sp.certsha)], [k |-> K_certurl, v |-> Item("str", certurl)],
     [k |-> K_date, v |-> Item("int", U64ToDec(sp.date))], [k |-> K_expires, v |-> Item("int", U64ToDec(sp.expires))],
     [k |-> K_integrity, v |-> Item("str", IntegrityId(x))], [k |-> K_sig, v |-> Item("bin", sig)],
     [k |-> K_vurl, v |-> Item("str", sp.vurl)] >>
SigHeaderText(x, sp, certurl, sig) == SerPI([label |-> S_label, params |-> SigParams(x, sp, certurl, sig)])

-----------------------------------------------------------------------------
\* File layout and limits
FitsLimitsH(x, hc) ==
  LET sl == Len(x.sighdr)  hl == Len(hc) IN
  IF IsB1(x) THEN sl < 16777216 /\ hl < 16777216
  ELSE Len(x.uri) < 65536 /\ sl <= 16384 /\ hl <= 524288
FitsLimits(x) == FitsLimitsH(x, HeadersCbor(x))
Writable(x) == HeadersEncodable(x) /\ FitsLimits(x)
FileH(x, hc) ==
  IF IsB1(x) THEN Magic(x) \o BE(Len(x.sighdr), 3) \o BE(Len(hc), 3) \o x.sighdr \o hc \o x.payload
  ELSE Magic(x) \o BE(Len(x.uri), 2) \o x.uri \o BE(Len(x.sighdr), 3) \o BE(Len(hc), 3) \o x.sighdr \o hc \o x.payload
File(x) == FileH(x, HeadersCbor(x))

\* What a reader must get back from File(x): names case-folded, repeated values comma-joined.
\* Compared as sets of <<lower name, joined value>> so that map order does not matter.
HSet(h) == { <<LowerB(h[i].n), JoinWith(h[i].vs, <<44>>)>> : i \in 1..Len(h) }
SameFields(x, y) ==
  /\ x.ver = y.ver /\ x.uri = y.uri /\ x.status = y.status /\ x.payload = y.payload /\ x.sighdr = y.sighdr
  /\ HSet(x.resph) = HSet(y.resph)
  /\ IF HasRequestMap(x) THEN x.method = y.method /\ HSet(x.reqh) = HSet(y.reqh)
     ELSE y.method = S_GET /\ y.reqh = <<>>         \* b3 carries no request: readers report GET and no request headers

-----------------------------------------------------------------------------
\* Lenient reading of a (possibly hostile) file: any well-formed definite-length CBOR is taken,
\* canonical form is not demanded, bytes left over inside the header block are ignored.
\* res \in {"ok", "err", "either"}; "either" marks the places where the outcome depends on Go's
\* url.Parse / Unicode case folding / integer parsing beyond what this module models.
BadRead(res) == [res |-> res, x |-> [ver |-> "", uri |-> <<>>, method |-> <<>>, reqh |-> <<>>, status |-> 0, resph |-> <<>>, payload |-> <<>>, sighdr |-> <<>>]]

\* read a CBOR map of byte-string keys and values at p: [ok, es (sequence of [k, v]), p]
RECURSIVE MapEntriesFrom(_, _, _, _)
MapEntriesFrom(b, p, n, acc) ==
  IF n = 0 THEN [ok |-> TRUE, es |-> acc, p |-> p]
  ELSE LET hk == HeadAt(b, p) IN
       IF ~(hk.ok /\ hk.mt = 2 /\ Fits(b, hk.next, hk.arg)) THEN [ok |-> FALSE, es |-> <<>>, p |-> 0]
       ELSE LET kend == hk.next + SmallVal(hk.arg)
                hv == HeadAt(b, kend)
            IN IF ~(hv.ok /\ hv.mt = 2 /\ Fits(b, hv.next, hv.arg)) THEN [ok |-> FALSE, es |-> <<>>, p |-> 0]
               ELSE MapEntriesFrom(b, hv.next + SmallVal(hv.arg), n - 1,
                                   Append(acc, [k |-> Sub(b, hk.next, SmallVal(hk.arg)), v |-> Sub(b, hv.next, SmallVal(hv.arg))]))
ReadBstrMap(b, p) ==
  LET h == HeadAt(b, p) IN
  IF ~(h.ok /\ h.mt = 5 /\ Fits(b, h.next, h.arg)) THEN [ok |-> FALSE, es |-> <<>>, p |-> 0]
  ELSE MapEntriesFrom(b, h.next, SmallVal(h.arg), <<>>)

HasUpperAscii(s) == \E i \in 1..Len(s) : IsUpper(s[i])
NonAscii(s) == \E i \in 1..Len(s) : s[i] >= 128
\* add a value under a key, as http.Header.Add does on a map keyed by the (canonicalised) name
HAdd(h, k, v) == IF \E i \in 1..Len(h) : h[i].n = k
                 THEN [i \in 1..Len(h) |-> IF h[i].n = k THEN [n |-> k, vs |-> Append(h[i].vs, v)] ELSE h[i]]
                 ELSE Append(h, [n |-> k, vs |-> <<v>>])
\* net/textproto.CanonicalMIMEHeaderKey: a name made only of token characters gets its first letter and every
\* letter after "-" upper-cased, the rest lower-cased; any other name is left as it is
IsTokenByte(c) == IsAlpha(c) \/ IsDigit(c) \/ c \in {33, 35, 36, 37, 38, 39, 42, 43, 45, 46, 94, 95, 96, 124, 126}
UpperC(c) == IF IsLower(c) THEN c - 32 ELSE c
CanonKey(k) == IF k = <<>> \/ \E i \in 1..Len(k) : ~IsTokenByte(k[i]) THEN k
               ELSE [i \in 1..Len(k) |-> IF i = 1 \/ k[i - 1] = 45 THEN UpperC(k[i]) ELSE LowerC(k[i])]
\* a small non-negative decimal without sign: the only status spellings this module decides
StatusVal(v) == IF Len(v) \in 1..9 /\ \A i \in 1..Len(v) : IsDigit(v[i]) THEN SmallVal(DecToU64(v).v) ELSE -1
\* classification of a fallback / :url value: "ok" = plainly an absolute https URL of the generated
\* grammar, "err" = plainly not https, "either" = left to net/url
UrlClass(u) ==
  IF \A i \in 1..Len(u) : (u[i] > 32 /\ u[i] < 127 /\ u[i] \notin {34, 37, 60, 62, 91, 92, 93, 94, 96, 123, 124, 125})
  THEN IF /\ Len(u) >= 8 /\ LowerB(SubSeq(u, 1, 8)) = S_https \o <<58, 47, 47>>
          /\ HostPort(u).host # <<>>
          /\ \A i \in 1..Len(HostPort(u).host) : IsAlpha(HostPort(u).host[i]) \/ IsDigit(HostPort(u).host[i]) \/ HostPort(u).host[i] \in {45, 46}
          /\ Len(HostPort(u).port) <= 5
          /\ \A i \in 1..Len(HostPort(u).port) : IsDigit(HostPort(u).port[i])
          /\ Authority(u)[Len(Authority(u))] # 58
       THEN "ok"
       ELSE IF SchemeEnd(u) > 1 /\ (\A i \in 1..(SchemeEnd(u) - 1) : IsAlpha(u[i])) /\ UrlScheme(u) # S_https THEN "err"
       ELSE "either"
  ELSE "either"

\* lenient = TRUE: a URL whose acceptance is left to net/url ("either") is taken as accepted, so that what an
\* accepting reader must then return (the very bytes of the file) is still specified
UrlClassL(u, lenient) == IF lenient /\ UrlClass(u) = "either" THEN "ok" ELSE UrlClass(u)
RECURSIVE FoldReq(_, _, _, _, _)
FoldReq(es, i, x, ver, lenient) ==     \* x accumulates method / uri / reqh ; returns [res, x]
  IF i > Len(es) THEN [res |-> "ok", x |-> x]
  ELSE LET k == es[i].k  v == es[i].v IN
       IF NonAscii(k) THEN [res |-> "either", x |-> x]
       ELSE IF HasUpperAscii(k) THEN [res |-> "err", x |-> x]
       ELSE IF k = S_method THEN FoldReq(es, i + 1, [x EXCEPT !.method = v], ver, lenient)
       ELSE IF k = S_url THEN
            (IF ver # "1b1" THEN [res |-> "err", x |-> x]
             ELSE IF UrlClassL(v, lenient) = "ok" THEN FoldReq(es, i + 1, [x EXCEPT !.uri = v], ver, lenient)
             ELSE [res |-> UrlClassL(v, lenient), x |-> x])
       ELSE FoldReq(es, i + 1, [x EXCEPT !.reqh = HAdd(x.reqh, CanonKey(k), v)], ver, lenient)
RECURSIVE FoldResp(_, _, _)
FoldResp(es, i, x) ==
  IF i > Len(es) THEN [res |-> "ok", x |-> x]
  ELSE LET k == es[i].k  v == es[i].v IN
       IF NonAscii(k) THEN [res |-> "either", x |-> x]
       ELSE IF HasUpperAscii(k) THEN [res |-> "err", x |-> x]
       ELSE IF k = S_status THEN (IF StatusVal(v) >= 0 THEN FoldResp(es, i + 1, [x EXCEPT !.status = StatusVal(v)]) ELSE [res |-> "either", x |-> x])
       ELSE FoldResp(es, i + 1, [x EXCEPT !.resph = HAdd(x.resph, CanonKey(k), v)])

ReadHeaders(hb, x0, lenient) ==      \* hb = the header block
  IF HasRequestMap(x0)
  THEN LET a == HeadAt(hb, 1) IN
       IF ~(a.ok /\ a.mt = 4 /\ a.arg = U64(2)) THEN BadRead("err")
       ELSE LET rq == ReadBstrMap(hb, a.next) IN
            IF ~rq.ok THEN BadRead("err")
            ELSE LET f1 == FoldReq(rq.es, 1, x0, x0.ver, lenient) IN
                 IF f1.res # "ok" THEN BadRead(f1.res)
                 ELSE LET rs == ReadBstrMap(hb, rq.p) IN
                      IF ~rs.ok THEN BadRead("err")
                      ELSE LET f2 == FoldResp(rs.es, 1, f1.x) IN IF f2.res # "ok" THEN BadRead(f2.res) ELSE [res |-> "ok", x |-> f2.x]
  ELSE LET rs == ReadBstrMap(hb, 1) IN
       IF ~rs.ok THEN BadRead("err")
       ELSE LET f2 == FoldResp(rs.es, 1, [x0 EXCEPT !.method = S_GET]) IN IF f2.res # "ok" THEN BadRead(f2.res) ELSE [res |-> "ok", x |-> f2.x]

VerOfMagic(m) == IF m = Magic1 THEN "1b1" ELSE IF m = Magic2 THEN "1b2" ELSE IF m = Magic3 THEN "1b3" ELSE ""
RefReadL(f, lenient) ==
  IF Len(f) < 8 \/ VerOfMagic(SubSeq(f, 1, 8)) = "" THEN BadRead("err")
  ELSE LET ver == VerOfMagic(SubSeq(f, 1, 8))
           x0 == [ver |-> ver, uri |-> <<>>, method |-> <<>>, reqh |-> <<>>, status |-> 0, resph |-> <<>>, payload |-> <<>>, sighdr |-> <<>>]
           \* position of the sigLength field and the fallback URL
           ulen == IF ver = "1b1" \/ Len(f) < 10 THEN 0 ELSE BEVal(SubSeq(f, 9, 10))
           p == IF ver = "1b1" THEN 9 ELSE 11 + ulen
       IN IF ver # "1b1" /\ Len(f) < 10 + ulen THEN BadRead("err")
          ELSE LET uri == IF ver = "1b1" THEN <<>> ELSE Sub(f, 11, ulen) IN
               IF ver # "1b1" /\ UrlClassL(uri, lenient) # "ok" THEN BadRead(UrlClassL(uri, lenient))
               ELSE IF Len(f) < p + 5 THEN BadRead("err")
               ELSE LET sl == BEVal(SubSeq(f, p, p + 2))
                        hl == BEVal(SubSeq(f, p + 3, p + 5))
                    IN IF Len(f) < p + 5 + sl + hl THEN BadRead("err")
                       ELSE LET r == ReadHeaders(Sub(f, p + 6 + sl, hl), [x0 EXCEPT !.uri = uri, !.sighdr = Sub(f, p + 6, sl)], lenient) IN
                            IF r.res # "ok" THEN r
                            ELSE [res |-> "ok", x |-> [r.x EXCEPT !.payload = SubSeq(f, p + 6 + sl + hl, Len(f))]]

RefRead(f) == RefReadL(f, FALSE)

-----------------------------------------------------------------------------
\* Signature validity and the acceptance policy.   t = [s |-> U64 seconds, ns |-> 0..999999999]
Week == U64(604800)
PFind(ps, key) == {i \in 1..Len(ps) : ps[i].k = key}
PHas(ps, key, ty) == PFind(ps, key) # {} /\ ps[CHOOSE i \in PFind(ps, key) : TRUE].v.t = ty
PVal(ps, key) == ps[CHOOSE i \in PFind(ps, key) : TRUE].v.v
\* a well-typed signature item with non-negative timestamps
ItemWellTyped(ps) ==
  /\ PHas(ps, K_sig, "bin") /\ PHas(ps, K_integrity, "str") /\ PHas(ps, K_certurl, "str") /\ PHas(ps, K_certsha, "bin")
  /\ PHas(ps, K_vurl, "str") /\ PHas(ps, K_date, "int") /\ PHas(ps, K_expires, "int")
  /\ PVal(ps, K_date)[1] # 45 /\ PVal(ps, K_expires)[1] # 45
SpOf(ps) == [certsha |-> PVal(ps, K_certsha), vurl |-> PVal(ps, K_vurl),
             date |-> DecToU64(PVal(ps, K_date)).v, expires |-> DecToU64(PVal(ps, K_expires)).v]

InWindow(sp, t) == /\ U64Leq(sp.date, t.s)
                   /\ U64Less(t.s, sp.expires) \/ (t.s = sp.expires /\ t.ns = 0)
LifetimeOk(sp) == U64Less(sp.expires, sp.date) \/ U64Leq(U64Sub(sp.expires, sp.date), Week)

\* Timestamps outside the domain of Accept (negative date / expires: sh-integers may carry a sign).  Acceptance of such an
\* item is not specified here, but two conditions are pure arithmetic on signed 64-bit integers and hold for whatever is
\* accepted: the lifetime cap and the window.  st = [neg, mag (U64, the absolute value)]
SignedTime(text) == IF text # <<>> /\ text[1] = 45 THEN [neg |-> TRUE, mag |-> DecToU64(SubSeq(text, 2, Len(text))).v]
                    ELSE [neg |-> FALSE, mag |-> DecToU64(text).v]
SLifetimeOk(d, e) ==
  IF ~d.neg /\ ~e.neg THEN U64Less(e.mag, d.mag) \/ U64Leq(U64Sub(e.mag, d.mag), Week)
  ELSE IF d.neg /\ ~e.neg THEN LET sum == U64Add(e.mag, d.mag) IN sum.carry = 0 /\ U64Leq(sum.v, Week)      \* expires - date = e + |d|
  ELSE IF d.neg /\ e.neg THEN U64Less(d.mag, e.mag) \/ U64Leq(U64Sub(d.mag, e.mag), Week)                    \* |d| - |e|
  ELSE TRUE                                                                                                  \* expires < 0 <= date: empty window
SInWindow(d, e, t) == /\ d.neg \/ U64Leq(d.mag, t.s)
                      /\ ~e.neg /\ (U64Less(t.s, e.mag) \/ (t.s = e.mag /\ t.ns = 0))
HasNegativeTime(x) ==
  LET pl == RefParsePL(x.sighdr) IN
  pl.ok /\ \E i \in 1..Len(pl.v) : LET ps == pl.v[i].params IN
     /\ PHas(ps, K_date, "int") /\ PHas(ps, K_expires, "int")
     /\ (PVal(ps, K_date)[1] = 45 \/ PVal(ps, K_expires)[1] = 45)
TimesSound(x, t) ==
  LET pl == RefParsePL(x.sighdr) IN
  pl.ok /\ \E i \in 1..Len(pl.v) : LET ps == pl.v[i].params IN
     /\ PHas(ps, K_date, "int") /\ PHas(ps, K_expires, "int")
     /\ LET d == SignedTime(PVal(ps, K_date))  e == SignedTime(PVal(ps, K_expires)) IN SLifetimeOk(d, e) /\ SInWindow(d, e, t)

\* payload integrity: the payload decodes completely under the digest header of the (signed) response headers
PayloadDecode(x) ==
  LET dg == HGet(x.resph, DigestHeaderName(x))
      pd == ParseDigest(Draft(x), dg)
  IN IF dg = <<>> \/ pd.res = "err" THEN [ok |-> FALSE, payload |-> <<>>]
     ELSE LET n == MiNew(Draft(x), pd.proof, x.payload, U64(16384)) IN
          IF ~n.ok THEN [ok |-> FALSE, payload |-> <<>>] ELSE MiDecodeAll(x.payload, n.s, <<>>)

\* RFC 7234 section 3 for a shared cache, on the response alone (b3 has no request)
SplitOn(s, c) == LET cuts == <<0>> \o SelectSeq([i \in 1..Len(s) |-> IF s[i] = c THEN i ELSE 0], LAMBDA z : z # 0) \o <<Len(s) + 1>>
                 IN [j \in 1..(Len(cuts) - 1) |-> SubSeq(s, cuts[j] + 1, cuts[j + 1] - 1)]
TrimWS(s) == LET a == FirstIn(s, 1, Len(s), LAMBDA c : c \notin {32, 9, 10, 11, 12, 13})
                 b == LastIn(s, 1, Len(s), LAMBDA c : c \notin {32, 9, 10, 11, 12, 13})
             IN IF a = 0 THEN <<>> ELSE SubSeq(s, a, b)
DirectiveName(d) == LET t == TrimWS(d)  e == IndexOf(t, 61) IN LowerB(IF e = 0 THEN t ELSE SubSeq(t, 1, e - 1))
Directives(x) == LET parts == SplitOn(HJoined(x.resph, H_CacheControl), 44) IN { DirectiveName(parts[i]) : i \in 1..Len(parts) }
UnderstoodStatus == (100..103) \cup (200..208) \cup {226} \cup (300..305) \cup (307..308) \cup (400..418) \cup (421..426)
                    \cup {428, 429, 431, 451} \cup (500..508) \cup {510, 511}       \* go1.23.5 http.StatusText is non-empty
CacheableByDefault == {200, 203, 204, 206, 300, 301, 404, 405, 410, 414, 501}
Storable(x) ==
  LET d == Directives(x) IN
  /\ x.status \in UnderstoodStatus
  /\ D_nostore \notin d /\ D_private \notin d
  /\ \/ HGet(x.resph, H_Expires) # <<>> \/ D_maxage \in d \/ D_smaxage \in d
     \/ x.status \in CacheableByDefault \/ D_public \in d

NoStatefulRequestHeader(x) == \A i \in 1..Len(x.reqh) : LowerB(x.reqh[i].n) \notin StatefulRequestHeaders
NoUncachedHeader(x) == \A i \in 1..Len(x.resph) : LowerB(x.resph[i].n) \notin UncachedHeaders

\* The individual conditions, named as in DESIGN.md D.10, for one well-typed signature item
CondSameOrigin(x, sp) == SameOrigin(sp.vurl, x.uri)
CondSignature(x, ps, sp, leaf) == sp.certsha = SHA256(leaf) /\ EcdsaVerifyCert(leaf, Msg(x, sp), PVal(ps, K_sig))
CondContentType(x) == x.ver = "1b3" => HGet(x.resph, H_ContentType) # <<>>
CondIntegrityId(x, ps) == PVal(ps, K_integrity) = IntegrityId(x)
CondMethod(x) == HasRequestMap(x) => x.method \in {S_GET, S_HEAD}
CondStorable(x) == x.ver = "1b3" => Storable(x)

ItemValid(x, ps, t, leaf) ==
  /\ ItemWellTyped(ps)
  /\ LET sp == SpOf(ps) IN
     /\ CondSameOrigin(x, sp)
     /\ LifetimeOk(sp) /\ InWindow(sp, t)
     /\ CondSignature(x, ps, sp, leaf)
     /\ CondContentType(x)
     /\ CondIntegrityId(x, ps)
     /\ PayloadDecode(x).ok
     /\ CondMethod(x) /\ CondStorable(x)
     /\ NoStatefulRequestHeader(x) /\ NoUncachedHeader(x)

\* Accept(x, t, leaf) = [ok, payload]: the first signature item that validates decides
Accept(x, t, leaf) ==
  LET pl == RefParsePL(x.sighdr) IN
  IF ~pl.ok THEN [ok |-> FALSE, payload |-> <<>>]
  ELSE LET good == {i \in 1..Len(pl.v) : ItemValid(x, pl.v[i].params, t, leaf)} IN
       IF good = {} THEN [ok |-> FALSE, payload |-> <<>>]
       ELSE [ok |-> TRUE, payload |-> PayloadDecode(x).payload]

\* C01, stated on what verification returned: if the real verdict is "valid" at t returning `ret`,
\* then some signature item of the exchange as verified carries a signature over a message that the
\* holder of leaf's key really signed (signed = set of <<certificate DER, message bytes>> pairs made
\* by key holders in this case), t lies in that item's window, and ret is the payload the signed
\* digest commits to.
Authentic(x, t, leaf, signed, ret) ==
  LET pl == RefParsePL(x.sighdr) IN
  /\ pl.ok
  /\ \E i \in 1..Len(pl.v) :
       LET ps == pl.v[i].params IN
       /\ ItemWellTyped(ps)
       /\ <<leaf, Msg(x, SpOf(ps))>> \in signed
       /\ SpOf(ps).certsha = SHA256(leaf)
       /\ InWindow(SpOf(ps), t)
  /\ PayloadDecode(x).ok /\ PayloadDecode(x).payload = ret
=============================================================================
