----------------------------- MODULE MC_CertChain -----------------------------
(* C17 at design level: every chain of <= MaxCerts abstract certificates x     *)
(* ocsp/sct in {absent, empty, short} per element: writable iff valid, the     *)
(* reference reader inverts the writer, the encoding is canonical; SCT lists   *)
(* of <= 3 elements over boundary sizes.  Chains are exported ("VEC") and      *)
(* replayed on the real writer/reader with real certificates.                  *)
EXTENDS CertChain, TLC, Json
CONSTANTS MaxCerts
VARIABLES ch, done
Blob == {"absent", "empty", "short"}
Mk(i, o, s) == [cert |-> <<48, 130, i, i>>, hasocsp |-> o # "absent", ocsp |-> IF o = "short" THEN <<1, 2, i>> ELSE <<>>,
                hassct |-> s # "absent", sct |-> IF s = "short" THEN <<9, i>> ELSE <<>>]
Init == ch = <<>> /\ done = FALSE
Next == /\ ~done
        /\ \/ Len(ch) < MaxCerts /\ \E o \in Blob, s \in Blob : ch' = Append(ch, Mk(Len(ch) + 1, o, s)) /\ done' = FALSE
           \/ ch # <<>> /\ done' = TRUE /\ ch' = ch /\ PrintT("VEC " \o ToJson([i \in 1..Len(ch) |-> [ocsp |-> IF ch[i].hasocsp THEN Len(ch[i].ocsp) ELSE -1, sct |-> IF ch[i].hassct THEN Len(ch[i].sct) ELSE -1]]))
Spec == Init /\ [][Next]_<<ch, done>>
AnyParses(der) == TRUE
RoundTrip == (ch # <<>> /\ ChainValid(ch)) => LET r == RefReadChain(ChainBytes(ch), AnyParses) IN r.res = "ok" /\ r.ch = ch
InvalidRefused == (ch # <<>> /\ ~ChainValid(ch)) => RefReadChain(ChainBytes(ch), AnyParses).res = "err"
Canonical == ch # <<>> => CanonicalItem(ChainBytes(ch))
SctSizes == {0, 1, 65533, 65534, 65535, 65536}
\* sizes only: the limit logic of SctOk on abstract lengths
SctModel == \A a, b \in SctSizes : LET tot == (a + 2) + (b + 2) IN
              (a <= 65535 /\ b <= 65535 /\ tot <= 65535) = SctOk(<<Rep(a, 0), Rep(b, 0)>>)
=============================================================================
