----------------------------- MODULE MC_CborDet -----------------------------
(* C13: exhaustive enumeration of all byte strings of length <= MaxLen over   *)
(* Alphabet (mode "short"), or of the family head+8 follow bytes+tail (mode   *)
(* "arg8").  Each state is one string.  TLC checks that the operational walk  *)
(* (CborDet machine) agrees with the declarative predicate, and prints every  *)
(* accepted string ("ACC <json>") for the accepted-set exchange with the Go   *)
(* implementation.                                                            *)
EXTENDS Cbor, TLC, Json
CONSTANTS MaxLen, Alphabet, Mode, F1, FM, F8, TailAlphabet, MaxTail
VARIABLE s

Heads8 == {27, 91, 123, 155, 187}     \* 1b 5b 7b 9b bb
Arg8Strings == { <<h, a, m, m, m, m, m, m, z>> : h \in Heads8, a \in F1, m \in FM, z \in F8 }

Init == IF Mode = "short" THEN s = <<>> ELSE s \in Arg8Strings

Emit(t) == IF CoreDeterministic(t) THEN PrintT("ACC " \o ToJson(t)) ELSE TRUE

Next == IF Mode = "short"
        THEN /\ Len(s) < MaxLen
             /\ \E c \in Alphabet : s' = Append(s, c) /\ Emit(s')
        ELSE /\ Len(s) < 9 + MaxTail
             /\ \E c \in TailAlphabet : s' = Append(s, c) /\ Emit(s')

Spec == Init /\ [][Next]_s

WalkAgrees == WalkAccepts(s) = CoreDeterministic(s)
DetImpliesWf == CoreDeterministic(s) => WellFormedSeq(s)
\* initial states of arg8 mode are not printed by Next; none of them may be accepted
\* (a 9-byte head claiming >= 2^56 .. or a bare uint): uint heads 1b.. ARE accepted when shortest
InitEmit == (Mode = "arg8" /\ Len(s) = 9) => Emit(s)
=============================================================================
