--------------------------------- MODULE MC_Cli ---------------------------------
EXTENDS Cli, Json
VARIABLE pl
Init == pl = <<>>
Next == pl = <<>> /\ pl' \in Pipelines /\ PrintT("VEC " \o ToJson(pl'))
Spec == Init /\ [][Next]_pl
ClosureHolds == pl # <<>> => Closure(pl)
=============================================================================
