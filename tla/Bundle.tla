-------------------------------- MODULE Bundle --------------------------------
(***************************************************************************)
(* Web Bundles, format versions b1 (draft-yasskin-wpack-bundled-exchanges) *)
(* and b2 (draft-ietf-wpack-bundled-responses), from the CDDL quoted in    *)
(* the repository and the drafts' load-metadata / load-response steps:     *)
(*  webbundle = [ magic: h'F0 9F 8C 90 F0 9F 93 A6', version: bytes .size 4,*)
(*                (b1: primary-url: tstr,) section-lengths: bytes .cbor    *)
(*                [* (name: tstr, length: uint)], sections: [* any],       *)
(*                length: bytes .size 8 ]                                  *)
(*  index (b2) = {* url => [offset, length]}                               *)
(*  index (b1) = {* url => [variants-value: bstr, +(offset, length)]}      *)
(*  responses  = [* [headers: bstr .cbor {* bstr => bstr}, payload: bstr]] *)
(* A bundle is a record [ver, hasprimary, primary, hasmanifest, manifest,  *)
(* hassigs, sigs (raw section bytes), exs: Seq([url, status, hdrs, body])].*)
(* Header maps as in Sxg (sequences of [n, vs]).  File positions are small *)
(* naturals, declared lengths / offsets are U64 tuples.                    *)
(***************************************************************************)
EXTENDS Sxg

IsBundleB1(ver) == ver = "b1"
HdrMagic(ver) == IF ver = "b1" THEN <<134, 72>> \o BundleMagic \o <<68>> \o BVer1 ELSE <<133, 72>> \o BundleMagic \o <<68>> \o BVer2

\* ---- response items
RespHdrMap(ex) == EncMap(<< [k |-> EncBytes(S_status), v |-> EncBytes(DecDigits(ex.status))] >> \o CanonH(ex.hdrs))
RespHdrOk(ex) == ~HasDupKey(<< [k |-> EncBytes(S_status), v |-> <<>>] >> \o CanonH(ex.hdrs))
RespItem(ex) == EncArrayHdr(2) \o EncBytes(RespHdrMap(ex)) \o EncBytes(ex.body)

\* ---- Variants / Variant-Key (b1), draft-ietf-httpbis-variants as used by the index section
\* values of a header (joined by ",") as a list of lists of strings (string or token items)
StrLists(v) == LET r == RefParseLL(v) IN
               IF ~r.ok \/ (\E i \in 1..Len(r.v) : \E j \in 1..Len(r.v[i]) : r.v[i][j].t \notin {"str", "tok"}) THEN [ok |-> FALSE, v |-> <<>>]
               ELSE [ok |-> TRUE, v |-> [i \in 1..Len(r.v) |-> [j \in 1..Len(r.v[i]) |-> r.v[i][j].v]]]
RECURSIVE NumKeysFrom(_, _, _)
NumKeysFrom(axes, i, acc) == IF i > Len(axes) THEN acc
                             ELSE IF Len(axes[i]) <= 1 THEN -1
                             ELSE IF acc * (Len(axes[i]) - 1) > 10000 THEN -1 ELSE NumKeysFrom(axes, i + 1, acc * (Len(axes[i]) - 1))
NumKeys(axes) == NumKeysFrom(axes, 1, 1)
\* 0-based row-major index of a key (one value per axis), -1 if it is not a possible key
RECURSIVE KeyIndexFrom(_, _, _, _)
KeyIndexFrom(axes, key, i, acc) ==
  IF i > Len(axes) THEN acc
  ELSE LET vals == Tail(axes[i])
           hits == {j \in 1..Len(vals) : vals[j] = key[i]}
       IN IF hits = {} THEN -1
          ELSE KeyIndexFrom(axes, key, i + 1, acc * Len(vals) + (CHOOSE j \in hits : \A k \in hits : j <= k) - 1)
KeyIndex(axes, key) == IF Len(axes) # Len(key) THEN -1 ELSE KeyIndexFrom(axes, key, 1, 0)

HValue(h, canonName) == IF HEntry(h, canonName) = {} THEN <<>> ELSE HJoined(h, canonName)

\* place the exchanges of one URL group (indices into exs, in insertion order) into the row-major
\* slots; [ok, slots] where slots[k] = index of the exchange serving possible key k-1
RECURSIVE PlaceKeys(_, _, _, _, _), PlaceGroup(_, _, _, _)
PlaceKeys(axes, keys, j, e, slots) ==
  IF j > Len(keys) THEN [ok |-> TRUE, slots |-> slots]
  ELSE LET i == KeyIndex(axes, keys[j]) IN
       IF i < 0 \/ slots[i + 1] # 0 THEN [ok |-> FALSE, slots |-> slots]
       ELSE PlaceKeys(axes, keys, j + 1, e, [slots EXCEPT ![i + 1] = e])
PlaceGroup(exs, grp, g, st) ==       \* st = [ok, axes, variants, slots]
  IF g > Len(grp) \/ ~st.ok THEN st
  ELSE LET e == grp[g]
           vk == StrLists(HValue(exs[e].hdrs, S_VariantKey))
       IN IF HValue(exs[e].hdrs, S_Variants) # st.variants \/ ~vk.ok THEN [st EXCEPT !.ok = FALSE]
          ELSE LET p == PlaceKeys(st.axes, vk.v, 1, e, st.slots) IN
               PlaceGroup(exs, grp, g + 1, [st EXCEPT !.ok = p.ok, !.slots = p.slots])
\* [ok, slots]: the row-major arrangement of a multi-representation group, or the refusal
VariantSlots(exs, grp) ==
  LET variants == HValue(exs[grp[1]].hdrs, S_Variants)
      ax == StrLists(variants)
  IN IF variants = <<>> \/ ~ax.ok \/ NumKeys(ax.v) < 0 THEN [ok |-> FALSE, slots |-> <<>>]
     ELSE LET st == PlaceGroup(exs, grp, 1, [ok |-> TRUE, axes |-> ax.v, variants |-> variants, slots |-> [k \in 1..NumKeys(ax.v) |-> 0]])
          IN IF st.ok /\ \A k \in 1..Len(st.slots) : st.slots[k] # 0 THEN [ok |-> TRUE, slots |-> st.slots] ELSE [ok |-> FALSE, slots |-> <<>>]

\* ---- writer
\* distinct URLs in first-appearance order and their groups
Urls(exs) == LET first == {i \in 1..Len(exs) : \A j \in 1..(i - 1) : exs[j].url # exs[i].url} IN
             SelectSeq([i \in 1..Len(exs) |-> i], LAMBDA i : i \in first)
Group(exs, u) == SelectSeq([i \in 1..Len(exs) |-> i], LAMBDA i : exs[i].url = u)

RespPrefixLen(n) == Len(EncArrayHdr(n))
RECURSIVE OffsetsFrom(_, _, _, _)
OffsetsFrom(exs, i, pos, acc) == IF i > Len(exs) THEN acc
                                 ELSE OffsetsFrom(exs, i + 1, pos + Len(RespItem(exs[i])), Append(acc, [off |-> pos, len |-> Len(RespItem(exs[i]))]))
Locs(exs) == OffsetsFrom(exs, 1, RespPrefixLen(Len(exs)), <<>>)
ResponsesSection(exs) == EncArrayHdr(Len(exs)) \o Concat([i \in 1..Len(exs) |-> RespItem(exs[i])])
LocPair(l) == EncUint(U64(l.off)) \o EncUint(U64(l.len))

\* index entries; refused when a URL repeats (b2) / variant coverage is broken (b1)
IndexRefused(b) ==
  LET us == Urls(b.exs) IN
  \E k \in 1..Len(us) : LET grp == Group(b.exs, b.exs[us[k]].url) IN
     Len(grp) > 1 /\ (b.ver = "b2" \/ ~VariantSlots(b.exs, grp).ok)
\* ov = [e, off, len]: the location emitted for exchange number ov.e is replaced (ov.e = 0: none)
IndexSectionO(b, ov) ==
  LET us == Urls(b.exs)  locs0 == Locs(b.exs)
      LocPairX(e) == IF e = ov.e THEN EncUint(ov.off) \o EncUint(ov.len) ELSE LocPair(locs0[e]) IN
  EncMap([k \in 1..Len(us) |->
     LET u == b.exs[us[k]].url  grp == Group(b.exs, u) IN
     [k |-> EncText(u),
      v |-> IF b.ver = "b2" THEN EncArrayHdr(2) \o LocPairX(grp[1])
            ELSE IF Len(grp) = 1 THEN EncArrayHdr(3) \o EncBytes(<<>>) \o LocPairX(grp[1])
            ELSE LET sl == VariantSlots(b.exs, grp).slots IN
                 EncArrayHdr(1 + 2 * Len(sl)) \o EncBytes(HValue(b.exs[grp[1]].hdrs, S_Variants)) \o Concat([s \in 1..Len(sl) |-> LocPairX(sl[s])])]])
IndexSection(b) == IndexSectionO(b, [e |-> 0, off |-> U64Zero, len |-> U64Zero])

Refused(b) == \/ IndexRefused(b)
              \/ \E i \in 1..Len(b.exs) : ~RespHdrOk(b.exs[i])
              \/ b.hasmanifest /\ b.ver # "b1"
              \/ b.ver = "b1" /\ ~b.hasprimary          \* b1 carries the primary URL as a positional item of the top-level array
              \/ \E i \in 1..Len(b.exs) : ~Utf8Valid(b.exs[i].url)    \* index keys are CBOR text strings
Sections(b) == << [name |-> S_index, body |-> IndexSection(b)] >>
               \o (IF b.ver = "b2" /\ b.hasprimary THEN << [name |-> S_primary, body |-> EncText(b.primary)] >> ELSE <<>>)
               \o (IF b.hasmanifest THEN << [name |-> S_manifest, body |-> EncText(b.manifest)] >> ELSE <<>>)
               \o (IF b.hassigs THEN << [name |-> S_signatures, body |-> b.sigs] >> ELSE <<>>)
               \o << [name |-> S_responses, body |-> ResponsesSection(b.exs)] >>
SectionLengths(secs) == EncArrayHdr(2 * Len(secs)) \o Concat([i \in 1..Len(secs) |-> EncText(secs[i].name) \o EncUint(U64(Len(secs[i].body)))])
\* the same with explicitly given (possibly wrong) lengths and item count: table = Seq([name, len: U64])
SectionLengthsU(table, cnt) == EncArrayHdr(cnt) \o Concat([i \in 1..Len(table) |-> EncText(table[i].name) \o EncUint(table[i].len)])
Assemble(ver, primary, slbytes, nsec, bodies) ==
  LET pre == HdrMagic(ver) \o (IF ver = "b1" THEN EncText(primary) ELSE <<>>) \o EncBytes(slbytes) \o EncArrayHdr(nsec) \o bodies
  IN pre \o <<72>> \o U64(Len(pre) + 9)
SpecWrite(b) == LET secs == Sections(b) IN
                Assemble(b.ver, b.primary, SectionLengths(secs), Len(secs), Concat([i \in 1..Len(secs) |-> secs[i].body]))

-----------------------------------------------------------------------------
\* What reading must give back: one exchange per index location, in index order (bytewise order of
\* the encoded URL keys; within a b1 variant group row-major, multi-key entries repeated)
ExCanon(ex) == [url |-> ex.url, status |-> ex.status, hs |-> HSet(ex.hdrs), body |-> ex.body]
ExpectedRead(b) ==
  LET us == Urls(b.exs)
      ents == SortEntries([k \in 1..Len(us) |-> [k |-> EncText(b.exs[us[k]].url), v |-> <<us[k]>>]])
  IN Concat([k \in 1..Len(ents) |->
        LET grp == Group(b.exs, b.exs[ents[k].v[1]].url) IN
        IF Len(grp) = 1 THEN << ExCanon(b.exs[grp[1]]) >>
        ELSE LET sl == VariantSlots(b.exs, grp).slots IN [s \in 1..Len(sl) |-> ExCanon(b.exs[sl[s]])]])

-----------------------------------------------------------------------------
\* Extract: the location semantics of a byte string as a bundle, three-valued.
\*   res "ok"  : every rule of the format that a reader must enforce holds; exs = the exchanges found
\*               at the in-bounds locations the index names (in index order)
\*   res "err" : some length / offset / count points outside the file, overflows 64 bits, disagrees
\*               with the section table, or a mandatory structure is malformed -> a reader must refuse
\*   res "either": outcome depends on net/url, X.509 parsing or on places where readers may be lenient
XBad(res) == [res |-> res, ver |-> "", primary |-> <<>>, hasprimary |-> FALSE, manifest |-> <<>>, hasmanifest |-> FALSE, hassigs |-> FALSE, exs |-> <<>>]

\* URL classes of index keys / primary / manifest (absolute http(s) URLs of the generated grammar)
BundleUrlClass(u, mustAbs) ==
  IF Len(u) > 0 /\ \A i \in 1..Len(u) : (u[i] > 32 /\ u[i] < 127 /\ u[i] \notin {34, 35, 37, 60, 62, 64, 91, 92, 93, 94, 96, 123, 124, 125})
  THEN IF HasAuthority(u) /\ UrlScheme(u) \in {S_https, <<104,116,116,112>>} /\ SubSeq(u, 1, SchemeEnd(u) - 1) = UrlScheme(u) /\ HostPort(u).host # <<>>
          /\ (\A i \in 1..Len(HostPort(u).host) : IsAlpha(HostPort(u).host[i]) \/ IsDigit(HostPort(u).host[i]) \/ HostPort(u).host[i] \in {45, 46})
          /\ Len(HostPort(u).port) <= 5 /\ (\A i \in 1..Len(HostPort(u).port) : IsDigit(HostPort(u).port[i]))
          /\ Authority(u)[Len(Authority(u))] # 58
       THEN "ok" ELSE "either"
  ELSE IF \E i \in 1..Len(u) : u[i] = 35 /\ i < Len(u) /\ (\A j \in 1..Len(u) : u[j] > 32 /\ u[j] < 127 /\ u[j] # 37) /\ HasAuthority(u) /\ UrlScheme(u) = S_https
       THEN "err"          \* a non-empty fragment on a plainly parseable URL
  ELSE "either"

\* section table: [res, secs (Seq [name, len: U64])]
RECURSIVE SecPairs(_, _, _, _)
SecPairs(sl, p, n, acc) ==
  IF n = 0 THEN [res |-> "ok", secs |-> acc]
  ELSE LET hn == HeadAt(sl, p) IN
       IF ~(hn.ok /\ hn.mt = 3 /\ Fits(sl, hn.next, hn.arg) /\ Utf8Valid(Sub(sl, hn.next, SmallVal(hn.arg)))) THEN [res |-> "err", secs |-> <<>>]
       ELSE LET name == Sub(sl, hn.next, SmallVal(hn.arg))
                hl == HeadAt(sl, hn.next + SmallVal(hn.arg))
            IN IF \E i \in 1..Len(acc) : acc[i].name = name THEN [res |-> "err", secs |-> <<>>]
               ELSE IF ~(hl.ok /\ hl.mt = 0) THEN [res |-> "err", secs |-> <<>>]
               ELSE SecPairs(sl, hl.next, n - 1, Append(acc, [name |-> name, len |-> hl.arg]))
SectionTable(sl) ==
  LET a == HeadAt(sl, 1) IN
  IF ~(a.ok /\ a.mt = 4) THEN [res |-> "err", secs |-> <<>>]
  ELSE IF ~IsSmall(a.arg) \/ SmallVal(a.arg) > Len(sl) THEN [res |-> "err", secs |-> <<>>]
  ELSE IF SmallVal(a.arg) % 2 = 1 THEN [res |-> "either", secs |-> <<>>]
  ELSE SecPairs(sl, a.next, SmallVal(a.arg) \div 2, <<>>)

\* start offsets of the sections (U64, relative to sectionsStart); carry => err
RECURSIVE SecStarts(_, _, _, _)
SecStarts(secs, i, at, acc) ==
  IF i > Len(secs) THEN [ok |-> TRUE, starts |-> acc, total |-> at]
  ELSE LET s == U64Add(at, secs[i].len) IN
       IF s.carry # 0 THEN [ok |-> FALSE, starts |-> acc, total |-> at] ELSE SecStarts(secs, i + 1, s.v, Append(acc, at))

\* a response item occupying exactly b[p .. p+n-1]: [res, ex-fields]
RespAt(b, p, n) ==
  LET bad(r) == [res |-> r, status |-> 0, hdrs |-> <<>>, body |-> <<>>] IN
  IF n < 1 \/ b[p] # 130 THEN bad("err")
  ELSE LET hh == HeadAt(b, p + 1) IN
       IF ~(hh.ok /\ hh.mt = 2 /\ IsSmall(hh.arg) /\ hh.next + SmallVal(hh.arg) <= p + n) THEN bad("err")
       ELSE LET hb == Sub(b, hh.next, SmallVal(hh.arg))
                m == ReadBstrMap(hb, 1)
                hbody == HeadAt(b, hh.next + SmallVal(hh.arg))
            IN IF ~m.ok THEN bad("err")
               ELSE IF \E i \in 1..Len(m.es) : NonAscii(m.es[i].k) \/ NonAscii(m.es[i].v) \/ HasUpperAscii(m.es[i].k) THEN bad("err")
               ELSE IF \E i, j \in 1..Len(m.es) : i < j /\ m.es[i].k = m.es[j].k THEN bad("err")
               ELSE LET pseudo == {i \in 1..Len(m.es) : Len(m.es[i].k) > 0 /\ m.es[i].k[1] = 58}
                        st == {i \in pseudo : m.es[i].k = S_status}
                    IN IF Cardinality(pseudo) # 1 \/ Cardinality(st) # 1 THEN bad("err")
                       ELSE LET sv == m.es[CHOOSE i \in st : TRUE].v IN
                            IF ~(Len(sv) = 3 /\ \A i \in 1..3 : IsDigit(sv[i])) THEN bad("err")
                            ELSE IF ~(hbody.ok /\ hbody.mt = 2 /\ IsSmall(hbody.arg) /\ hbody.next + SmallVal(hbody.arg) = p + n) THEN bad("err")
                            ELSE IF m.p # Len(hb) + 1 THEN bad("either")      \* bytes after the header map inside its byte string
                            ELSE [res |-> "ok", status |-> StatusVal(sv),
                                  hdrs |-> [i \in 1..(Len(m.es) - 1) |-> LET es2 == SelectSeq(m.es, LAMBDA e : e.k # S_status) IN [n |-> es2[i].k, vs |-> <<es2[i].v>>]],
                                  body |-> Sub(b, hbody.next, SmallVal(hbody.arg))]

\* locations of one index entry: sequence of [off, len] U64 pairs read from position p, cnt pairs
RECURSIVE LocPairs(_, _, _, _)
LocPairs(ix, p, cnt, acc) ==
  IF cnt = 0 THEN [ok |-> TRUE, locs |-> acc, p |-> p]
  ELSE LET ho == HeadAt(ix, p) IN
       IF ~(ho.ok /\ ho.mt = 0) THEN [ok |-> FALSE, locs |-> acc, p |-> 0]
       ELSE LET hl == HeadAt(ix, ho.next) IN
            IF ~(hl.ok /\ hl.mt = 0) THEN [ok |-> FALSE, locs |-> acc, p |-> 0]
            ELSE LocPairs(ix, hl.next, cnt - 1, Append(acc, [off |-> ho.arg, len |-> hl.arg]))

\* index section -> [res, ents: Seq([url, locs])]
RECURSIVE IndexEntries(_, _, _, _, _)
IndexEntries(ix, p, n, ver, acc) ==
  IF n = 0 THEN [res |-> "ok", ents |-> acc]
  ELSE LET hu == HeadAt(ix, p) IN
       IF ~(hu.ok /\ hu.mt = 3 /\ Fits(ix, hu.next, hu.arg) /\ Utf8Valid(Sub(ix, hu.next, SmallVal(hu.arg)))) THEN [res |-> "err", ents |-> <<>>]
       ELSE LET u == Sub(ix, hu.next, SmallVal(hu.arg))
                ha == HeadAt(ix, hu.next + SmallVal(hu.arg))
            IN IF ~(ha.ok /\ ha.mt = 4 /\ IsSmall(ha.arg)) THEN [res |-> "err", ents |-> <<>>]
               ELSE IF ver = "b2" THEN
                    (IF SmallVal(ha.arg) # 2 THEN [res |-> "err", ents |-> <<>>]
                     ELSE LET lp == LocPairs(ix, ha.next, 1, <<>>) IN
                          IF ~lp.ok THEN [res |-> "err", ents |-> <<>>]
                          ELSE IndexEntries(ix, lp.p, n - 1, ver, Append(acc, [url |-> u, locs |-> lp.locs])))
               ELSE \* b1: [variants-value, +(offset, length)]
                    IF SmallVal(ha.arg) = 0 THEN [res |-> "err", ents |-> <<>>]
                    ELSE LET hv == HeadAt(ix, ha.next) IN
                         IF ~(hv.ok /\ hv.mt = 2 /\ Fits(ix, hv.next, hv.arg)) THEN [res |-> "err", ents |-> <<>>]
                         ELSE LET vv == Sub(ix, hv.next, SmallVal(hv.arg))
                                  ax == StrLists(vv)
                                  want == IF vv = <<>> THEN 1 ELSE IF ax.ok THEN NumKeys(ax.v) ELSE -1
                              IN IF want < 0 \/ SmallVal(ha.arg) # 2 * want + 1 THEN [res |-> "err", ents |-> <<>>]
                                 ELSE LET lp == LocPairs(ix, hv.next + SmallVal(hv.arg), want, <<>>) IN
                                      IF ~lp.ok THEN [res |-> "err", ents |-> <<>>]
                                      ELSE IndexEntries(ix, lp.p, n - 1, ver, Append(acc, [url |-> u, locs |-> lp.locs]))
ParseIndex(ix, ver) ==
  LET h == HeadAt(ix, 1) IN
  IF ~(h.ok /\ h.mt = 5 /\ IsSmall(h.arg) /\ SmallVal(h.arg) <= Len(ix)) THEN [res |-> "err", ents |-> <<>>]
  ELSE IndexEntries(ix, h.next, SmallVal(h.arg), ver, <<>>)

\* a text-string section holding a URL (primary / manifest): [res, url]
UrlSection(sec, UC(_)) == LET h == HeadAt(sec, 1) IN
                   IF ~(h.ok /\ h.mt = 3 /\ Fits(sec, h.next, h.arg) /\ Utf8Valid(Sub(sec, h.next, SmallVal(h.arg)))) THEN [res |-> "err", url |-> <<>>]
                   ELSE [res |-> UC(Sub(sec, h.next, SmallVal(h.arg))), url |-> Sub(sec, h.next, SmallVal(h.arg))]

\* resolve every location against the responses section and the file
RECURSIVE ResolveLocs(_, _, _, _, _, _)
ResolveLocs(f, ents, e, l, respStart, respLen) ==     \* returns [res, exs]
  IF e > Len(ents) THEN [res |-> "ok", exs |-> <<>>]
  ELSE IF l > Len(ents[e].locs) THEN ResolveLocs(f, ents, e + 1, 1, respStart, respLen)
  ELSE LET loc == ents[e].locs[l]
           endr == U64Add(loc.off, loc.len)
       IN IF endr.carry # 0 \/ U64Less(respLen, endr.v) THEN [res |-> "err", exs |-> <<>>]
          ELSE \* inside the responses section, which itself lies inside the file: small numbers from here
               LET p == respStart + SmallVal(loc.off)
                   r == RespAt(f, p, SmallVal(loc.len))
               IN IF r.res # "ok" THEN [res |-> r.res, exs |-> <<>>]
                  ELSE LET rest == ResolveLocs(f, ents, e, l + 1, respStart, respLen) IN
                       IF rest.res # "ok" THEN rest
                       ELSE [res |-> "ok", exs |-> << [url |-> ents[e].url, status |-> r.status, hs |-> HSet(r.hdrs), body |-> r.body] >> \o rest.exs]

KnownSections == {S_index, S_primary, S_manifest, S_signatures, S_responses}
ExtractWith(f, UC(_)) ==
  LET ver == IF Len(f) >= 15 /\ SubSeq(f, 1, 15) = HdrMagic("b1") THEN "b1" ELSE IF Len(f) >= 15 /\ SubSeq(f, 1, 15) = HdrMagic("b2") THEN "b2" ELSE "" IN
  IF ver = "" THEN XBad("err")
  ELSE LET hp == HeadAt(f, 16)
           pOk == ver = "b2" \/ (hp.ok /\ hp.mt = 3 /\ Fits(f, hp.next, hp.arg) /\ Utf8Valid(Sub(f, hp.next, SmallVal(hp.arg))))
       IN IF ~pOk THEN XBad("err")
          ELSE LET fallback == IF ver = "b1" THEN Sub(f, hp.next, SmallVal(hp.arg)) ELSE <<>>
                   q == IF ver = "b1" THEN hp.next + SmallVal(hp.arg) ELSE 16
                   hs == HeadAt(f, q)
               IN IF ~(hs.ok /\ hs.mt = 2 /\ Fits(f, hs.next, hs.arg)) \/ SmallVal(hs.arg) >= 8192 THEN XBad("err")
                  ELSE LET st == SectionTable(Sub(f, hs.next, SmallVal(hs.arg)))
                           ha == HeadAt(f, hs.next + SmallVal(hs.arg))
                       IN IF st.res # "ok" THEN XBad(st.res)
                          ELSE IF ~(ha.ok /\ ha.mt = 4 /\ ha.arg = U64(Len(st.secs))) THEN XBad("err")
                          ELSE IF st.secs = <<>> \/ st.secs[Len(st.secs)].name # S_responses THEN XBad("err")
                          ELSE LET start == ha.next                   \* sectionsStart (1-based position)
                                   ss == SecStarts(st.secs, 1, U64Zero, <<>>)
                                   room == U64(Len(f) - start + 1)    \* bytes from sectionsStart to the end of the file
                               IN IF ~ss.ok \/ U64Less(room, ss.total) THEN XBad("err")     \* the sections do not fit in the file
                                  ELSE IF SmallVal(ss.total) + 9 > Len(f) - start + 1 THEN XBad("either")   \* no room for the trailing length item
                                  ELSE \* everything is in bounds now: small numbers
                                       LET SecBody(i) == Sub(f, start + SmallVal(ss.starts[i]), SmallVal(st.secs[i].len))
                                           Find(name) == {i \in 1..Len(st.secs) : st.secs[i].name = name}
                                           Has(name) == Find(name) # {}
                                           Body(name) == SecBody(CHOOSE i \in Find(name) : TRUE)
                                           ix0 == IF Has(S_index) THEN ParseIndex(Body(S_index), ver) ELSE [res |-> "ok", ents |-> <<>>]
                                           ucs == { UC(ix0.ents[i].url) : i \in 1..Len(ix0.ents) }
                                           ix == IF ix0.res # "ok" THEN ix0 ELSE IF "err" \in ucs THEN [res |-> "err", ents |-> <<>>]
                                                 ELSE IF "either" \in ucs THEN [res |-> "either", ents |-> <<>>] ELSE ix0
                                           pr == IF Has(S_primary) THEN UrlSection(Body(S_primary), UC) ELSE [res |-> "ok", url |-> <<>>]
                                           mf == IF Has(S_manifest) THEN UrlSection(Body(S_manifest), UC) ELSE [res |-> "ok", url |-> <<>>]
                                           ri == CHOOSE i \in Find(S_responses) : TRUE
                                       IN IF ix.res = "err" \/ pr.res = "err" \/ mf.res = "err" THEN XBad("err")
                                          ELSE IF ix.res = "either" \/ pr.res = "either" \/ mf.res = "either" THEN XBad("either")
                                          ELSE LET rl == ResolveLocs(f, ix.ents, 1, 1, start + SmallVal(ss.starts[ri]), st.secs[ri].len) IN
                                               IF rl.res # "ok" THEN XBad(rl.res)
                                               ELSE IF Has(S_signatures) \/ (ver = "b1" /\ UC(fallback) # "ok") THEN
                                                    [XBad("either") EXCEPT !.exs = rl.exs]     \* certificates / fallback URL: left to X.509 / net/url
                                               ELSE [res |-> "ok", ver |-> ver,
                                                     hasprimary |-> Has(S_primary) \/ ver = "b1", primary |-> IF Has(S_primary) THEN pr.url ELSE fallback,
                                                     hasmanifest |-> Has(S_manifest), manifest |-> mf.url, hassigs |-> FALSE, exs |-> rl.exs]

Extract(f) == ExtractWith(f, LAMBDA u : BundleUrlClass(u, FALSE))
\* for files a writer produced from known URLs: those URLs are taken as valid
ExtractKnown(f, urls) == ExtractWith(f, LAMBDA u : IF u \in urls THEN "ok" ELSE BundleUrlClass(u, FALSE))

-----------------------------------------------------------------------------
\* WellFormedBundle: the independent parser of C04 (strict: what a WRITER must produce)
RECURSIVE ElementStarts(_, _, _, _)
ElementStarts(b, p, n, acc) == IF n = 0 THEN acc ELSE LET e == DetEndX(b, p) IN IF e < 0 THEN acc ELSE ElementStarts(b, e, n - 1, acc \cup {p})
WellFormedBundle(f, ver) ==
  /\ Len(f) >= 15 /\ SubSeq(f, 1, 15) = HdrMagic(ver)
  /\ CanonicalItem(f)                                               \* canonical CBOR, one item, nothing after it
  /\ LET q == IF ver = "b1" THEN DetEndX(f, 16) ELSE 16
         hs == HeadAt(f, q)
         sl == Sub(f, hs.next, SmallVal(hs.arg))
         st == SectionTable(sl)
         ha == HeadAt(f, hs.next + SmallVal(hs.arg))
         ss == SecStarts(st.secs, 1, U64Zero, <<>>)
         endSecs == ha.next + SmallVal(ss.total)
     IN /\ CanonicalItem(sl)
        /\ st.res = "ok" /\ st.secs[Len(st.secs)].name = S_responses
        \* the sections tile the file exactly up to the trailing length item
        /\ endSecs + 9 = Len(f) + 1
        /\ f[endSecs] = 72 /\ SubSeq(f, endSecs + 1, endSecs + 8) = U64(Len(f))
        \* every index location is an element of the responses array
        /\ LET ri == Len(st.secs)
               rstart == ha.next + SmallVal(ss.starts[ri])
               rh == HeadAt(f, rstart)
               els == ElementStarts(f, rh.next, SmallVal(rh.arg), {})
               ixi == {i \in 1..Len(st.secs) : st.secs[i].name = S_index}
           IN /\ rh.ok /\ rh.mt = 4
              /\ ixi # {} =>
                   LET ix == ParseIndex(Sub(f, ha.next + SmallVal(ss.starts[CHOOSE i \in ixi : TRUE]), SmallVal(st.secs[CHOOSE i \in ixi : TRUE].len)), ver) IN
                   /\ ix.res = "ok" \/ ix.res = "either"
                   /\ \A e \in 1..Len(ix.ents) : \A l \in 1..Len(ix.ents[e].locs) :
                        LET p == rstart + SmallVal(ix.ents[e].locs[l].off) IN
                        /\ p \in els
                        /\ DetEndX(f, p) = p + SmallVal(ix.ents[e].locs[l].len)
                        \* the header map nested in the byte string is canonical too
                        /\ LET hh == HeadAt(f, p + 1) IN CanonicalItem(Sub(f, hh.next, SmallVal(hh.arg)))
=============================================================================
