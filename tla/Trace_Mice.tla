------------------------------ MODULE Trace_Mice ------------------------------
(* Trace validation for package mice (C14, C15, C10) with real SHA-256 (JDK). *)
(*  kind "enc": Encode(payload, rs) -> stream, digest header text             *)
(*  kind "dec": NewDecoder(stream, digest, max) and the Read calls up to the  *)
(*              first failure / clean end (plus up to 3 reads after a failure) *)
EXTENDS Mice, TLC, Json, IOUtils
Trace == ndJsonDeserialize(IOEnv.VERIF_TRACE)
VARIABLE l

EncOk(ev) ==
  LET e == MiEnc(ev.draft, ev.payload, ev.rs) IN
  /\ ~ev.err
  /\ ev.stream = e.stream
  /\ ev.digest = DigestText(ev.draft, e.top)

\* every Read result is the step the MiDec machine takes
\* a read logged with n = -1 is a DRAIN (io.Copy: through WriteTo if the decoder offers one, else repeated Read):
\* everything the machine still delivers, and how it ends
RECURSIVE Drain(_, _, _)
Drain(stream, s, acc) == LET r == MiRead(stream, s, 65536) IN
                         IF r.res = "nil" THEN Drain(stream, r.s, acc \o r.data)
                         ELSE [data |-> acc \o r.data, res |-> r.res, s |-> r.s]
RECURSIVE ReadsOk(_, _, _, _)
ReadsOk(stream, s, reads, i) ==
  IF i > Len(reads) THEN TRUE
  ELSE LET r == IF reads[i].n < 0 THEN Drain(stream, s, <<>>) ELSE MiRead(stream, s, reads[i].n) IN
       /\ r.res = reads[i].res
       /\ r.data = reads[i].data
       /\ r.res = "err" \/ ReadsOk(stream, r.s, reads, i + 1)

RunOk(ev, proof) ==
  LET n == MiNew(ev.draft, proof, ev.stream, ev.max) IN
  IF ~n.ok
  THEN /\ ev.newerr
       \* a bad record size is refused before anything beyond the 8-byte size field is read
       /\ Len(ev.stream) >= 8 => ev.newconsumed = 8
  ELSE ~ev.newerr /\ ReadsOk(ev.stream, n.s, ev.reads, 1)

Conforms(ev) ==
  LET pd == ParseDigest(ev.draft, ev.digest) IN
  /\ ~ev.panic
  /\ CASE pd.res = "err" -> ev.newerr /\ ev.newconsumed = 0
       [] pd.res = "either" -> (ev.newerr /\ ev.reads = <<>>) \/ RunOk(ev, pd.proof)
       [] OTHER -> RunOk(ev, pd.proof)

\* C15 stated directly on the observation: with the honest digest of `orig`, whatever the stream,
\* delivered bytes are a prefix of orig and a clean end-of-stream comes only after all of it.
RECURSIVE Delivered(_, _)
Delivered(reads, i) == IF i > Len(reads) THEN <<>> ELSE reads[i].data \o Delivered(reads, i + 1)
Authenticated(ev) ==
  ev.honest =>
    LET d == Delivered(ev.reads, 1) IN
    /\ IsPrefixB(d, ev.orig)
    \* a clean end-of-stream (one not preceded by a reported error) comes only after the whole payload;
    \* reads made after an error are still covered by the prefix clause above: nothing unauthenticated is ever handed out
    /\ (\E i \in 1..Len(ev.reads) : ev.reads[i].res = "eof" /\ \A j \in 1..(i - 1) : ev.reads[j].res # "err") => d = ev.orig

Verdict(ev) == IF ev.kind = "enc" THEN (IF EncOk(ev) THEN "ok" ELSE "encode")
               ELSE IF ~Authenticated(ev) THEN "unauthenticated"
               ELSE IF ~Conforms(ev) THEN "nonconforming" ELSE "ok"

TraceInit == l = 1
TraceNext ==
  /\ l <= Len(Trace)
  /\ l' = l + 1
  /\ LET v == Verdict(Trace[l]) IN
     IF v = "ok" THEN TRUE ELSE PrintT("REJECT " \o ToJson([case |-> Trace[l].case, why |-> v]))
  /\ IF l = Len(Trace) THEN PrintT("DONE " \o ToString(l)) ELSE TRUE
TraceSpec == TraceInit /\ [][TraceNext]_l
=============================================================================
