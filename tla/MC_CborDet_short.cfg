SPECIFICATION Spec
CONSTANTS
  MaxLen = 4
  Alphabet = {0,1,23,24,25,26,27,28,31,32,64,65,66,88,89,96,97,98,120,128,129,130,152,160,161,162,184,192,244,255}
  Mode = "short"
  F1 = {0}
  FM = {0}
  F8 = {0}
  TailAlphabet = {0}
  MaxTail = 0
INVARIANTS WalkAgrees DetImpliesWf
CHECK_DEADLOCK FALSE
