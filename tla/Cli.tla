---------------------------------- MODULE Cli ----------------------------------
(***************************************************************************)
(* C20: the command-line tools as a system of producers and consumers.     *)
(* Artefact kinds, tool contracts (what each tool consumes, what it        *)
(* produces, and whether it must accept it), and pipelines of tool         *)
(* invocations over input classes.  TLC enumerates the pipelines, checks   *)
(* the design property CLOSURE (every artefact a pipeline produces is of a *)
(* kind and with attributes that every later consumer in the pipeline is   *)
(* specified to accept) and exports each pipeline for execution with the   *)
(* binaries built from the repository; the produced files are judged by    *)
(* the FORMAT specifications (Trace_Cli).                                  *)
(***************************************************************************)
EXTENDS Integers, Sequences, FiniteSets, TLC

NameClasses == {"dotfiles", "plain", "space", "hash", "qmark", "pct", "colon", "nonascii", "nested", "empty", "indexroot", "indexnested", "plus", "amp"}
BundleVers == {"b1", "b2"}
SxgVers == {"1b1", "1b2", "1b3"}
EcKeyForms == {"sec1", "pkcs8", "sec1params"}      \* sec1params: what `openssl ecparam -genkey` writes, an EC PARAMETERS block before the key
Curves == {"p256", "p384"}

\* a step = [tool, in (kinds consumed), out (kind produced), p (parameters)]
Step(tool, ins, out, p) == [tool |-> tool, ins |-> ins, out |-> out, p |-> p]

\* what each tool is specified to accept (kind + attributes of the artefact)
Accepts(tool, a) ==
  CASE tool = "dump-bundle" -> a.kind = "bundle" /\ a.sign \in {"none", "sigsection"}     \* integrity-block bundles are refused by design
    [] tool = "sign-bundle signatures-section" -> a.kind = "bundle" /\ a.sign = "none"
    [] tool = "sign-bundle integrity-block" -> a.kind = "bundle" /\ a.sign = "none"
    [] tool = "dump-certurl" -> a.kind = "certcbor"
    [] tool = "dump-signedexchange view" -> a.kind \in {"sxg", "certcbor"}
    [] tool = "dump-signedexchange -verify" -> a.kind \in {"sxg", "certcbor"}
    [] OTHER -> FALSE

\* pipelines (sequences of steps); the artefact each step produces
DirPipelines ==
  { << Step("gen-bundle -dir", {"dir"}, [kind |-> "bundle", sign |-> "none", ver |-> v], [names |-> n, ver |-> v, base |-> b, override |-> o]),
       Step("dump-bundle", {"bundle"}, [kind |-> "text"], [x |-> 0]) >> : n \in NameClasses, v \in BundleVers, b \in {"root", "sub", "port"},
                                                                            o \in {"none", "variants"} }   \* -headerOverride "Variants: Accept-Language;en;fr" on every response
  \cup
  { << Step("gen-bundle -dir", {"dir"}, [kind |-> "bundle", sign |-> "none", ver |-> v], [names |-> n, ver |-> v, base |-> IF n = "indexroot" THEN "port" ELSE IF n = "plain" /\ r = 4096 THEN "otherhost" ELSE "root", override |-> IF n = "nested" THEN "variants" ELSE IF n = "plain" /\ r = 16 THEN "contentenc" ELSE "none"]),     \* contentenc: every response already declares a content coding of its own (Content-Encoding: gzip) before it is signed
       Step("sign-bundle signatures-section", {"bundle", "certcbor", "eckey"}, [kind |-> "bundle", sign |-> "sigsection", ver |-> v], [keyform |-> k, curve |-> c, rs |-> r, ncerts |-> nc, inplace |-> (k = "pkcs8" /\ r = 16),
             \* -expire: the documented range ends at seven days (168h); the signature is dated "now" (no -date flag), and the bundle must verify now
             expire |-> IF r = 16 /\ nc = 1 THEN "168h" ELSE IF r = 4096 /\ nc = 2 THEN "167h59m30s" ELSE "default"]),     \* inplace: -o names the input file (how several signers are appended to one bundle)
       Step("dump-bundle", {"bundle"}, [kind |-> "text"], [x |-> 0]) >> : n \in {"plain", "nested", "indexroot"}, v \in BundleVers, k \in EcKeyForms, c \in Curves, r \in {16, 4096},
                                                                            nc \in {1, 2} }     \* certificate chain of the signer: leaf alone / leaf + issuer
  \cup
  { << Step("gen-bundle -dir", {"dir"}, [kind |-> "bundle", sign |-> "none", ver |-> "b2"], [names |-> n, ver |-> "b2", base |-> "root"]),
       Step("sign-bundle integrity-block", {"bundle", "edkey"}, [kind |-> "bundle", sign |-> "iblock", ver |-> "b2"], [keyform |-> k]),
       Step("sign-bundle dump-id", {"edkey"}, [kind |-> "text"], [keyform |-> k]) >> : n \in {"plain", "empty", "nested"}, k \in {"pkcs8", "encrypted", "public"} }
CertPipelines ==
  { << Step("gen-certurl", {"pemchain", "ocsp"}, [kind |-> "certcbor"], [ncerts |-> nc, curve |-> c, sct |-> s]),
       Step("dump-certurl", {"certcbor"}, [kind |-> "text"], [x |-> 0]) >> : nc \in {1, 2}, c \in Curves, s \in BOOLEAN }
  \cup   \* a leaf that already carries an embedded SCT list: what -sctDir supplies is written all the same
  { << Step("gen-certurl", {"pemchain", "ocsp"}, [kind |-> "certcbor"], [ncerts |-> nc, curve |-> "p256-sctleaf", sct |-> s]),
       Step("dump-certurl", {"certcbor"}, [kind |-> "text"], [x |-> 0]) >> : nc \in {1, 2}, s \in BOOLEAN }
SxgPipelines ==
  { << Step("gen-certurl", {"pemchain", "ocsp"}, [kind |-> "certcbor"], [ncerts |-> nc, curve |-> c, sct |-> FALSE]),
       Step("gen-signedexchange", {"content", "pemchain", "eckey"}, [kind |-> "sxg", ver |-> v],
            [ver |-> v, keyform |-> k, curve |-> c, rs |-> r, expire |-> e, status |-> st, cc |-> cc, content |-> ct]),
       Step("dump-signedexchange -verify", {"sxg", "certcbor"}, [kind |-> "text"], [x |-> 0]) >> :
       v \in SxgVers, k \in EcKeyForms, c \in Curves, r \in {1, 16, 16384}, e \in {"1h", "168h"}, st \in {200, 404}, cc \in {"none", "public", "twolines"}, ct \in {"empty", "small", "multi"},
       nc \in {1, 2} }
\* the flags of gen-signedexchange as a relation between argument text and file: header flags whose value contains the
\* separator, the same name repeated (in several letter cases), padded and empty values, request headers (b1/b2), an
\* explicit -date, the method, output to stdout; with the two debugging dumps requested
HdrShapes == {"none", "colon", "repeat", "pad", "request"}
SxgFlagPipelines ==
  { << Step("gen-certurl", {"pemchain", "ocsp"}, [kind |-> "certcbor"], [ncerts |-> 1, curve |-> "p256", sct |-> FALSE]),
       Step("gen-signedexchange", {"content", "pemchain", "eckey"}, [kind |-> "sxg", ver |-> v],
            [ver |-> v, hdr |-> h, date |-> d, method |-> m, out |-> o]),
       Step("dump-signedexchange -verify", {"sxg", "certcbor"}, [kind |-> "text"], [x |-> 0]) >> :
       v \in SxgVers, h \in HdrShapes, d \in {"now", "fixed"}, m \in {"GET", "HEAD"}, o \in {"file", "stdout"} }
\* the spelling of gen-bundle's -dir value: every spelling that names the same directory gives the same bundle
DirSpellings == {"abs", "rel", "dotslash", "trailing", "dotend", "dslash", "updown", "cwd"}
DirSpellingPipelines ==
  { << Step("gen-bundle -dir", {"dir"}, [kind |-> "bundle", sign |-> "none", ver |-> v], [names |-> n, ver |-> v, base |-> b, override |-> "none", dirform |-> f]),
       Step("dump-bundle", {"bundle"}, [kind |-> "text"], [x |-> 0]) >> : n \in {"plain", "nested", "dotfiles", "indexnested"}, v \in BundleVers, b \in {"root", "sub"}, f \in DirSpellings }
\* the tools' DEFAULTS compose: gen-signedexchange without -version (or with an explicit one) and dump-signedexchange
\* without -version, the exchange handed over as a file, on standard input, or fetched with -uri from a server that labels it
\* with the media type of the version it carries (README)
SxgDefaultPipelines ==
  { << Step("gen-certurl", {"pemchain", "ocsp"}, [kind |-> "certcbor"], [ncerts |-> 1, curve |-> "p256", sct |-> FALSE]),
       Step("gen-signedexchange", {"content", "pemchain", "eckey"}, [kind |-> "sxg", ver |-> IF v = "default" THEN "1b3" ELSE v], [genver |-> v, via |-> via, dumpver |-> dv]),
       Step("dump-signedexchange -verify", {"sxg", "certcbor"}, [kind |-> "text"], [x |-> 0]) >> :
       v \in SxgVers \cup {"default"}, via \in {"file", "stdin", "http"}, dv \in {"default", "same"} }
HarPipelines ==
  { << Step("gen-bundle -har", {"har"}, [kind |-> "bundle", sign |-> "none", ver |-> v], [ver |-> v, har |-> h]),
       Step("dump-bundle", {"bundle"}, [kind |-> "text"], [x |-> 0]) >> : v \in BundleVers, h \in {"mixed", "statuses"} }     \* statuses: entries whose status is 0, 99, 100, 999, 1000 (only 100..999 are responses)
\* the inputs that come over the network, against an origin server on the loopback interface.
\* gen-bundle -URLList: one exchange per listed URL (blank lines and # comments skipped, surrounding white space trimmed, a
\* URL listed twice fetched once), holding what the server answered (after redirects): status, header fields, body
UrlListClasses == {"plain", "comments", "query", "redirect", "headers", "emptybody"}
UrlListPipelines ==
  { << Step("gen-bundle -URLList", {"urllist", "server"}, [kind |-> "bundle", sign |-> "none", ver |-> v], [ver |-> v, ul |-> c]),
       Step("dump-bundle", {"bundle"}, [kind |-> "text"], [x |-> 0]) >> : v \in BundleVers, c \in UrlListClasses }
\* gen-certurl without -ocsp asks the responder named in the leaf certificate: POST with the DER request as body, or (RFC 5019,
\* -preferGET) GET <responder>/<url-escaped base64 of the same request> when that URL has at most 255 characters; what the
\* responder answers is the ocsp value of the chain
OcspFetchModes == {"post", "get", "gettoolong"}
OcspFetchPipelines ==
  { << Step("gen-certurl", {"pemchain", "server"}, [kind |-> "certcbor"], [ncerts |-> 2, curve |-> "p256-ocspleaf", sct |-> FALSE, fetch |-> m]),
       Step("dump-certurl", {"certcbor"}, [kind |-> "text"], [x |-> 0]) >> : m \in OcspFetchModes }
\* dump-signedexchange's views of one exchange: each prints a function of the file (header integrity, the Signature header,
\* a JSON summary with the verdict, the verified payload)
SxgViews == {"headerIntegrity", "signature", "json", "payloadonly"}
SxgViewPipelines ==
  { << Step("gen-certurl", {"pemchain", "ocsp"}, [kind |-> "certcbor"], [ncerts |-> 1, curve |-> "p256", sct |-> FALSE]),
       Step("gen-signedexchange", {"content", "pemchain", "eckey"}, [kind |-> "sxg", ver |-> v], [ver |-> v, view |-> w]),
       Step("dump-signedexchange view", {"sxg", "certcbor"}, [kind |-> "text"], [view |-> w]) >> : v \in SxgVers, w \in SxgViews }
\* dump-signedexchange -verify WITHOUT -cert fetches the chain from the exchange's own cert-url (https: a loopback TLS
\* server whose certificate the process is told to trust)
SxgFetchPipelines ==
  { << Step("gen-certurl", {"pemchain", "ocsp"}, [kind |-> "certcbor"], [ncerts |-> nc, curve |-> "p256", sct |-> FALSE]),
       Step("gen-signedexchange", {"content", "pemchain", "eckey"}, [kind |-> "sxg", ver |-> v], [ver |-> v, certfetch |-> f]),
       Step("dump-signedexchange -verify", {"sxg", "certcbor"}, [kind |-> "text"], [x |-> 0]) >> : v \in SxgVers, nc \in {1, 2}, f \in {"served", "missing", "other"} }
\* -manifestURL: b1 bundles carry it in their manifest section; the b2 format has none, so the tool must refuse rather than
\* write a bundle that silently lacks what was asked for
ManifestPipelines ==
  { << Step("gen-bundle -dir", {"dir"}, [kind |-> "bundle", sign |-> "none", ver |-> v], [names |-> n, ver |-> v, base |-> "root", manifest |-> mf]),
       Step("dump-bundle", {"bundle"}, [kind |-> "text"], [x |-> 0]) >> : v \in BundleVers, n \in {"plain", "nested"}, mf \in {"sameorigin", "query"} }
Pipelines == ManifestPipelines \cup DirPipelines \cup CertPipelines \cup SxgPipelines \cup HarPipelines \cup SxgFlagPipelines \cup DirSpellingPipelines \cup SxgDefaultPipelines
             \cup UrlListPipelines \cup OcspFetchPipelines \cup SxgViewPipelines \cup SxgFetchPipelines

\* CLOSURE: whenever a later step consumes the kind an earlier step produced, that artefact is one the
\* consumer is specified to accept
Closure(pl) == \A i, j \in 1..Len(pl) : (i < j /\ pl[i].out.kind \in pl[j].ins /\ pl[j].tool \notin {"gen-signedexchange", "gen-certurl", "sign-bundle dump-id"}
                                          /\ pl[i].out.kind # "text"
                                          /\ \A m \in (i + 1)..(j - 1) : pl[m].out.kind # pl[i].out.kind)
                                         => Accepts(pl[j].tool, pl[i].out)
=============================================================================
