------------------------------- MODULE Crypto -------------------------------
(***************************************************************************)
(* Cryptographic primitives as a parameter of the specification.  This is  *)
(* the CONCRETE instantiation used by the trace specifications: every      *)
(* operator below is replaced at run time by a TLC module override bound   *)
(* to the JDK (tla/overrides/VerifCrypto.java).  If the overrides are not  *)
(* loaded the bodies fail loudly.  The ABSTRACT instantiation (perfect     *)
(* hash / signature terms) lives in the MC_* modules that need it.         *)
(***************************************************************************)
EXTENDS TLC
SHA256(b) == Assert(FALSE, "Crypto override not loaded: SHA256")
SHA512(b) == Assert(FALSE, "Crypto override not loaded: SHA512")
X509Parses(der) == Assert(FALSE, "Crypto override not loaded: X509Parses")
EcdsaVerifyCert(certDer, msg, sig) == Assert(FALSE, "Crypto override not loaded: EcdsaVerifyCert")
Ed25519Verify(pk, msg, sig) == Assert(FALSE, "Crypto override not loaded: Ed25519Verify")
=============================================================================
