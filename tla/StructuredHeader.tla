-------------------------- MODULE StructuredHeader --------------------------
(***************************************************************************)
(* draft-ietf-httpbis-header-structure-09, the subset implemented by       *)
(* go/signedexchange/structuredheader: Parameterised Lists and Lists of    *)
(* Lists over the item types integer, string, token, byte sequence.        *)
(* Written from section 4.2 of the draft (parsing) and 4.1 (serialising).  *)
(*                                                                         *)
(* Named deviations of the implemented subset from the draft text:         *)
(*  Dev_NoBooleanFloat     booleans (?0/?1) and floats are not items       *)
(*  Dev_LeadingZeros       any number of digits as long as the value fits  *)
(*                         in int64 (range decided on the digit string)    *)
(*  Dev_UnpaddedBase64     byte-sequence content whose length is not a     *)
(*                         multiple of 4 is decoded as unpadded base64     *)
(*  Dev_PadBitsTolerated   non-zero unused bits in the last base64 char    *)
(*                         are ignored (draft 3.10 allows either)          *)
(* Values:  item  = [t |-> "int"|"str"|"tok"|"bin"|"nil", v |-> bytes]     *)
(*          ("int": canonical decimal text; "nil": parameter without value)*)
(*          list of lists = Seq(Seq(item));                                *)
(*          parameterised list = Seq([label |-> bytes, params |-> Seq([k |-> bytes, v |-> item])]) *)
(***************************************************************************)
EXTENDS Bytes

SP == 32  HTAB == 9  DQ == 34  BSL == 92  STAR == 42  SEMI == 59  COMMA == 44  EQ == 61  MINUS == 45

IsKeyChar(c) == IsLower(c) \/ IsDigit(c) \/ c = 95 \/ c = MINUS
IsTokenChar(c) == IsAlpha(c) \/ IsDigit(c) \/ c \in {95, 45, 46, 58, 37, 42, 47}     \* _ - . : % * /
IsB64Char(c) == IsAlpha(c) \/ IsDigit(c) \/ c = 43 \/ c = 47 \/ c = 61

Item(t, v) == [t |-> t, v |-> v]
Fail == [ok |-> FALSE, v |-> Item("nil", <<>>), p |-> 0]
Ok(v, p) == [ok |-> TRUE, v |-> v, p |-> p]

\* first position >= p whose character is not in the class (Len+1 if none); linear scans
IsOWS(c) == c = SP \/ c = HTAB
ScanWhile(s, p, P(_)) == LET r == FirstIn(s, p, Len(s), LAMBDA c : ~P(c)) IN IF r = 0 THEN Max2(p, Len(s) + 1) ELSE r
SkipOWS(s, p) == ScanWhile(s, p, IsOWS)
ScanDigits(s, p) == ScanWhile(s, p, IsDigit)
ScanTokenChars(s, p) == ScanWhile(s, p, IsTokenChar)
ScanKeyChars(s, p) == ScanWhile(s, p, IsKeyChar)
ScanToStar(s, p) == ScanWhile(s, p, LAMBDA c : c # STAR)

\* ---- integers (4.2.8, Dev_NoBooleanFloat, Dev_LeadingZeros)
MaxPos == <<57,50,50,51,51,55,50,48,51,54,56,53,52,55,55,53,56,48,55>>   \* 9223372036854775807
MaxNeg == <<57,50,50,51,51,55,50,48,51,54,56,53,52,55,55,53,56,48,56>>   \* 9223372036854775808
StripZeros(d) == LET nz == {i \in 1..Len(d) : d[i] # 48} IN
                 IF nz = {} THEN <<48>> ELSE SubSeq(d, CHOOSE i \in nz : \A j \in nz : i <= j, Len(d))
DigitsLeq(a, b) == Len(a) < Len(b) \/ (Len(a) = Len(b) /\ (a = b \/ BytesLess(a, b)))
ParseNumber(s, p) ==
  LET neg == s[p] = MINUS
      q == IF neg THEN p + 1 ELSE p
      e == ScanDigits(s, q)
      mag == StripZeros(SubSeq(s, q, e - 1))
  IN IF e = q THEN Fail
     ELSE IF ~DigitsLeq(mag, IF neg THEN MaxNeg ELSE MaxPos) THEN Fail
     ELSE Ok(Item("int", IF neg /\ mag # <<48>> THEN <<MINUS>> \o mag ELSE mag), e)

\* ---- strings (4.2.9): DQUOTE *(unescaped / "\" (DQUOTE / "\")) DQUOTE, characters %x20-7E
RECURSIVE StrScan(_, _, _)
StrScan(s, p, escs) ==       \* escs: positions of the backslashes that introduce an escape
  IF p > Len(s) THEN [ok |-> FALSE, e |-> 0, escs |-> {}]
  ELSE LET c == s[p] IN
       IF c = BSL THEN (IF p + 1 > Len(s) \/ s[p + 1] \notin {DQ, BSL} THEN [ok |-> FALSE, e |-> 0, escs |-> {}] ELSE StrScan(s, p + 2, escs \cup {p}))
       ELSE IF c = DQ THEN [ok |-> TRUE, e |-> p, escs |-> escs]
       ELSE IF c < 32 \/ c > 126 THEN [ok |-> FALSE, e |-> 0, escs |-> {}]
       ELSE StrScan(s, p + 1, escs)
ParseString(s, p) ==
  LET q == FirstIn(s, p + 1, Len(s), LAMBDA c : c = DQ)
      plain == q > 0 /\ FirstIn(s, p + 1, q - 1, LAMBDA c : c = BSL \/ c < 32 \/ c > 126) = 0
      r == IF plain THEN [ok |-> TRUE, e |-> q, escs |-> {}] ELSE StrScan(s, p + 1, {}) IN
  IF ~r.ok THEN Fail
  ELSE Ok(Item("str", IF r.escs = {} THEN SubSeq(s, p + 1, r.e - 1)
                      ELSE LET idx == SelectSeq([i \in 1..(r.e - p - 1) |-> p + i], LAMBDA z : z \notin r.escs)
                           IN [i \in 1..Len(idx) |-> s[idx[i]]]), r.e + 1)

\* ---- tokens (4.2.10): ALPHA *( ALPHA / DIGIT / "_" / "-" / "." / ":" / "%" / "*" / "/" )
ParseToken(s, p) ==
  IF p > Len(s) \/ ~IsAlpha(s[p]) THEN Fail
  ELSE LET e == ScanTokenChars(s, p) IN Ok(Item("tok", SubSeq(s, p, e - 1)), e)

\* ---- byte sequences (4.2.11): "*" *base64 "*"  (Dev_UnpaddedBase64, Dev_PadBitsTolerated)
ParseBin(s, p) ==
  LET e == ScanToStar(s, p + 1)
  IN IF e > Len(s) THEN Fail
     ELSE LET body == SubSeq(s, p + 1, e - 1)
              d == B64Dec(body, FALSE, Len(body) % 4 = 0)
          IN IF (\E i \in 1..Len(body) : ~IsB64Char(body[i])) \/ ~d.ok THEN Fail
             ELSE Ok(Item("bin", d.v), e + 1)

\* ---- items (4.2.7)
ParseItem(s, p) ==
  IF p > Len(s) THEN Fail
  ELSE LET c == s[p] IN
       IF c = MINUS \/ IsDigit(c) THEN ParseNumber(s, p)
       ELSE IF c = DQ THEN ParseString(s, p)
       ELSE IF c = STAR THEN ParseBin(s, p)
       ELSE IF IsAlpha(c) THEN ParseToken(s, p)
       ELSE Fail

\* ---- keys (4.2.2): lcalpha *( lcalpha / DIGIT / "_" / "-" )
ParseKey(s, p) ==
  IF p > Len(s) \/ ~IsLower(s[p]) THEN [ok |-> FALSE, k |-> <<>>, p |-> 0]
  ELSE LET e == ScanKeyChars(s, p) IN [ok |-> TRUE, k |-> SubSeq(s, p, e - 1), p |-> e]

\* ---- list of lists (4.2.4): inner members separated by ";", inner lists by ","
FailLL == [ok |-> FALSE, v |-> <<>>]
RECURSIVE LLFrom(_, _, _, _)
LLFrom(s, p, top, inner) ==
  IF p > Len(s) THEN FailLL                        \* nothing, or a trailing separator
  ELSE LET it == ParseItem(s, p) IN
       IF ~it.ok THEN FailLL
       ELSE LET q == SkipOWS(s, it.p)
                inner2 == Append(inner, it.v)
            IN IF q > Len(s) THEN [ok |-> TRUE, v |-> Append(top, inner2)]
               ELSE IF s[q] = COMMA THEN LLFrom(s, SkipOWS(s, q + 1), Append(top, inner2), <<>>)
               ELSE IF s[q] = SEMI THEN LLFrom(s, SkipOWS(s, q + 1), top, inner2)
               ELSE FailLL
RefParseLL(s) == LLFrom(s, SkipOWS(s, 1), <<>>, <<>>)

\* ---- parameterised identifier (4.2.6) and list (4.2.5)
FailPI == [ok |-> FALSE, v |-> [label |-> <<>>, params |-> <<>>], p |-> 0]
RECURSIVE ParamsFrom(_, _, _)
ParamsFrom(s, p, acc) ==      \* p is just after the previous element; returns position after trailing OWS
  LET q == SkipOWS(s, p) IN
  IF q > Len(s) \/ s[q] # SEMI THEN [ok |-> TRUE, ps |-> acc, p |-> q]
  ELSE LET k == ParseKey(s, SkipOWS(s, q + 1)) IN
       IF ~k.ok \/ (\E i \in 1..Len(acc) : acc[i].k = k.k) THEN [ok |-> FALSE, ps |-> <<>>, p |-> 0]
       ELSE IF k.p <= Len(s) /\ s[k.p] = EQ
            THEN LET it == ParseItem(s, k.p + 1) IN
                 IF ~it.ok THEN [ok |-> FALSE, ps |-> <<>>, p |-> 0]
                 ELSE ParamsFrom(s, it.p, Append(acc, [k |-> k.k, v |-> it.v]))
            ELSE ParamsFrom(s, k.p, Append(acc, [k |-> k.k, v |-> Item("nil", <<>>)]))
ParsePI(s, p) ==
  LET t == ParseToken(s, p) IN
  IF ~t.ok THEN FailPI
  ELSE LET ps == ParamsFrom(s, t.p, <<>>) IN
       IF ~ps.ok THEN FailPI ELSE [ok |-> TRUE, v |-> [label |-> t.v.v, params |-> ps.ps], p |-> ps.p]

RECURSIVE PLFrom(_, _, _)
PLFrom(s, p, acc) ==
  IF p > Len(s) THEN FailLL
  ELSE LET pi == ParsePI(s, p) IN
       IF ~pi.ok THEN FailLL
       ELSE LET q == pi.p IN          \* OWS already skipped by ParamsFrom
            IF q > Len(s) THEN [ok |-> TRUE, v |-> Append(acc, pi.v)]
            ELSE IF s[q] = COMMA THEN PLFrom(s, SkipOWS(s, q + 1), Append(acc, pi.v))
            ELSE FailLL
RefParsePL(s) == PLFrom(s, SkipOWS(s, 1), <<>>)

-----------------------------------------------------------------------------
\* Validity of values and the canonical serialisation (4.1)
ValidItem(it) ==
  CASE it.t = "int" -> TRUE
    [] it.t = "str" -> \A i \in 1..Len(it.v) : it.v[i] >= 32 /\ it.v[i] <= 126
    [] it.t = "tok" -> Len(it.v) > 0 /\ IsAlpha(it.v[1]) /\ \A i \in 1..Len(it.v) : IsTokenChar(it.v[i])
    [] it.t = "bin" -> TRUE
    [] OTHER -> FALSE                      \* "nil" as a list member, unsupported Go types
ValidKey(k) == Len(k) > 0 /\ IsLower(k[1]) /\ \A i \in 1..Len(k) : IsKeyChar(k[i])
ValidLL(v) == Len(v) > 0 /\ \A i \in 1..Len(v) : Len(v[i]) > 0 /\ \A j \in 1..Len(v[i]) : ValidItem(v[i][j])
ValidPI(pi) == /\ ValidItem(Item("tok", pi.label))
               /\ \A i \in 1..Len(pi.params) : ValidKey(pi.params[i].k) /\ (pi.params[i].v.t = "nil" \/ ValidItem(pi.params[i].v))
               /\ \A i, j \in 1..Len(pi.params) : i < j => pi.params[i].k # pi.params[j].k
ValidPL(v) == Len(v) > 0 /\ \A i \in 1..Len(v) : ValidPI(v[i])
SortedParams(pi) == \A i \in 1..(Len(pi.params) - 1) : BytesLess(pi.params[i].k, pi.params[i + 1].k)

RECURSIVE EscSlow(_)
EscSlow(v) == IF v = <<>> THEN <<>> ELSE (IF v[1] \in {DQ, BSL} THEN <<BSL, v[1]>> ELSE <<v[1]>>) \o EscSlow(Tail(v))
EscStr(v) == IF \A i \in 1..Len(v) : v[i] \notin {DQ, BSL} THEN v ELSE EscSlow(v)
SerItem(it) ==
  CASE it.t = "int" -> it.v
    [] it.t = "str" -> <<DQ>> \o EscStr(it.v) \o <<DQ>>
    [] it.t = "tok" -> it.v
    [] it.t = "bin" -> <<STAR>> \o B64Enc(it.v, FALSE, TRUE) \o <<STAR>>
    [] OTHER -> <<>>
RECURSIVE JoinWith(_, _)
JoinWith(parts, sep) == IF parts = <<>> THEN <<>> ELSE IF Len(parts) = 1 THEN parts[1] ELSE parts[1] \o sep \o JoinWith(Tail(parts), sep)
SerLL(v) == JoinWith([i \in 1..Len(v) |-> JoinWith([j \in 1..Len(v[i]) |-> SerItem(v[i][j])], <<SEMI, SP>>)], <<COMMA, SP>>)
SerParam(pr) == <<SEMI>> \o pr.k \o (IF pr.v.t = "nil" THEN <<>> ELSE <<EQ>> \o SerItem(pr.v))
SerPI(pi) == pi.label \o Concat([i \in 1..Len(pi.params) |-> SerParam(pi.params[i])])
SerPL(v) == JoinWith([i \in 1..Len(v) |-> SerPI(v[i])], <<COMMA, SP>>)

\* The serialisation RELATION the writer must satisfy: the text parses back to the value (whose
\* parameters the harness lists in sorted key order, so equality implies sorted emission).
\* Separator spelling (OWS) is deliberately not fixed.
SerOkLL(v, s) == LET r == RefParseLL(s) IN r.ok /\ r.v = v
SerOkPL(v, s) == LET r == RefParsePL(s) IN r.ok /\ r.v = v
=============================================================================
