------------------------------- MODULE MC_Purity -------------------------------
EXTENDS Purity, Json
\* export every complete schedule for replay on real goroutines
Emit == Done' => PrintT("VEC " \o ToJson([sched |-> sched', n |-> N, steps |-> Steps]))
NextE == Next /\ Emit
SpecE == Init /\ [][NextE]_vars
=============================================================================
