public class VerifOverrides implements tlc2.overrides.ITLCOverrides {
    @SuppressWarnings("rawtypes")
    @Override
    public Class[] get() {
        return new Class[] {VerifCrypto.class};
    }
}
