import java.io.ByteArrayInputStream;
import java.security.KeyFactory;
import java.security.MessageDigest;
import java.security.PublicKey;
import java.security.Signature;
import java.security.cert.CertificateFactory;
import java.security.cert.X509Certificate;
import java.security.interfaces.ECPublicKey;
import java.security.spec.X509EncodedKeySpec;

import tlc2.overrides.TLAPlusOperator;
import tlc2.value.impl.BoolValue;
import tlc2.value.impl.IntValue;
import tlc2.value.impl.TupleValue;
import tlc2.value.impl.Value;

/**
 * Concrete instantiation of tla/Crypto.tla: the primitives are the JDK's
 * (MessageDigest, Signature, CertificateFactory), so that TLC recomputes every
 * digest and checks every signature of an artefact from the logged bytes alone.
 */
public class VerifCrypto {
    static byte[] bytes(Value v) {
        TupleValue t = (TupleValue) v.toTuple();
        if (t == null) throw new RuntimeException("VerifCrypto: argument is not a sequence: " + v);
        byte[] b = new byte[t.size()];
        for (int i = 0; i < b.length; i++) b[i] = (byte) ((IntValue) t.elems[i]).val;
        return b;
    }

    static Value seq(byte[] b) {
        Value[] e = new Value[b.length];
        for (int i = 0; i < b.length; i++) e[i] = IntValue.gen(b[i] & 0xff);
        return new TupleValue(e);
    }

    @TLAPlusOperator(identifier = "SHA256", module = "Crypto", warn = false)
    public static Value sha256(final Value v) throws Exception {
        return seq(MessageDigest.getInstance("SHA-256").digest(bytes(v)));
    }

    @TLAPlusOperator(identifier = "SHA512", module = "Crypto", warn = false)
    public static Value sha512(final Value v) throws Exception {
        return seq(MessageDigest.getInstance("SHA-512").digest(bytes(v)));
    }

    @TLAPlusOperator(identifier = "X509Parses", module = "Crypto", warn = false)
    public static Value x509Parses(final Value der) {
        try {
            CertificateFactory.getInstance("X.509").generateCertificate(new ByteArrayInputStream(bytes(der)));
            return BoolValue.ValTrue;
        } catch (Exception e) {
            return BoolValue.ValFalse;
        }
    }

    /** ECDSA verification under the public key of an X.509 certificate (DER): P-256 -> SHA-256, P-384 -> SHA-384; DER signature, no trailing data. */
    @TLAPlusOperator(identifier = "EcdsaVerifyCert", module = "Crypto", warn = false)
    public static Value ecdsaVerifyCert(final Value der, final Value msg, final Value sig) {
        try {
            X509Certificate c = (X509Certificate) CertificateFactory.getInstance("X.509")
                    .generateCertificate(new ByteArrayInputStream(bytes(der)));
            PublicKey pk = c.getPublicKey();
            if (!(pk instanceof ECPublicKey)) return BoolValue.ValFalse;
            int bits = ((ECPublicKey) pk).getParams().getCurve().getField().getFieldSize();
            String alg = bits == 256 ? "SHA256withECDSA" : bits == 384 ? "SHA384withECDSA" : null;
            if (alg == null) return BoolValue.ValFalse;
            byte[] s = bytes(sig);
            // strict DER: SEQUENCE length must cover the whole signature (no trailing data)
            if (s.length < 2 || s[0] != 0x30) return BoolValue.ValFalse;
            int l = s[1] & 0xff, off = 2;
            if (l == 0x81) { if (s.length < 3) return BoolValue.ValFalse; l = s[2] & 0xff; off = 3; }
            else if (l >= 0x80) return BoolValue.ValFalse;
            if (off + l != s.length) return BoolValue.ValFalse;
            Signature v = Signature.getInstance(alg);
            v.initVerify(pk);
            v.update(bytes(msg));
            return v.verify(s) ? BoolValue.ValTrue : BoolValue.ValFalse;
        } catch (Exception e) {
            return BoolValue.ValFalse;
        }
    }

    /** Ed25519 verification under a raw 32-byte public key. */
    @TLAPlusOperator(identifier = "Ed25519Verify", module = "Crypto", warn = false)
    public static Value ed25519Verify(final Value pk32, final Value msg, final Value sig) {
        try {
            byte[] raw = bytes(pk32);
            if (raw.length != 32) return BoolValue.ValFalse;
            byte[] prefix = new byte[] {0x30, 0x2a, 0x30, 0x05, 0x06, 0x03, 0x2b, 0x65, 0x70, 0x03, 0x21, 0x00};
            byte[] spki = new byte[44];
            System.arraycopy(prefix, 0, spki, 0, 12);
            System.arraycopy(raw, 0, spki, 12, 32);
            PublicKey pk = KeyFactory.getInstance("Ed25519").generatePublic(new X509EncodedKeySpec(spki));
            Signature v = Signature.getInstance("Ed25519");
            v.initVerify(pk);
            v.update(bytes(msg));
            return v.verify(bytes(sig)) ? BoolValue.ValTrue : BoolValue.ValFalse;
        } catch (Exception e) {
            return BoolValue.ValFalse;
        }
    }
}
