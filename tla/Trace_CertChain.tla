--------------------------- MODULE Trace_CertChain ---------------------------
(* Trace validation for package certurl (C17, C10).                          *)
EXTENDS CertChain, Crypto, TLC, Json, IOUtils
Trace == ndJsonDeserialize(IOEnv.VERIF_TRACE)
VARIABLE l
Parses(der) == X509Parses(der)
SameChain(a, b) == Len(a) = Len(b) /\ \A i \in 1..Len(a) :
   a[i].cert = b[i].cert /\ a[i].hasocsp = b[i].hasocsp /\ a[i].hassct = b[i].hassct
   /\ (a[i].hasocsp => a[i].ocsp = b[i].ocsp) /\ (a[i].hassct => a[i].sct = b[i].sct)
Failures(ev) ==
  IF ev.kind = "write" THEN
       (IF ChainValid(ev.chain) = ~ev.err THEN {} ELSE {"validation before write"})
  \cup (IF ev.err \/ ev.out = ChainBytes(ev.chain) THEN {} ELSE {"bytes differ from the specified encoding"})
  \cup (IF ev.err \/ CanonicalItem(ev.out) THEN {} ELSE {"not canonical CBOR"})
  ELSE IF ev.kind = "read" THEN
       \* exact: certificates are intact or plainly not DER, the JDK decides "parses" like any X.509 parser.
       \* Otherwise (random damage inside a certificate, where X.509 parsers legitimately differ) only
       \* soundness is demanded: whatever is accepted is a valid chain holding exactly the bytes of the input.
       LET AnyParses(der) == TRUE
           r == IF ev.exact THEN RefReadChain(ev.bytes, Parses) ELSE RefReadChain(ev.bytes, AnyParses) IN
       (IF ev.panic THEN {"panic"} ELSE {})
  \cup (IF ev.exact /\ r.res = "ok" /\ ev.err THEN {"rejects a valid chain"} ELSE {})
  \cup (IF r.res = "err" /\ ~ev.err THEN {"accepts an invalid chain"} ELSE {})
  \cup (IF r.res = "ok" /\ ~ev.err /\ ~SameChain(r.ch, ev.chain) THEN {"read chain differs from the bytes"} ELSE {})
  ELSE \* "sct"
       (IF SctOk(ev.scts) = ~ev.err THEN {} ELSE {"size limits"})
  \cup (IF ev.err \/ ev.out = SctList(ev.scts) THEN {} ELSE {"SCT list bytes"})
TraceInit == l = 1
TraceNext ==
  /\ l <= Len(Trace)
  /\ l' = l + 1
  /\ LET f == Failures(Trace[l]) IN IF f = {} THEN TRUE ELSE PrintT("REJECT " \o ToJson([case |-> Trace[l].case, why |-> f]))
  /\ IF l = Len(Trace) THEN PrintT("DONE " \o ToString(l)) ELSE TRUE
TraceSpec == TraceInit /\ [][TraceNext]_l
=============================================================================
