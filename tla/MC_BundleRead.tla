----------------------------- MODULE MC_BundleRead -----------------------------
(* C05 (and C10): adversarial bundle files generated from the specification.      *)
(* From each of a few valid bundles TLC derives every single-field replacement of  *)
(* a declared length / offset / count by boundary values (0, exact-1, exact+1,     *)
(* file size, 2^32, 2^63, 2^64-1), sections reordered / duplicated / unknown /      *)
(* missing, wrong counts, and truncation at every offset.  Each state is one file;  *)
(* TLC evaluates its location semantics (Extract) and checks design invariants      *)
(* (stepping over a consistently declared unknown section changes nothing; the      *)
(* unmutated file reads back).  Every file is exported ("VEC") and handed to the    *)
(* real reader; the recorded outcome is judged by Trace_Bundle.                     *)
EXTENDS Bundle, TLC, Json
CONSTANTS Bases       \* which base bundles: subset of 1..4
VARIABLES base, mut, file
vars == <<base, mut, file>>

U1 == <<104,116,116,112,115,58,47,47,97,46,116,101,115,116,47>>
U2 == <<104,116,116,112,115,58,47,47,97,46,116,101,115,116,47,108,111,110,103,101,114>>
VAR1 == <<65,99,99,101,112,116,45,76,97,110,103,117,97,103,101,59,101,110,59,102,114>>
H(n, v) == [n |-> n, vs |-> <<v>>]
CT == H(<<67,111,110,116,101,110,116,45,84,121,112,101>>, <<116,47,112>>)
Body(n) == [i \in 1..n |-> 65 + (i % 26)]
Ex(u, hs, n) == [url |-> u, status |-> 200, hdrs |-> hs, body |-> Body(n)]
B(ver, hp, hm, exs) == [ver |-> ver, hasprimary |-> hp, primary |-> U1, hasmanifest |-> hm, manifest |-> U2, hassigs |-> FALSE, sigs |-> <<>>, exs |-> exs]
BaseBundle(k) ==
  CASE k = 1 -> B("b2", TRUE, FALSE, << Ex(U1, <<CT>>, 5), Ex(U2, <<CT>>, 30) >>)
    [] k = 2 -> B("b1", TRUE, TRUE, << Ex(U2, <<CT>>, 3), Ex(U1, <<H(S_Variants, VAR1), H(S_VariantKey, <<101,110>>)>>, 1),
                                     Ex(U1, <<H(S_Variants, VAR1), H(S_VariantKey, <<102,114>>)>>, 24) >>)
    [] k = 3 -> B("b2", FALSE, FALSE, << Ex(U1, <<>>, 0) >>)
    [] k = 4 -> B("b2", TRUE, FALSE, <<>>)
    [] k = 8 -> B("b2", FALSE, FALSE, << Ex(U1, << H(<<>>, <<118>>), CT, H(<<120,45,112>>, <<32,118,9>>) >>, 5), Ex(U2, <<>>, 0) >>)      \* a header with an empty name, a value with surrounding white space; a response without headers and body
    [] k = 7 -> B("b2", FALSE, FALSE, << Ex(U1, <<CT>>, 300) >>)          \* responses section longer than everything before it
    \* a response whose encoded length is exactly 256 (19 01 00) and a second one starting at offset 256+1: cutting the
    \* last byte(s) of the index leaves an argument whose missing low bytes would read as zero
    [] k = 5 -> LET n == CHOOSE m \in 150..250 : Len(RespItem(Ex(U1, <<CT>>, m))) = 256 IN B("b2", FALSE, FALSE, << Ex(U1, <<CT>>, n) >>)
    [] k = 6 -> LET n == CHOOSE m \in 150..250 : Len(RespItem(Ex(U1, <<CT>>, m))) = 255 IN
                B("b1", TRUE, FALSE, << Ex(U1, <<CT>>, n), Ex(U2, <<CT>>, CHOOSE m \in 150..250 : Len(RespItem(Ex(U2, <<CT>>, m))) = 256) >>)

Big == { U64Zero, U64(1), <<0,0,0,1,0,0,0,0>>, <<127,255,255,255,255,255,255,255>>, <<128,0,0,0,0,0,0,0>>,
         <<255,255,255,255,255,255,255,254>>, <<255,255,255,255,255,255,255,255>> }
Around(n, fsize) == { U64(x) : x \in { y \in {n - 1, n + 1, fsize, fsize - 9, fsize + 1} : y >= 0 } } \cup Big

Counts(n) == { U64(x) : x \in { y \in {n - 1, n + 1, 23, 24, 255, 256, 65535, 65536, 2097152, 2147483647} : y >= 0 /\ y # n } }
             \cup { <<0,0,0,1,0,0,0,0>>, <<64,0,0,0,0,0,0,0>>, <<127,255,255,255,255,255,255,255>>, <<128,0,0,0,0,0,0,0>>, <<255,255,255,255,255,255,255,255>> }
Table(b) == [i \in 1..Len(Sections(b)) |-> [name |-> Sections(b)[i].name, len |-> U64(Len(Sections(b)[i].body))]]
Bodies(b) == [i \in 1..Len(Sections(b)) |-> Sections(b)[i].body]
Build(b, table, cnt, nsec, bodies) == Assemble(b.ver, b.primary, SectionLengthsU(table, cnt), nsec, Concat(bodies))
Plain(b) == Build(b, Table(b), 2 * Len(Table(b)), Len(Table(b)), Bodies(b))
RespLen(b) == Len(ResponsesSection(b.exs))
RespStart(b) == Len(Plain(b)) - 9 - RespLen(b)
WrapKs(b) == { k \in { RespStart(b) + 1, (RespStart(b) + RespLen(b)) \div 2, RespLen(b) } : k > RespStart(b) /\ k <= RespLen(b) }
\* "a1;x;y, a2;x;y, ..." : n axes of two values each
AxesValue(n) == Concat([i \in 1..n |-> (IF i > 1 THEN <<44, 32>> ELSE <<>>) \o <<97>> \o U64ToDec(U64(i)) \o <<59, 120, 59, 121>>])
Unknown(k) == [name |-> <<122,122,122>>, body |-> Rep(k, 0)]
InsAt(s, p, e) == SubSeq(s, 1, p - 1) \o <<e>> \o SubSeq(s, p, Len(s))
RemAt(s, p) == SubSeq(s, 1, p - 1) \o SubSeq(s, p + 1, Len(s))
Swap(s, i, j) == [k \in 1..Len(s) |-> IF k = i THEN s[j] ELSE IF k = j THEN s[i] ELSE s[k]]

\* all mutation descriptors of base bundle b
Muts(b) ==
  LET t == Table(b)  n == Len(t)  fsize == Len(Plain(b))  locs == Locs(b.exs) IN
     { [kind |-> "none", i |-> 0, j |-> 0, v |-> U64Zero] }
  \cup UNION { { [kind |-> "seclen", i |-> i, j |-> 0, v |-> v] : v \in Around(SmallVal(t[i].len), fsize) } : i \in 1..n }
  \cup UNION { { [kind |-> "idxoff", i |-> e, j |-> 0, v |-> v] : v \in Around(locs[e].off, fsize) } : e \in 1..Len(b.exs) }
  \cup UNION { { [kind |-> "idxlen", i |-> e, j |-> 0, v |-> v] : v \in Around(locs[e].len, fsize) } : e \in 1..Len(b.exs) }
  \cup { [kind |-> "idxwrap", i |-> e, j |-> 0, v |-> <<255,255,255,255,255,255,255,255>>] : e \in 1..Len(b.exs) }
  \* offset = 2^64 - k with (bytes before the responses section) < k <= (its length) and a length up to that length:
  \* offset + length wraps to a small number although the start lies far outside
  \cup UNION { UNION { { [kind |-> "idxwrap2", i |-> e, j |-> k, v |-> U64(ln)] : ln \in {k, RespLen(b)} } : k \in WrapKs(b) } : e \in 1..Len(b.exs) }
  \* offset = 2^64 - k where the k bytes in FRONT of the responses section are a well-formed response item (hidden in an unknown
  \* section): a reader that adds the offset to the section's start lets the sum wrap back into the file; length = k or k + (first
  \* bytes of the responses section)
  \cup { [kind |-> "wrapback", i |-> e, j |-> d, v |-> U64Zero] : e \in 1..Len(b.exs), d \in {0, 1} }
  \* two index entries naming the SAME offset with different lengths (d = length delta of the aliasing entry)
  \cup { [kind |-> "idxalias", i |-> e, j |-> e2, v |-> U64(d)] : e \in 1..Len(b.exs), e2 \in 1..Len(b.exs), d \in {0, 1, 2} }
  \cup { [kind |-> "swap", i |-> i, j |-> j, v |-> U64Zero] : i \in 1..n, j \in 1..n }
  \cup { [kind |-> "dupname", i |-> i, j |-> j, v |-> U64Zero] : i \in 1..n, j \in 1..n }
  \cup { [kind |-> "unknown", i |-> p, j |-> k, v |-> U64Zero] : p \in 1..n, k \in {0, 1, 7} }
  \* b1: an index entry whose variants-value has so many axes that the number of possible keys leaves 64 bits
  \* (2^62, 2^63, 2^64, 2^70) or just exceeds the cap (2^14), followed by no location at all or by one
  \cup (IF b.ver = "b1" THEN { [kind |-> "manyaxes", i |-> ax, j |-> np, v |-> U64Zero] : ax \in {13, 14, 62, 63, 64, 70}, np \in {0, 1} } ELSE {})
  \* the section-lengths byte string padded (by an unknown empty section with a long name) to 8190..8193 bytes: the format
  \* caps it below 8192
  \cup { [kind |-> "slsize", i |-> tgt, j |-> 0, v |-> U64Zero] : tgt \in {8190, 8191, 8192, 8193} }
  \* a section the writer never emits for this version ("manifest" in b2, "primary" in b1), holding a URL,
  \* at every position: whatever the reader makes of it, the sections after it stay where the lengths put them
  \cup { [kind |-> "foreign", i |-> p, j |-> 0, v |-> U64Zero] : p \in 1..n }
  \cup { [kind |-> "unknownlast", i |-> 0, j |-> 3, v |-> U64Zero] }
  \cup { [kind |-> "missing", i |-> i, j |-> 0, v |-> U64Zero] : i \in 1..n }
  \* two edits at once: one section absent AND the declared length of another one replaced (a check that lives in the
  \* handling of one section must not be the only guard of another section's bounds)
  \cup UNION { UNION { { [kind |-> "missinglen", i |-> i, j |-> j, v |-> v] : v \in Around(SmallVal(t[j].len), fsize) } : j \in (1..n) \ {i} } : i \in 1..n }
  \cup { [kind |-> "nsec", i |-> d, j |-> 0, v |-> U64Zero] : d \in {n - 1, n + 1, 0} }
  \cup { [kind |-> "slcount", i |-> d, j |-> 0, v |-> U64Zero] : d \in {2 * n - 1, 2 * n + 1, 2 * n + 2, 0} }
  \cup { [kind |-> "trunc", i |-> c, j |-> 0, v |-> U64Zero] : c \in 0..(fsize - 1) }
  \* a section cut short by k bytes with the table adjusted consistently: the CBOR nested in the section ends inside an item
  \cup { [kind |-> "sectrunc", i |-> i, j |-> k, v |-> U64Zero] : i \in 1..n, k \in 1..3 }
  \* declared COUNTS: the index map header and the responses array header replaced by boundary values
  \cup { [kind |-> "idxcount", i |-> 0, j |-> 0, v |-> v] : v \in Counts(Len(Urls(b.exs))) }
  \cup { [kind |-> "respcount", i |-> 0, j |-> 0, v |-> v] : v \in Counts(Len(b.exs)) }
  \* pair: the number of index entries AND the declared length of the responses section replaced together (a reader that
  \* bounds what it prepares for one declared value by ANOTHER declared value has bounded it by nothing); j = 1: the file
  \* also ends right behind the index head
  \cup { [kind |-> "cntlen", i |-> 0, j |-> j, v |-> v] : j \in {0, 1},
         v \in { <<0,0,0,0,0,16,0,0>>, <<0,0,0,0,8,0,0,0>>, <<0,0,0,1,0,0,0,0>>, <<64,0,0,0,0,0,0,0>>, <<127,255,255,255,255,255,255,255>>, <<255,255,255,255,255,255,255,255>> } }
  \* the same for the section-lengths byte string itself (its byte-string head adjusted)
  \cup { [kind |-> "sltrunc", i |-> 0, j |-> k, v |-> U64Zero] : k \in 1..3 }

Apply(b, m) ==
  LET t == Table(b)  bd == Bodies(b)  n == Len(t) IN
  CASE m.kind = "none" -> Plain(b)
    [] m.kind = "seclen" -> Build(b, [t EXCEPT ![m.i].len = m.v], 2 * n, n, bd)
    [] m.kind \in {"idxoff", "idxlen", "idxwrap"} ->
         LET l == Locs(b.exs)[m.i]
             ov == IF m.kind = "idxoff" THEN [e |-> m.i, off |-> m.v, len |-> U64(l.len)]
                   ELSE IF m.kind = "idxlen" THEN [e |-> m.i, off |-> U64(l.off), len |-> m.v]
                   ELSE [e |-> m.i, off |-> m.v, len |-> U64(2)]        \* offset + length wraps around 2^64
             ix == IndexSectionO(b, ov)
         IN Build(b, [t EXCEPT ![1].len = U64(Len(ix))], 2 * n, n, [bd EXCEPT ![1] = ix])
    [] m.kind = "idxwrap2" ->
         LET ix == IndexSectionO(b, [e |-> m.i, off |-> U64Sub(<<255,255,255,255,255,255,255,255>>, U64(m.j - 1)), len |-> m.v])
         IN Build(b, [t EXCEPT ![1].len = U64(Len(ix))], 2 * n, n, [bd EXCEPT ![1] = ix])
    [] m.kind = "wrapback" ->
         LET hidden == RespItem(Ex(U2, <<CT>>, 7))
             k == Len(hidden)
             ix == IndexSectionO(b, [e |-> m.i, off |-> U64Sub(<<255,255,255,255,255,255,255,255>>, U64(k - 1)), len |-> U64(k + m.j)])
             t2 == InsAt([t EXCEPT ![1].len = U64(Len(ix))], n, [name |-> Unknown(0).name, len |-> U64(k)])
         IN Build(b, t2, 2 * n + 2, n + 1, InsAt([bd EXCEPT ![1] = ix], n, hidden))
    [] m.kind = "idxalias" ->
         LET l2 == Locs(b.exs)[m.j]
             d == SmallVal(m.v)
             ln == IF d = 0 THEN l2.len ELSE IF d = 1 THEN l2.len - 1 ELSE l2.len + 1
             ix == IndexSectionO(b, [e |-> m.i, off |-> U64(l2.off), len |-> U64(IF ln < 0 THEN 0 ELSE ln)])
         IN Build(b, [t EXCEPT ![1].len = U64(Len(ix))], 2 * n, n, [bd EXCEPT ![1] = ix])
    [] m.kind = "swap" -> Build(b, Swap(t, m.i, m.j), 2 * n, n, Swap(bd, m.i, m.j))
    [] m.kind = "dupname" -> Build(b, [t EXCEPT ![m.i].name = t[m.j].name], 2 * n, n, bd)
    [] m.kind = "unknown" -> Build(b, InsAt(t, m.i, [name |-> Unknown(m.j).name, len |-> U64(m.j)]), 2 * n + 2, n + 1, InsAt(bd, m.i, Unknown(m.j).body))
    [] m.kind = "slsize" ->
         \* 2 * (n + 1) < 24 items: one-byte array head; name of L >= 256 bytes: three-byte text head; length 0: one byte
         LET slb == Len(SectionLengthsU(t, 2 * n))
             L == m.i - slb - 3 - 1
             nm == Rep(L, 122)
         IN Build(b, InsAt(t, 1, [name |-> nm, len |-> U64Zero]), 2 * n + 2, n + 1, InsAt(bd, 1, <<>>))
    [] m.kind = "manyaxes" ->
         LET vv == AxesValue(m.i)
             ix == EncMap(<< [k |-> EncText(b.exs[1].url), v |-> EncArrayHdr(1 + 2 * m.j) \o EncBytes(vv) \o (IF m.j = 1 THEN EncUint(U64Zero) \o EncUint(U64(1)) ELSE <<>>)] >>)
         IN Build(b, [t EXCEPT ![1].len = U64(Len(ix))], 2 * n, n, [bd EXCEPT ![1] = ix])
    [] m.kind = "foreign" ->
         LET nm == IF b.ver = "b2" THEN S_manifest ELSE S_primary
             body == EncText(<<104,116,116,112,115,58,47,47,97,46,116,101,115,116,47,109>>)       \* https://a.test/m
         IN IF \E i \in 1..n : t[i].name = nm THEN Plain(b)
            ELSE Build(b, InsAt(t, m.i, [name |-> nm, len |-> U64(Len(body))]), 2 * n + 2, n + 1, InsAt(bd, m.i, body))
    [] m.kind = "unknownlast" -> Build(b, Append(t, [name |-> Unknown(3).name, len |-> U64(3)]), 2 * n + 2, n + 1, Append(bd, Unknown(3).body))
    [] m.kind = "missing" -> Build(b, RemAt(t, m.i), 2 * n - 2, n - 1, RemAt(bd, m.i))
    [] m.kind = "missinglen" -> LET jj == IF m.j > m.i THEN m.j - 1 ELSE m.j IN
                                 Build(b, [RemAt(t, m.i) EXCEPT ![jj].len = m.v], 2 * n - 2, n - 1, RemAt(bd, m.i))
    [] m.kind = "nsec" -> Build(b, t, 2 * n, m.i, bd)
    [] m.kind = "slcount" -> Build(b, t, m.i, n, bd)
    [] m.kind = "trunc" -> SubSeq(Plain(b), 1, m.i)
    [] m.kind = "idxcount" ->
         LET ix0 == bd[1]
             ix == EncHead(5, m.v) \o SubSeq(ix0, Len(EncMapHdr(Len(Urls(b.exs)))) + 1, Len(ix0))
         IN Build(b, [t EXCEPT ![1].len = U64(Len(ix))], 2 * n, n, [bd EXCEPT ![1] = ix])
    [] m.kind = "cntlen" ->
         LET ix0 == bd[1]
             ix == EncHead(5, m.v) \o (IF m.j = 1 THEN <<>> ELSE SubSeq(ix0, Len(EncMapHdr(Len(Urls(b.exs)))) + 1, Len(ix0)))
             f == Build(b, [t EXCEPT ![1].len = U64(Len(ix)), ![n].len = m.v], 2 * n, n, [bd EXCEPT ![1] = ix])
         IN IF m.j = 1 THEN SubSeq(f, 1, Len(f) - Len(Concat(SubSeq(bd, 2, n))) - 9) ELSE f
    [] m.kind = "respcount" ->
         LET r0 == bd[n]
             r == EncHead(4, m.v) \o SubSeq(r0, Len(EncArrayHdr(Len(b.exs))) + 1, Len(r0))
         IN Build(b, [t EXCEPT ![n].len = U64(Len(r))], 2 * n, n, [bd EXCEPT ![n] = r])
    [] m.kind = "sectrunc" -> LET cut == IF Len(bd[m.i]) >= m.j THEN SubSeq(bd[m.i], 1, Len(bd[m.i]) - m.j) ELSE <<>> IN
                               Build(b, [t EXCEPT ![m.i].len = U64(Len(cut))], 2 * n, n, [bd EXCEPT ![m.i] = cut])
    [] m.kind = "sltrunc" -> LET sl == SectionLengthsU(t, 2 * n) IN
                              Assemble(b.ver, b.primary, SubSeq(sl, 1, Len(sl) - m.j), n, Concat(bd))

Init == base \in Bases /\ mut = [kind |-> "init", i |-> 0, j |-> 0, v |-> U64Zero] /\ file = <<>>
Next == /\ mut.kind = "init"
        /\ base' = base
        /\ mut' \in Muts(BaseBundle(base))
        /\ file' = Apply(BaseBundle(base), mut')
        /\ PrintT("VEC " \o ToJson([file |-> file', note |-> mut'.kind, base |-> base, res |-> Extract(file').res]))
Spec == Init /\ [][Next]_vars

X == Extract(file)
UnmutatedReads == mut.kind = "none" => X.res = "ok" /\ X.exs = ExpectedRead(BaseBundle(base))
\* a reader that keeps its place steps over an unknown section declared consistently before "responses"
UnknownSkipped == mut.kind = "unknown" => X.res = "ok" /\ X.exs = ExpectedRead(BaseBundle(base))
\* declared lengths pointing outside the file, wrapping offsets, responses not last, duplicates: refused
OutOfBoundsRefused ==
  /\ mut.kind \in {"idxwrap", "idxwrap2", "wrapback", "dupname", "unknownlast", "manyaxes"} => (X.res = "err" \/ (mut.kind = "dupname" /\ mut.i = mut.j))
  /\ (mut.kind = "seclen" /\ ~IsSmall(mut.v)) => X.res = "err"
  /\ (mut.kind \in {"idxoff", "idxlen"} /\ ~IsSmall(mut.v)) => X.res = "err"
  /\ mut.kind = "cntlen" => X.res = "err"
\* whatever is extracted comes from the file: never more exchanges than index locations, never content of another base
Bounded == X.res = "ok" => \A i \in 1..Len(X.exs) : Len(X.exs[i].body) <= Len(file)
=============================================================================
