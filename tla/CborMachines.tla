---------------------------- MODULE CborMachines ----------------------------
(***************************************************************************)
(* The encoder (C11) and decoder (C12) of go/internal/cbor as machines.    *)
(* A call record has the uniform shape                                     *)
(*   [op, a (U64), neg, s (bytes), v (BOOLEAN), es (entries), err, out|val, rest] *)
(* so that the same operators judge TLC-generated calls and recorded ones. *)
(***************************************************************************)
EXTENDS Cbor

-----------------------------------------------------------------------------
\* Encoder.  ops: "uint","int","bytes","text","arr","bool","map"
\* "int": value is a (neg = FALSE) or -1 - a (neg = TRUE), a <= 2^63 - 1
EncSpecOut(c) ==
  CASE c.op = "uint" -> EncUint(c.a)
    [] c.op = "int" -> IF c.neg THEN EncNint(c.a) ELSE EncUint(c.a)
    [] c.op = "bytes" -> EncBytes(c.s)
    [] c.op = "text" -> EncText(c.s)
    [] c.op = "arr" -> EncHead(4, c.a)
    [] c.op = "bool" -> EncBool(c.v)
    [] c.op = "map" -> EncMap(c.es)

EncSpecErr(c) == \/ c.op = "text" /\ ~Utf8Valid(c.s)
                 \/ c.op = "map" /\ HasDupKey(c.es)

\* is (err, out) an admissible result of call c ?  (out = bytes appended by this call)
\* A refused text string writes nothing.  A refused map (equal keys) may already have
\* written any prefix of the canonical emission (header, then sorted entries) - the
\* property only demands the refusal.
EncCallOk(c, err, out) ==
  IF EncSpecErr(c)
  THEN /\ err
       /\ c.op = "text" => out = <<>>
       /\ c.op = "map" => IsPrefixB(out, EncSpecOut(c))
  ELSE ~err /\ out = EncSpecOut(c)

\* Independent decoding of a byte string into its token stream (heads with string
\* content): what "an independent decoder maps back to" for C11.
Tok(t, a, d) == [t |-> t, a |-> a, d |-> d]
RECURSIVE TokFrom(_, _)
TokFrom(b, p) ==
  IF p > Len(b) THEN <<>>
  ELSE LET h == HeadAt(b, p) IN
       IF ~h.ok THEN << Tok("bad", U64Zero, <<>>) >>
       ELSE CASE h.mt = 0 -> << Tok("uint", h.arg, <<>>) >> \o TokFrom(b, h.next)
              [] h.mt = 1 -> << Tok("nint", h.arg, <<>>) >> \o TokFrom(b, h.next)
              [] h.mt \in {2, 3} ->
                   IF Fits(b, h.next, h.arg)
                   THEN << Tok(IF h.mt = 2 THEN "bytes" ELSE "text", h.arg, Sub(b, h.next, SmallVal(h.arg))) >>
                        \o TokFrom(b, h.next + SmallVal(h.arg))
                   ELSE << Tok("bad", U64Zero, <<>>) >>
              [] h.mt = 4 -> << Tok("array", h.arg, <<>>) >> \o TokFrom(b, h.next)
              [] h.mt = 5 -> << Tok("map", h.arg, <<>>) >> \o TokFrom(b, h.next)
              [] h.mt = 7 /\ h.ai \in {20, 21} -> << Tok("bool", U64(h.ai - 20), <<>>) >> \o TokFrom(b, h.next)
              [] OTHER -> << Tok("bad", U64Zero, <<>>) >>
Tokens(b) == TokFrom(b, 1)

RECURSIVE EntryTokens(_)
EntryTokens(es) == IF es = <<>> THEN <<>> ELSE Tokens(es[1].k) \o Tokens(es[1].v) \o EntryTokens(Tail(es))

\* the values a successful call puts on the wire, derived from its ARGUMENTS
CallTokens(c) ==
  CASE c.op = "uint" -> << Tok("uint", c.a, <<>>) >>
    [] c.op = "int" -> << Tok(IF c.neg THEN "nint" ELSE "uint", c.a, <<>>) >>
    [] c.op = "bytes" -> << Tok("bytes", U64(Len(c.s)), c.s) >>
    [] c.op = "text" -> << Tok("text", U64(Len(c.s)), c.s) >>
    [] c.op = "arr" -> << Tok("array", c.a, <<>>) >>
    [] c.op = "bool" -> << Tok("bool", U64(IF c.v THEN 1 ELSE 0), <<>>) >>
    [] c.op = "map" -> << Tok("map", U64(Len(c.es)), <<>>) >> \o EntryTokens(SortEntries(c.es))

\* every head of b is in shortest form (b tokenizes without "bad")
RECURSIVE ShortestFrom(_, _)
ShortestFrom(b, p) ==
  IF p > Len(b) THEN TRUE
  ELSE LET h == HeadAt(b, p) IN
       /\ h.ok
       /\ h.mt = 7 \/ Shortest(h)
       /\ IF h.mt \in {2, 3} THEN Fits(b, h.next, h.arg) /\ ShortestFrom(b, h.next + SmallVal(h.arg))
          ELSE ShortestFrom(b, h.next)
AllHeadsShortest(b) == ShortestFrom(b, 1)

-----------------------------------------------------------------------------
\* Decoder.  ops: "uint","arr","map","bytes","text","byte"; state = position in the input.
\* Result record: [err, a (U64 value for uint/arr/map/byte), s (bytes for bytes/text), pos (position after the call)]
DecWant(op) == CASE op = "uint" -> 0 [] op = "arr" -> 4 [] op = "map" -> 5 [] op = "bytes" -> 2 [] op = "text" -> 3 [] OTHER -> -1

\* does the call succeed, per RFC 8949: a complete, well-formed, definite-length item head of
\* the requested major type (strings: content fully present; text: valid UTF-8)
DecSucceeds(in, pos, op) ==
  IF op = "byte" THEN pos <= Len(in)
  ELSE LET h == HeadAt(in, pos) IN
       /\ h.ok /\ h.mt = DecWant(op)
       /\ op \in {"bytes", "text"} => Fits(in, h.next, h.arg)
       /\ op = "text" => Utf8Valid(Sub(in, h.next, SmallVal(h.arg)))

DecValue(in, pos, op) ==
  IF op = "byte" THEN [a |-> U64(in[pos]), s |-> <<>>, pos |-> pos + 1]
  ELSE LET h == HeadAt(in, pos) IN
       IF op \in {"bytes", "text"}
       THEN [a |-> U64Zero, s |-> Sub(in, h.next, SmallVal(h.arg)), pos |-> h.next + SmallVal(h.arg)]
       ELSE [a |-> h.arg, s |-> <<>>, pos |-> h.next]

\* is the observed result r = [err, a, s, pos] admissible for the call at position pos ?
\* On error nothing is claimed about the amount consumed except that the cursor stays in range.
DecCallOk(in, pos, op, r) ==
  IF DecSucceeds(in, pos, op)
  THEN LET v == DecValue(in, pos, op) IN ~r.err /\ r.a = v.a /\ r.s = v.s /\ r.pos = v.pos
  ELSE r.err /\ r.pos >= pos /\ r.pos <= Len(in) + 1
=============================================================================
