-------------------------- MODULE Trace_ReaderFaults --------------------------
(* Trace validation for the reader side (ReaderFaults.tla).  One event = one      *)
(* real parser run over one input delivered under one schedule, next to the run   *)
(* over the contiguous, fault-free delivery of the same input:                    *)
(*   parser, L, sch = [pat, end, k], consumed / probed (of the contiguous run),   *)
(*   contig / sched : outcome summaries ("err" = any error; otherwise a digest of *)
(*                    the returned value),  panic,                                *)
(*   deliv / cprefix: streaming decoders - digest of the bytes delivered under    *)
(*                    the schedule / of the equally long prefix of the contiguous *)
(*                    delivery,                                                   *)
(*   ccalls, cends, scalls: accessor sequences (CBOR decoder) - outcome of each   *)
(*                    call and the source position after it in the contiguous run *)
(* The harness runs and projects; the verdict is formed here.                     *)
EXTENDS ReaderFaults, TLC, Json, IOUtils
Trace == ndJsonDeserialize(IOEnv.VERIF_TRACE)
VARIABLE l

Failing(sch) == sch.end \in {"err", "errdata"}
\* a sequence of accessor calls: every call the failure cannot reach behaves as in the contiguous run;
\* the first call that needs a byte beyond k returns the same or an error; later calls are not constrained
\* a passing failure (transient / eofmore) met between two calls - the call that met it consumed nothing and was repeated
\* by the harness - leaves no trace at all
AtCallBoundary(ev) == ev.sch.k = 0 \/ \E j \in 1..Len(ev.cends) : ev.cends[j] = ev.sch.k
SeqOk(ev) ==
  IF Passing(ev.sch) /\ AtCallBoundary(ev) THEN ev.scalls = ev.ccalls ELSE
  /\ Len(ev.scalls) = Len(ev.ccalls)
  /\ \A i \in 1..Len(ev.ccalls) :
       LET clear(n) == \A j \in 1..n : ev.cends[j] <= ev.sch.k IN
       IF ~(Failing(ev.sch) \/ Passing(ev.sch)) \/ clear(i) THEN ev.scalls[i] = ev.ccalls[i]
       ELSE IF clear(i - 1) THEN ev.scalls[i] \in {ev.ccalls[i], "err"}
       ELSE TRUE

Verdict(ev) ==
  IF ev.panic THEN "panic"
  ELSE IF ev.parser = "cbor" THEN (IF SeqOk(ev) THEN "ok" ELSE "a call returns something the stream does not hold")
  ELSE IF ~OutcomeOk(ev.sch, ev.L, ev.consumed, ev.probed, ev.contig, ev.sched) THEN "outcome depends on how the source delivers the bytes"
  ELSE IF ev.parser = "mice" /\ ev.deliv # ev.cprefix THEN "delivers bytes the contiguous run does not deliver"
  ELSE IF ev.parser = "mice" /\ Observed(ev.sch, ev.L, ev.consumed, ev.probed) /\ ev.sched # "err" THEN "source failure reported as a clean end"
  ELSE "ok"

TraceInit == l = 1
TraceNext ==
  /\ l <= Len(Trace)
  /\ l' = l + 1
  /\ LET v == Verdict(Trace[l]) IN
     IF v = "ok" THEN TRUE ELSE PrintT("REJECT " \o ToJson([case |-> Trace[l].case, why |-> v]))
  /\ IF l = Len(Trace) THEN PrintT("DONE " \o ToString(l)) ELSE TRUE
TraceSpec == TraceInit /\ [][TraceNext]_l
=============================================================================
