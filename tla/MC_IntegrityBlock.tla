--------------------------- MODULE MC_IntegrityBlock ---------------------------
(* C07 at design level, abstract crypto: the integrity-block signer as a machine. *)
(* Files of five shapes (trailing length = size, > size, < size i.e. a block is    *)
(* already present, shorter than 8 bytes), up to MaxOps signing operations with    *)
(* strategies Match / WrongKey / Garbage over two key pairs and attribute maps     *)
(* with extra entries.  Sig(k, d) is a term that verifies under k' over d' iff      *)
(* k = k' and d = d'.  Data to be signed = <<hash of file, block before, attrs>>.   *)
EXTENDS Integers, Sequences, FiniteSets, TLC
CONSTANTS MaxOps
VARIABLES shape, stack, ops, out, refused
vars == <<shape, stack, ops, out, refused>>
Shapes == {"exact", "bigger", "smaller", "short", "exact2"}
Keys == {"k1", "k2"}
Attrs == {"plain", "extra"}                    \* attribute map: the public key alone / plus an extra entry
Strats == {"match", "wrongkey", "garbage"}
Unsigned(s) == s \in {"exact", "exact2"}
Sig(k, d) == [k |-> k, d |-> d]
DTBS(f, block, key, attrs) == <<f, block, key, attrs>>
Block(st) == st                                  \* the serialised block is determined by the stack
Init == shape \in Shapes /\ stack = <<>> /\ ops = <<>> /\ out = <<>> /\ refused = FALSE
Other(k) == IF k = "k1" THEN "k2" ELSE "k1"
Sign == /\ Unsigned(shape) /\ Len(ops) < MaxOps
        /\ \E k \in Keys, a \in Attrs, s \in Strats :
             LET d == DTBS(shape, Block(stack), k, a)
                 sig == CASE s = "match" -> Sig(k, d) [] s = "wrongkey" -> Sig(Other(k), d) [] OTHER -> Sig(k, <<"garbage">>)
                 verifies == sig = Sig(k, d)          \* post-signing verification under the key about to be recorded
             IN /\ ops' = Append(ops, [k |-> k, a |-> a, s |-> s])
                /\ stack' = IF verifies THEN <<[k |-> k, a |-> a, sig |-> sig]>> \o stack ELSE stack
                /\ out' = IF verifies THEN <<Block(stack'), shape>> ELSE out
        /\ UNCHANGED <<shape, refused>>
Refuse == ~Unsigned(shape) /\ ~refused /\ refused' = TRUE /\ UNCHANGED <<shape, stack, ops, out>>
Next == Sign \/ Refuse
Spec == Init /\ [][Next]_vars
\* every listed signature verifies under its own key over the data built from the block as it stood before it
StackVerifies == \A i \in 1..Len(stack) : stack[i].sig = Sig(stack[i].k, DTBS(shape, Block(SubSeq(stack, i + 1, Len(stack))), stack[i].k, stack[i].a))
GoodOps == SelectSeq(ops, LAMBDA o : o.s = "match")
NewestFirst == Len(stack) = Len(GoodOps) /\ \A i \in 1..Len(stack) : stack[i].k = GoodOps[Len(GoodOps) + 1 - i].k /\ stack[i].a = GoodOps[Len(GoodOps) + 1 - i].a
OutputShape == out # <<>> => out = <<Block(stack), shape>>
NothingOnMismatch == ~Unsigned(shape) => stack = <<>> /\ out = <<>>
=============================================================================
