---------------------------- MODULE Trace_CborDet ----------------------------
(* Trace validation for cbor.Deterministic (C13, C10): each line is one call  *)
(* {in, verdict}.  The call is a behaviour of the specification iff the       *)
(* verdict is "nil" exactly when CoreDeterministic(in); "error" and "panic"   *)
(* are both a refusal (the function panics deliberately on truncated input),  *)
(* "timeout" is never admissible.                                             *)
EXTENDS Cbor, TLC, Json, IOUtils
Trace == ndJsonDeserialize(IOEnv.VERIF_TRACE)
VARIABLE l

Judge(ev) ==
  LET spec == CoreDeterministic(ev.in) IN
  /\ ev.verdict \in {"nil", "error", "panic"}
  /\ (ev.verdict = "nil") = spec
  /\ (ev.enc => spec)        \* everything the real encoder emitted in the subset is deterministic

TraceInit == l = 1
TraceNext ==
  /\ l <= Len(Trace)
  /\ l' = l + 1
  /\ IF Judge(Trace[l]) THEN TRUE
     ELSE PrintT("REJECT " \o ToJson([line |-> l, case |-> Trace[l].case, spec |-> CoreDeterministic(Trace[l].in)]))
  /\ IF l = Len(Trace) THEN PrintT("DONE " \o ToString(l)) ELSE TRUE
TraceSpec == TraceInit /\ [][TraceNext]_l
=============================================================================
