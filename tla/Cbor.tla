-------------------------------- MODULE Cbor --------------------------------
(***************************************************************************)
(* RFC 8949 subset used by WICG/webpackage, written from the RFC text:     *)
(*  - heads (section 3): initial byte = major type * 32 + additional info; *)
(*    ai < 24 immediate, 24/25/26/27 = 1/2/4/8 follow bytes big-endian,    *)
(*    28..30 reserved, 31 indefinite / break                               *)
(*  - well-formedness (appendix C), definite lengths only                  *)
(*  - core deterministic encoding (section 4.2.1): shortest heads, map     *)
(*    keys strictly ascending in bytewise order of their encodings         *)
(* Arguments are U64 tuples (see Bytes).  Positions are 1-based; "end"     *)
(* positions are the position of the first byte after the item; -1 = no    *)
(* such item.                                                              *)
(***************************************************************************)
EXTENDS Bytes

Mt(ib) == ib \div 32
Ai(ib) == ib % 32
NFollow(ai) == CASE ai < 24 -> 0 [] ai = 24 -> 1 [] ai = 25 -> 2 [] ai = 26 -> 4 [] ai = 27 -> 8 [] OTHER -> -1

BadHead == [ok |-> FALSE, mt |-> 0, ai |-> 0, arg |-> U64Zero, next |-> 0]

\* The head starting at position p of b (definite heads only: ai <= 27)
HeadAt(b, p) ==
  IF p < 1 \/ p > Len(b) THEN BadHead
  ELSE LET ib == b[p]
           nf == NFollow(Ai(ib))
       IN IF nf < 0 \/ p + nf > Len(b) THEN BadHead
          ELSE [ok |-> TRUE, mt |-> Mt(ib), ai |-> Ai(ib),
                arg |-> IF nf = 0 THEN Pad8(<<Ai(ib)>>) ELSE Pad8(SubSeq(b, p + 1, p + nf)),
                next |-> p + nf + 1]

\* section 4.2.1: "the argument is encoded in the shortest form"
Shortest(h) ==
  CASE h.ai < 24 -> TRUE
    [] h.ai = 24 -> h.arg[8] >= 24
    [] h.ai = 25 -> h.arg[7] # 0
    [] h.ai = 26 -> h.arg[5] # 0 \/ h.arg[6] # 0
    [] h.ai = 27 -> h.arg[1] # 0 \/ h.arg[2] # 0 \/ h.arg[3] # 0 \/ h.arg[4] # 0
    [] OTHER -> FALSE

\* Does a declared byte length `arg` fit in b starting at position q ?
Fits(b, q, arg) == IsSmall(arg) /\ SmallVal(arg) <= Len(b) - q + 1

-----------------------------------------------------------------------------
\* Generic well-formedness (all eight major types, definite lengths)
RECURSIVE WfEnd(_, _), WfItems(_, _, _)
WfEnd(b, p) ==
  LET h == HeadAt(b, p) IN
  IF ~h.ok THEN -1
  ELSE CASE h.mt \in {0, 1} -> h.next
         [] h.mt \in {2, 3} -> IF Fits(b, h.next, h.arg) THEN h.next + SmallVal(h.arg) ELSE -1
         [] h.mt = 4 -> IF Fits(b, h.next, h.arg) THEN WfItems(b, h.next, SmallVal(h.arg)) ELSE -1
         [] h.mt = 5 -> IF Fits(b, h.next, h.arg) /\ 2 * SmallVal(h.arg) <= Len(b) - h.next + 1
                        THEN WfItems(b, h.next, 2 * SmallVal(h.arg)) ELSE -1
         [] h.mt = 6 -> WfEnd(b, h.next)
         [] h.mt = 7 -> IF h.ai = 24 /\ h.arg[8] < 32 THEN -1 ELSE h.next
WfItems(b, p, n) ==
  IF n = 0 THEN p
  ELSE LET e == WfEnd(b, p) IN IF e < 0 THEN -1 ELSE WfItems(b, e, n - 1)

RECURSIVE WfSeqFrom(_, _)
WfSeqFrom(b, p) == IF p = Len(b) + 1 THEN TRUE
                   ELSE LET e == WfEnd(b, p) IN e > 0 /\ WfSeqFrom(b, e)
WellFormedSeq(b) == WfSeqFrom(b, 1)

-----------------------------------------------------------------------------
\* Core deterministic form over the subset {uint, bstr, tstr, array, map}
RECURSIVE DetEnd(_, _), DetItems(_, _, _), DetPairs(_, _, _, _)
DetEnd(b, p) ==
  LET h == HeadAt(b, p) IN
  IF ~h.ok \/ ~Shortest(h) THEN -1
  ELSE CASE h.mt = 0 -> h.next
         [] h.mt \in {2, 3} -> IF Fits(b, h.next, h.arg) THEN h.next + SmallVal(h.arg) ELSE -1
         [] h.mt = 4 -> IF Fits(b, h.next, h.arg) THEN DetItems(b, h.next, SmallVal(h.arg)) ELSE -1
         [] h.mt = 5 -> IF Fits(b, h.next, h.arg) THEN DetPairs(b, h.next, SmallVal(h.arg), <<>>) ELSE -1
         [] OTHER -> -1
DetItems(b, p, n) ==
  IF n = 0 THEN p
  ELSE LET e == DetEnd(b, p) IN IF e < 0 THEN -1 ELSE DetItems(b, e, n - 1)
\* lastKey = <<>> before the first key (every encoded key is non-empty, hence greater)
DetPairs(b, p, n, lastKey) ==
  IF n = 0 THEN p
  ELSE LET ke == DetEnd(b, p) IN
       IF ke < 0 THEN -1
       ELSE LET key == SubSeq(b, p, ke - 1)
                ve == DetEnd(b, ke)
            IN IF ~BytesLess(lastKey, key) \/ ve < 0 THEN -1
               ELSE DetPairs(b, ve, n - 1, key)

RECURSIVE DetSeqFrom(_, _)
DetSeqFrom(b, p) == IF p = Len(b) + 1 THEN TRUE
                    ELSE LET e == DetEnd(b, p) IN e > 0 /\ DetSeqFrom(b, e)
\* The declarative predicate C13 is about
CoreDeterministic(b) == DetSeqFrom(b, 1)

\* Deterministic form including negative integers and simple values false/true, the
\* full item set the encoder can emit (used for C11 / C04 / C17 canonical-form checks)
RECURSIVE DetEndX(_, _), DetItemsX(_, _, _), DetPairsX(_, _, _, _)
DetEndX(b, p) ==
  LET h == HeadAt(b, p) IN
  IF ~h.ok \/ ~Shortest(h) THEN -1
  ELSE CASE h.mt \in {0, 1} -> h.next
         [] h.mt \in {2, 3} -> IF Fits(b, h.next, h.arg) THEN h.next + SmallVal(h.arg) ELSE -1
         [] h.mt = 4 -> IF Fits(b, h.next, h.arg) THEN DetItemsX(b, h.next, SmallVal(h.arg)) ELSE -1
         [] h.mt = 5 -> IF Fits(b, h.next, h.arg) THEN DetPairsX(b, h.next, SmallVal(h.arg), <<>>) ELSE -1
         [] h.mt = 7 -> IF h.ai \in {20, 21} THEN h.next ELSE -1
         [] OTHER -> -1
DetItemsX(b, p, n) ==
  IF n = 0 THEN p
  ELSE LET e == DetEndX(b, p) IN IF e < 0 THEN -1 ELSE DetItemsX(b, e, n - 1)
DetPairsX(b, p, n, lastKey) ==
  IF n = 0 THEN p
  ELSE LET ke == DetEndX(b, p) IN
       IF ke < 0 THEN -1
       ELSE LET key == SubSeq(b, p, ke - 1)
                ve == DetEndX(b, ke)
            IN IF ~BytesLess(lastKey, key) \/ ve < 0 THEN -1
               ELSE DetPairsX(b, ve, n - 1, key)
RECURSIVE DetSeqFromX(_, _)
DetSeqFromX(b, p) == IF p = Len(b) + 1 THEN TRUE
                     ELSE LET e == DetEndX(b, p) IN e > 0 /\ DetSeqFromX(b, e)
CanonicalSeq(b) == DetSeqFromX(b, 1)
\* one canonical item occupying b entirely
CanonicalItem(b) == Len(b) > 0 /\ DetEndX(b, 1) = Len(b) + 1

-----------------------------------------------------------------------------
\* Operational walk (the CborDet machine): a cursor and a stack of open containers.
\* Frame: [map |-> BOOLEAN, left |-> items still to read, isKey |-> next item is a key,
\*         lastKey |-> bytes, keyStart |-> position where the current key started or 0]
\* One step reads one head.  st.state \in {"run","acc","rej"}.
WalkInit(b) == [state |-> "run", pos |-> 1, stack |-> <<>>]

\* after a complete item ending before position e: pop finished containers
RECURSIVE Close(_, _, _)
Close(b, stack, e) ==
  IF stack = <<>> THEN [ok |-> TRUE, stack |-> <<>>]
  ELSE LET f == stack[Len(stack)] IN
       IF f.map /\ f.isKey
       THEN \* the item just completed was a key: compare with the previous one
            LET key == SubSeq(b, f.keyStart, e - 1) IN
            IF ~BytesLess(f.lastKey, key) THEN [ok |-> FALSE, stack |-> stack]
            ELSE [ok |-> TRUE,
                  stack |-> [stack EXCEPT ![Len(stack)] =
                               [f EXCEPT !.isKey = FALSE, !.lastKey = key, !.left = f.left - 1]]]
       ELSE IF f.left = 1
            THEN Close(b, SubSeq(stack, 1, Len(stack) - 1), e)   \* container complete = one item of its parent
            ELSE [ok |-> TRUE,
                  stack |-> [stack EXCEPT ![Len(stack)] =
                               [f EXCEPT !.left = f.left - 1, !.isKey = f.map, !.keyStart = IF f.map THEN e ELSE 0]]]

WalkStep(b, st) ==
  IF st.pos = Len(b) + 1 /\ st.stack = <<>> THEN [st EXCEPT !.state = "acc"]
  ELSE LET h == HeadAt(b, st.pos) IN
       IF ~h.ok \/ ~Shortest(h) \/ h.mt \notin {0, 2, 3, 4, 5} THEN [st EXCEPT !.state = "rej"]
       ELSE IF h.mt = 0 \/ (h.mt \in {2, 3} /\ Fits(b, h.next, h.arg)) \/ (h.mt \in {4, 5} /\ h.arg = U64Zero)
            THEN LET e == IF h.mt \in {2, 3} THEN h.next + SmallVal(h.arg) ELSE h.next
                     c == Close(b, st.stack, e)
                 IN IF c.ok THEN [st EXCEPT !.pos = e, !.stack = c.stack] ELSE [st EXCEPT !.state = "rej"]
            ELSE IF h.mt \in {4, 5} /\ Fits(b, h.next, h.arg)
                 THEN [st EXCEPT !.pos = h.next,
                          !.stack = Append(st.stack,
                             [map |-> h.mt = 5, left |-> IF h.mt = 5 THEN 2 * SmallVal(h.arg) ELSE SmallVal(h.arg),
                              isKey |-> h.mt = 5, lastKey |-> <<>>, keyStart |-> IF h.mt = 5 THEN h.next ELSE 0])]
                 ELSE [st EXCEPT !.state = "rej"]

RECURSIVE WalkRun(_, _)
WalkRun(b, st) == IF st.state # "run" THEN st ELSE WalkRun(b, WalkStep(b, st))
WalkAccepts(b) == WalkRun(b, WalkInit(b)).state = "acc"

-----------------------------------------------------------------------------
\* Encoding (the unique canonical one)
EncHead(mt, arg) ==
  LET lz == LeadingZeros(arg) IN
  IF lz = 8 \/ (lz = 7 /\ arg[8] < 24) THEN << mt * 32 + arg[8] >>
  ELSE IF lz = 7 THEN << mt * 32 + 24, arg[8] >>
  ELSE IF lz = 6 THEN << mt * 32 + 25, arg[7], arg[8] >>
  ELSE IF lz >= 4 THEN << mt * 32 + 26 >> \o SubSeq(arg, 5, 8)
  ELSE << mt * 32 + 27 >> \o arg

EncUint(arg) == EncHead(0, arg)
EncNint(arg) == EncHead(1, arg)           \* value -1 - arg
EncBytes(s) == EncHead(2, U64(Len(s))) \o s
EncText(s) == EncHead(3, U64(Len(s))) \o s
EncArrayHdr(n) == EncHead(4, U64(n))
EncMapHdr(n) == EncHead(5, U64(n))
EncBool(v) == << 224 + (IF v THEN 21 ELSE 20) >>

\* sort a sequence of [k |-> bytes, v |-> bytes] by k (insertion sort; stable)
RECURSIVE InsertEntry(_, _), SortEntries(_)
InsertEntry(sorted, e) ==
  IF sorted = <<>> THEN <<e>>
  ELSE IF BytesLess(e.k, sorted[1].k) THEN <<e>> \o sorted
       ELSE <<sorted[1]>> \o InsertEntry(Tail(sorted), e)
SortEntries(es) == IF es = <<>> THEN <<>> ELSE InsertEntry(SortEntries(SubSeq(es, 1, Len(es) - 1)), es[Len(es)])

HasDupKey(es) == \E i, j \in 1..Len(es) : i < j /\ es[i].k = es[j].k
RECURSIVE EntryBytes(_)
EntryBytes(es) == IF es = <<>> THEN <<>> ELSE es[1].k \o es[1].v \o EntryBytes(Tail(es))
EncMap(es) == EncMapHdr(Len(es)) \o EntryBytes(SortEntries(es))
=============================================================================
