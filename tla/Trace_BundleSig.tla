---------------------------- MODULE Trace_BundleSig ----------------------------
(* Trace validation for package bundle/signature (C06, C10) with JDK crypto.    *)
(* One line = one verification of a (possibly tampered) signed bundle at time t: *)
(* signatures and exchanges as the real code sees them, NewVerifier's outcome,   *)
(* VerifyExchange's result per exchange, the messages really signed (recorded    *)
(* inside the signing algorithm) and, for honest histories, who covers what.     *)
EXTENDS BundleSig, TLC, Json, IOUtils
Trace == ndJsonDeserialize(IOEnv.VERIF_TRACE)
VARIABLE l

SumTo(chains, k) == LET RECURSIVE S(_) S(j) == IF j = 0 THEN 0 ELSE S(j - 1) + chains[j] IN S(k)

\* kind "wrsig" (C03): a bundle carrying a signatures section, written, read back, written and read again
WrSigFailures(ev) ==
  LET b == [ev.b EXCEPT !.hassigs = TRUE, !.sigs = SigSection(ev.sigrec)] IN
  (IF ~ev.werr /\ ev.file = SpecWrite(b) THEN {} ELSE {"the file is not the specified serialization of the bundle with its signatures section"})
  \cup (IF ev.verdict = "ok" /\ ev.hassigs2 /\ ev.sigrec2 = ev.sigrec THEN {} ELSE {"the signatures section read back is not the one written"})
  \cup (IF ev.verdict = "ok" /\ ev.b2.ver = b.ver /\ ev.b2.primary = b.primary /\ [i \in 1..Len(ev.b2.exs) |-> ExCanon(ev.b2.exs[i])] = ExpectedRead(b) THEN {}
        ELSE {"version / primary URL / exchanges read back are not the ones written"})
  \cup (IF ev.file2 = ev.file /\ ev.file3 = ev.file THEN {} ELSE {"write/read does not reach a byte-identical fixpoint"})

Failures(ev) ==
  IF ev.kind = "wrsig" THEN WrSigFailures(ev) ELSE
  LET sigs == ev.sigs  ver == ev.ver  t == ev.t
      vok == VerifierOk(sigs, t, ver)
      signed == { <<ev.signed[i].cert, ev.signed[i].msg>> : i \in 1..Len(ev.signed) }
  IN (IF ev.panic THEN {"panic"} ELSE {})
  \* (a) exact conformance with the verification procedure
  \cup (IF vok = ~ev.newerr THEN {} ELSE {IF ev.newerr THEN "NewVerifier refuses signatures that are valid at t" ELSE "NewVerifier trusts an invalid / expired / not-yet-valid / over-long signature"})
  \cup (IF ev.newerr \/ ~vok THEN {}
        ELSE { "VerifyExchange #" \o ToString(i) : i \in { j \in 1..Len(ev.exs) :
                 LET want == VerifyEx(sigs, ev.exs[j])  got == ev.results[j] IN
                 ~(got.state = want.state /\ (want.state = "ok" => (got.payload = want.payload /\ got.authority = want.authority))) } })
  \* (b) authenticity on the observation: a verified exchange was vouched for by a key holder
  \cup (IF ev.newerr THEN {}
        ELSE { "unauthentic #" \o ToString(i) : i \in { j \in 1..Len(ev.exs) :
                 ev.results[j].state = "ok" /\
                 ~(\E k \in 1..Len(sigs.subsets) :
                     LET vs == sigs.subsets[k]  ss == ParseSignedSubset(vs.signed) IN
                     /\ IsSmall(vs.authority) /\ SmallVal(vs.authority) < Len(sigs.auths)
                     /\ <<sigs.auths[SmallVal(vs.authority) + 1].cert, SignedMessage(ver, vs.signed)>> \in signed
                     /\ ss.ok /\ InWindow([date |-> ss.date, expires |-> ss.expires], t)
                     /\ \E h \in 1..Len(ss.hashes) : ss.hashes[h].url = ev.exs[j].url /\ Len(ss.hashes[h].his) = 1
                                                      /\ ss.hashes[h].his[1].hsha = SHA256(RespHdrMap(ev.exs[j]))
                     /\ LET d == PayloadDecode([ver |-> "1b3", resph |-> ev.exs[j].hdrs, payload |-> ev.exs[j].body]) IN d.ok /\ d.payload = ev.results[j].payload) } })
  \* (c) honest histories: coverage, original bodies, authority indexing
  \cup (IF ~ev.honest THEN {}
        ELSE (IF \A k \in 1..Len(sigs.subsets) : sigs.subsets[k].authority = U64(SumTo(ev.chains, k - 1)) THEN {} ELSE {"authority index does not point at the signer's own leaf certificate"})
        \* every vouched subset of an honest history points at the very certificate whose key signed it (recorded inside
        \* the signing algorithm when it signed) - also when the bundle is looked at again later
        \cup (IF \A k \in 1..Len(sigs.subsets) :
                   LET vs == sigs.subsets[k] IN
                   /\ IsSmall(vs.authority) /\ SmallVal(vs.authority) < Len(sigs.auths)
                   /\ <<sigs.auths[SmallVal(vs.authority) + 1].cert, SignedMessage(ver, vs.signed)>> \in signed
              THEN {} ELSE {"a vouched subset points at a certificate other than its signer's"})
        \cup (IF ev.newerr THEN {}
              ELSE { "coverage #" \o ToString(i) : i \in { j \in 1..Len(ev.exs) :
                       IF ev.expect[j] < 0 THEN ev.results[j].state # "unsigned"
                       ELSE ~(ev.results[j].state = "ok" /\ ev.results[j].payload = ev.orig[j]
                              /\ ev.results[j].authority = sigs.auths[SumTo(ev.chains, ev.expect[j]) + 1].cert) } }))

TraceInit == l = 1
TraceNext ==
  /\ l <= Len(Trace)
  /\ l' = l + 1
  /\ LET f == Failures(Trace[l]) IN IF f = {} THEN TRUE ELSE PrintT("REJECT " \o ToJson([case |-> Trace[l].case, why |-> f]))
  /\ IF l = Len(Trace) THEN PrintT("DONE " \o ToString(l)) ELSE TRUE
TraceSpec == TraceInit /\ [][TraceNext]_l
=============================================================================
