------------------------------ MODULE MC_BundleSig ------------------------------
(* C06 at design level, abstract crypto: the signatures section as a history      *)
(* machine.  Three exchanges on hosts A, B, C; signers s1 (host A, chain of 1),    *)
(* s2 (host B, chain of 1), s3 (hosts A and B, chain of 2), s4 (host A, chain of   *)
(* 2); a history is a sequence of <= MaxSigners Sign steps (each appends its chain *)
(* to the authorities and one vouched subset pointing at its own leaf; a signer    *)
(* that meets an exchange already carrying an integrity header is refused and      *)
(* commits nothing), then at most one Tamper, then Verify.  Sig / hash are terms.  *)
EXTENDS Integers, Sequences, FiniteSets, TLC
CONSTANTS MaxSigners
VARIABLES exs,        \* exchange j: [host, hdr (version of its header block), body, digest (TRUE once integrity was added)]
          auths,      \* sequence of certificate ids
          subsets,    \* sequence of [authority, sig, signed: [auth, hashes: set of <<j, hdr>>]]
          hist, tampered, verdict
vars == <<exs, auths, subsets, hist, tampered, verdict>>
Signers == [s1 |-> [chain |-> <<"c1">>, hosts |-> {"A"}], s2 |-> [chain |-> <<"c2">>, hosts |-> {"B"}],
            s3 |-> [chain |-> <<"c3", "ca">>, hosts |-> {"A", "B"}], s4 |-> [chain |-> <<"c4", "cb">>, hosts |-> {"A"}]]
SName == {"s1", "s2", "s3", "s4"}
KeyOf(c) == c
Sig(k, m) == [k |-> k, m |-> m]
Init == /\ exs = << [host |-> "A", hdr |-> 0, body |-> 0, digest |-> FALSE], [host |-> "B", hdr |-> 0, body |-> 0, digest |-> FALSE], [host |-> "C", hdr |-> 0, body |-> 0, digest |-> FALSE] >>
        /\ auths = <<>> /\ subsets = <<>> /\ hist = <<>> /\ tampered = FALSE /\ verdict = <<>>
Covered(s) == {j \in 1..3 : exs[j].host \in Signers[s].hosts}
Sign(s) == /\ verdict = <<>> /\ ~tampered /\ Len(hist) < MaxSigners /\ s \notin {hist[i] : i \in 1..Len(hist)}
           /\ hist' = Append(hist, s)
           /\ IF \E j \in Covered(s) : exs[j].digest
              THEN UNCHANGED <<exs, auths, subsets>>                     \* refused, nothing committed
              ELSE /\ exs' = [j \in 1..3 |-> IF j \in Covered(s) THEN [exs[j] EXCEPT !.digest = TRUE, !.hdr = 1] ELSE exs[j]]   \* header block now holds the Digest header
                   /\ LET signed == [auth |-> Signers[s].chain[1], hashes |-> {<<j, 1>> : j \in Covered(s)}] IN
                      subsets' = Append(subsets, [authority |-> Len(auths), sig |-> Sig(KeyOf(Signers[s].chain[1]), signed), signed |-> signed])
                   /\ auths' = auths \o Signers[s].chain
           /\ UNCHANGED <<tampered, verdict>>
Tamper == /\ verdict = <<>> /\ ~tampered /\ subsets # <<>> /\ tampered' = TRUE
          /\ \/ \E j \in 1..3 : exs' = [exs EXCEPT ![j].hdr = 2] /\ UNCHANGED <<auths, subsets>>          \* status / header field changed
             \/ \E j \in 1..3 : exs' = [exs EXCEPT ![j].body = 1] /\ UNCHANGED <<auths, subsets>>         \* body changed
             \/ \E k \in 1..Len(subsets) : subsets' = [subsets EXCEPT ![k].authority = (@ + 1) % (Len(auths) + 1)] /\ UNCHANGED <<exs, auths>>
             \/ \E k \in 1..Len(subsets) : subsets' = [subsets EXCEPT ![k].sig = Sig("junk", <<>>)] /\ UNCHANGED <<exs, auths>>
             \/ \E k \in 1..Len(subsets) : subsets' = [subsets EXCEPT ![k].signed.hashes = @ \cup {<<3, 0>>}] /\ UNCHANGED <<exs, auths>>   \* claim the uncovered exchange
          /\ UNCHANGED <<hist, verdict>>
SubsetOk(k) == /\ subsets[k].authority < Len(auths)
               /\ subsets[k].sig = Sig(KeyOf(auths[subsets[k].authority + 1]), subsets[k].signed)
               /\ subsets[k].signed.auth = auths[subsets[k].authority + 1]
VerifyEx(j) == LET has == {k \in 1..Len(subsets) : \E h \in subsets[k].signed.hashes : h[1] = j} IN
               IF has = {} THEN "unsigned"
               ELSE LET k == CHOOSE x \in has : \A y \in has : x <= y IN
                    IF <<j, exs[j].hdr>> \in subsets[k].signed.hashes /\ exs[j].body = 0 /\ exs[j].digest THEN "ok" ELSE "error"
Verify == /\ verdict = <<>>
          /\ verdict' = IF \A k \in 1..Len(subsets) : SubsetOk(k) THEN [j \in 1..3 |-> VerifyEx(j)] ELSE <<"refused", "refused", "refused">>
          /\ UNCHANGED <<exs, auths, subsets, hist, tampered>>
Next == (\E s \in SName : Sign(s)) \/ Tamper \/ Verify
Spec == Init /\ [][Next]_vars
\* each vouched subset points at its own signer's leaf: index = number of authorities present before its chain
AuthorityIndex == ~tampered => \A k \in 1..Len(subsets) : auths[subsets[k].authority + 1] = subsets[k].signed.auth
CoveredVerify == (verdict # <<>> /\ ~tampered) => \A j \in 1..3 : (exs[j].digest => verdict[j] = "ok")
UncoveredUnsigned == (verdict # <<>> /\ ~tampered) => \A j \in 1..3 : (~exs[j].digest => verdict[j] = "unsigned")
\* no alteration makes verification succeed with altered content
TamperDetected == (verdict # <<>> /\ tampered) => \A j \in 1..3 : (verdict[j] = "ok" => (exs[j].hdr = 1 /\ exs[j].body = 0 /\ exs[j].digest))
=============================================================================
