------------------------------- MODULE BundleSig -------------------------------
(***************************************************************************)
(* The "signatures" section of a Web Bundle (extensions/signatures-section *)
(* .md, vendored) and its verification:                                    *)
(*  signatures = [ authorities: [*augmented-certificate],                  *)
(*                 vouched-subsets: [*{authority: uint, sig: bstr,         *)
(*                                     signed: bstr .cbor signed-subset}]] *)
(*  signed-subset = { validity-url: tstr, auth-sha256: bstr, date: uint,   *)
(*                    expires: uint, subset-hashes: {+ url =>              *)
(*                       [variants-value: bstr, +(header-sha256: bstr,     *)
(*                                               payload-integrity: tstr)]}}*)
(*  signature over  0x20 x 64 || "Web Package 1 b1|b2" || 0x00 || signed   *)
(* sigs = [auths: Seq(augmented certificate as in CertChain),              *)
(*         subsets: Seq([authority: U64, sig, signed])]                    *)
(***************************************************************************)
EXTENDS Bundle, CertChain

WPCtx(ver) == IF ver = "b1" THEN WPCtx1 ELSE WPCtx2
SignedMessage(ver, signed) == Rep(64, 32) \o WPCtx(ver) \o <<0>> \o signed

\* ---- encoding
VouchedSubsetBytes(vs) == EncMap(<< [k |-> EncText(K_authority), v |-> EncUint(vs.authority)],
                                   [k |-> EncText(K_sig), v |-> EncBytes(vs.sig)],
                                   [k |-> EncText(K_signed), v |-> EncBytes(vs.signed)] >>)
SigSection(sigs) == EncArrayHdr(2) \o EncArrayHdr(Len(sigs.auths)) \o Concat([i \in 1..Len(sigs.auths) |-> AugCert(sigs.auths[i])])
                    \o EncArrayHdr(Len(sigs.subsets)) \o Concat([i \in 1..Len(sigs.subsets) |-> VouchedSubsetBytes(sigs.subsets[i])])

\* ss = [vurl, authsha, date (U64), expires (U64), hashes: Seq([url, variants, his: Seq([hsha, pih])])]
HashesEntry(h) == [k |-> EncText(h.url),
                   v |-> EncArrayHdr(1 + 2 * Len(h.his)) \o EncBytes(h.variants) \o Concat([i \in 1..Len(h.his) |-> EncBytes(h.his[i].hsha) \o EncText(h.his[i].pih)])]
SignedSubsetBytes(ss) ==
  EncMap(<< [k |-> EncText(K_vurl), v |-> EncText(ss.vurl)], [k |-> EncText(K_authsha), v |-> EncBytes(ss.authsha)],
            [k |-> EncText(K_date), v |-> EncUint(ss.date)], [k |-> EncText(K_expires), v |-> EncUint(ss.expires)],
            [k |-> EncText(K_subsethashes), v |-> EncMap([i \in 1..Len(ss.hashes) |-> HashesEntry(ss.hashes[i])])] >>)

\* ---- lenient decoding of a signed-subset (any definite-length encoding, any key order)
NoSS == [ok |-> FALSE, vurl |-> <<>>, authsha |-> <<>>, date |-> U64Zero, expires |-> U64Zero, hashes |-> <<>>, seen |-> {}]
TextAt(b, p) == LET h == HeadAt(b, p) IN
                IF h.ok /\ h.mt = 3 /\ Fits(b, h.next, h.arg) /\ Utf8Valid(Sub(b, h.next, SmallVal(h.arg)))
                THEN [ok |-> TRUE, v |-> Sub(b, h.next, SmallVal(h.arg)), p |-> h.next + SmallVal(h.arg)] ELSE [ok |-> FALSE, v |-> <<>>, p |-> 0]
BytesAt(b, p) == LET h == HeadAt(b, p) IN
                 IF h.ok /\ h.mt = 2 /\ Fits(b, h.next, h.arg)
                 THEN [ok |-> TRUE, v |-> Sub(b, h.next, SmallVal(h.arg)), p |-> h.next + SmallVal(h.arg)] ELSE [ok |-> FALSE, v |-> <<>>, p |-> 0]
RECURSIVE HisFrom(_, _, _, _)
HisFrom(b, p, n, acc) == IF n = 0 THEN [ok |-> TRUE, his |-> acc, p |-> p]
                         ELSE LET a == BytesAt(b, p) IN IF ~a.ok THEN [ok |-> FALSE, his |-> <<>>, p |-> 0]
                              ELSE LET t == TextAt(b, a.p) IN IF ~t.ok THEN [ok |-> FALSE, his |-> <<>>, p |-> 0]
                                   ELSE HisFrom(b, t.p, n - 1, Append(acc, [hsha |-> a.v, pih |-> t.v]))
RECURSIVE HashesFrom(_, _, _, _)
HashesFrom(b, p, n, acc) ==
  IF n = 0 THEN [ok |-> TRUE, hashes |-> acc, p |-> p]
  ELSE LET u == TextAt(b, p) IN
       IF ~u.ok THEN [ok |-> FALSE, hashes |-> <<>>, p |-> 0]
       ELSE LET a == HeadAt(b, u.p) IN
            IF ~(a.ok /\ a.mt = 4 /\ IsSmall(a.arg) /\ SmallVal(a.arg) >= 3 /\ SmallVal(a.arg) % 2 = 1 /\ SmallVal(a.arg) <= Len(b)) THEN [ok |-> FALSE, hashes |-> <<>>, p |-> 0]
            ELSE LET vv == BytesAt(b, a.next) IN
                 IF ~vv.ok THEN [ok |-> FALSE, hashes |-> <<>>, p |-> 0]
                 ELSE LET hs == HisFrom(b, vv.p, (SmallVal(a.arg) - 1) \div 2, <<>>) IN
                      IF ~hs.ok THEN [ok |-> FALSE, hashes |-> <<>>, p |-> 0]
                      \* a repeated URL overrides the earlier entry (map semantics)
                      ELSE HashesFrom(b, hs.p, n - 1, SelectSeq(acc, LAMBDA e : e.url # u.v) \o << [url |-> u.v, variants |-> vv.v, his |-> hs.his] >>)
RECURSIVE SSFields(_, _, _, _)
SSFields(b, p, n, ss) ==
  IF n = 0 THEN ss
  ELSE LET k == TextAt(b, p) IN
       IF ~k.ok THEN NoSS
       ELSE IF k.v = K_vurl THEN (LET t == TextAt(b, k.p) IN IF ~t.ok THEN NoSS ELSE SSFields(b, t.p, n - 1, [ss EXCEPT !.vurl = t.v, !.seen = @ \cup {"v"}]))
       ELSE IF k.v = K_authsha THEN (LET t == BytesAt(b, k.p) IN IF ~t.ok THEN NoSS ELSE SSFields(b, t.p, n - 1, [ss EXCEPT !.authsha = t.v, !.seen = @ \cup {"a"}]))
       ELSE IF k.v \in {K_date, K_expires} THEN
            (LET h == HeadAt(b, k.p) IN IF ~(h.ok /\ h.mt = 0) THEN NoSS
             ELSE SSFields(b, h.next, n - 1, IF k.v = K_date THEN [ss EXCEPT !.date = h.arg, !.seen = @ \cup {"d"}] ELSE [ss EXCEPT !.expires = h.arg, !.seen = @ \cup {"e"}]))
       ELSE IF k.v = K_subsethashes THEN
            (LET h == HeadAt(b, k.p) IN IF ~(h.ok /\ h.mt = 5 /\ IsSmall(h.arg) /\ SmallVal(h.arg) <= Len(b)) THEN NoSS
             ELSE LET hh == HashesFrom(b, h.next, SmallVal(h.arg), <<>>) IN IF ~hh.ok THEN NoSS ELSE SSFields(b, hh.p, n - 1, [ss EXCEPT !.hashes = hh.hashes, !.seen = @ \cup {"h"}]))
       ELSE NoSS
ParseSignedSubset(b) ==
  LET h == HeadAt(b, 1) IN
  IF ~(h.ok /\ h.mt = 5 /\ IsSmall(h.arg) /\ SmallVal(h.arg) <= Len(b)) THEN NoSS
  ELSE LET ss == SSFields(b, h.next, SmallVal(h.arg), [NoSS EXCEPT !.ok = TRUE]) IN
       IF ss.ok /\ ss.seen = {"v", "a", "d", "e", "h"} THEN ss ELSE NoSS

-----------------------------------------------------------------------------
\* ---- verification.  t = [s, ns] as in Sxg.
\* a vouched subset is trusted iff its authority index is in range, the signature verifies under that
\* certificate over SignedMessage, auth-sha256 names that certificate, the window is at most 7 days and contains t
SubsetOk(sigs, k, t, ver) ==
  LET vs == sigs.subsets[k] IN
  /\ IsSmall(vs.authority) /\ SmallVal(vs.authority) < Len(sigs.auths)
  /\ LET cert == sigs.auths[SmallVal(vs.authority) + 1].cert
         ss == ParseSignedSubset(vs.signed)
     IN /\ EcdsaVerifyCert(cert, SignedMessage(ver, vs.signed), vs.sig)
        /\ ss.ok
        /\ ss.authsha = SHA256(cert)
        /\ ss.date[1] < 128 /\ ss.expires[1] < 128           \* dates are signed 64-bit seconds
        /\ LifetimeOk([date |-> ss.date, expires |-> ss.expires])
        /\ InWindow([date |-> ss.date, expires |-> ss.expires], t)
VerifierOk(sigs, t, ver) == \A k \in 1..Len(sigs.subsets) : SubsetOk(sigs, k, t, ver)

\* VerifyExchange on ex = [url, status, hdrs, body]: [state \in "unsigned"|"ok"|"error", payload, authority (cert DER)]
VerifyEx(sigs, ex) ==
  LET has == {k \in 1..Len(sigs.subsets) : \E i \in 1..Len(ParseSignedSubset(sigs.subsets[k].signed).hashes) :
                 ParseSignedSubset(sigs.subsets[k].signed).hashes[i].url = ex.url}
      none == [state |-> "unsigned", payload |-> <<>>, authority |-> <<>>]
      err == [state |-> "error", payload |-> <<>>, authority |-> <<>>]
  IN IF has = {} THEN none
     ELSE LET k == CHOOSE x \in has : \A y \in has : x <= y
              ss == ParseSignedSubset(sigs.subsets[k].signed)
              h == ss.hashes[CHOOSE i \in 1..Len(ss.hashes) : ss.hashes[i].url = ex.url]
              x == [ver |-> "1b3", resph |-> ex.hdrs, payload |-> ex.body]       \* MI draft-03 under the Digest header
          IN IF h.variants # <<>> \/ Len(h.his) # 1 THEN err
             ELSE IF ~RespHdrOk(ex) \/ SHA256(RespHdrMap(ex)) # h.his[1].hsha THEN err
             ELSE IF h.his[1].pih # I_b23 THEN err
             ELSE LET d == PayloadDecode(x) IN
                  IF ~d.ok THEN err
                  ELSE [state |-> "ok", payload |-> d.payload, authority |-> sigs.auths[SmallVal(sigs.subsets[k].authority) + 1].cert]
=============================================================================
