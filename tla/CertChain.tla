------------------------------ MODULE CertChain ------------------------------
(***************************************************************************)
(* application/cert-chain+cbor (draft-yasskin-http-origin-signed-responses *)
(* section 3.3) and RFC 6962 section 3.3 SignedCertificateTimestampList.   *)
(*   cert-chain = [ "\U0001F4DC⛓", + augmented-certificate ]           *)
(*   augmented-certificate = { cert: bytes, ? ocsp: bytes, ? sct: bytes }   *)
(* canonical CBOR, so the map keys come out as sct, cert, ocsp (bytewise    *)
(* order of the encoded keys).  The first certificate must carry an OCSP    *)
(* response, later ones must not.                                           *)
(* A chain is a sequence of [cert, hasocsp, ocsp, hassct, sct].             *)
(***************************************************************************)
EXTENDS Bytes, Cbor, SxgConsts

ChainValid(ch) == Len(ch) > 0 /\ ch[1].hasocsp /\ \A i \in 2..Len(ch) : ~ch[i].hasocsp

AugCert(c) == EncMap(<< [k |-> EncText(K_cert), v |-> EncBytes(c.cert)] >>
                     \o (IF c.hasocsp THEN << [k |-> EncText(K_ocsp), v |-> EncBytes(c.ocsp)] >> ELSE <<>>)
                     \o (IF c.hassct THEN << [k |-> EncText(K_sct), v |-> EncBytes(c.sct)] >> ELSE <<>>))
ChainBytes(ch) == EncArrayHdr(Len(ch) + 1) \o EncText(CertMagic) \o Concat([i \in 1..Len(ch) |-> AugCert(ch[i])])

\* lenient reference reader: any well-formed definite-length encoding, unknown text keys ignored,
\* a repeated key overrides.  [res \in "ok","err", ch]
NoCert == [cert |-> <<>>, hasocsp |-> FALSE, ocsp |-> <<>>, hassct |-> FALSE, sct |-> <<>>]
RECURSIVE ReadEntries(_, _, _, _)
ReadEntries(b, p, n, c) ==       \* [ok, c, p]
  IF n = 0 THEN [ok |-> TRUE, c |-> c, p |-> p]
  ELSE LET hk == HeadAt(b, p) IN
       IF ~(hk.ok /\ hk.mt = 3 /\ Fits(b, hk.next, hk.arg) /\ Utf8Valid(Sub(b, hk.next, SmallVal(hk.arg)))) THEN [ok |-> FALSE, c |-> c, p |-> 0]
       ELSE LET key == Sub(b, hk.next, SmallVal(hk.arg))
                hv == HeadAt(b, hk.next + SmallVal(hk.arg))
            IN IF ~(hv.ok /\ hv.mt = 2 /\ Fits(b, hv.next, hv.arg)) THEN [ok |-> FALSE, c |-> c, p |-> 0]
               ELSE LET val == Sub(b, hv.next, SmallVal(hv.arg))
                        c2 == IF key = K_cert THEN [c EXCEPT !.cert = val]
                              ELSE IF key = K_ocsp THEN [c EXCEPT !.hasocsp = TRUE, !.ocsp = val]
                              ELSE IF key = K_sct THEN [c EXCEPT !.hassct = TRUE, !.sct = val]
                              ELSE c
                    IN ReadEntries(b, hv.next + SmallVal(hv.arg), n - 1, c2)
RECURSIVE ReadCerts(_, _, _, _)
ReadCerts(b, p, n, acc) ==
  IF n = 0 THEN [ok |-> TRUE, ch |-> acc]
  ELSE LET h == HeadAt(b, p) IN
       IF ~(h.ok /\ h.mt = 5 /\ Fits(b, h.next, h.arg)) THEN [ok |-> FALSE, ch |-> <<>>]
       ELSE LET r == ReadEntries(b, h.next, SmallVal(h.arg), NoCert) IN
            IF ~r.ok THEN [ok |-> FALSE, ch |-> <<>>] ELSE ReadCerts(b, r.p, n - 1, Append(acc, r.c))
\* CertParses(der): is the DER an X.509 certificate (a parameter: JDK in the trace spec, a flag in the model)
RefReadChain(b, CertParses(_)) ==
  LET a == HeadAt(b, 1) IN
  IF ~(a.ok /\ a.mt = 4 /\ Fits(b, a.next, a.arg) /\ SmallVal(a.arg) >= 2) THEN [res |-> "err", ch |-> <<>>]
  ELSE LET m == HeadAt(b, a.next) IN
       IF ~(m.ok /\ m.mt = 3 /\ Fits(b, m.next, m.arg) /\ Sub(b, m.next, SmallVal(m.arg)) = CertMagic) THEN [res |-> "err", ch |-> <<>>]
       ELSE LET r == ReadCerts(b, m.next + SmallVal(m.arg), SmallVal(a.arg) - 1, <<>>) IN
            IF ~r.ok THEN [res |-> "err", ch |-> <<>>]
            ELSE IF \E i \in 1..Len(r.ch) : r.ch[i].cert = <<>> \/ ~CertParses(r.ch[i].cert) THEN [res |-> "err", ch |-> <<>>]
            ELSE IF ~ChainValid(r.ch) THEN [res |-> "err", ch |-> <<>>]
            ELSE [res |-> "ok", ch |-> r.ch]

-----------------------------------------------------------------------------
\* RFC 6962: opaque SerializedSCT<1..2^16-1>; SerializedSCT sct_list<1..2^16-1>
SctTotal(scts) == IF \E i \in 1..Len(scts) : Len(scts[i]) > 65535 THEN -1
                  ELSE LET lens == [i \in 1..Len(scts) |-> Len(scts[i]) + 2]
                           RECURSIVE Sum(_)
                           Sum(k) == IF k = 0 THEN 0 ELSE IF Sum(k - 1) > 70000 THEN 70001 ELSE Sum(k - 1) + lens[k]
                       IN Sum(Len(scts))
SctOk(scts) == SctTotal(scts) >= 0 /\ SctTotal(scts) <= 65535
SctList(scts) == BE(SctTotal(scts), 2) \o Concat([i \in 1..Len(scts) |-> BE(Len(scts[i]), 2) \o scts[i]])
=============================================================================
