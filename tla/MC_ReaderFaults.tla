---------------------------- MODULE MC_ReaderFaults ----------------------------
(* Design level: a consumer that takes its input as a sequence of ReadFull       *)
(* requests (sizes reqs), optionally followed by ReadAll (tail), over every      *)
(* schedule of the source.  The stream is <<1, .., N>> so that position = value. *)
(* Invariants: every request is filled with exactly the next bytes whatever the  *)
(* fragmentation (ScheduleIndependent); the consumer fails iff the input is too  *)
(* short or the failure is Observed (FailsIffObserved) - which justifies the     *)
(* formula the trace specification applies to the real parsers.                  *)
(* Loop = FALSE models a consumer that issues ONE Read per request (the slip a   *)
(* refactoring can introduce): TLC must then refute ScheduleIndependent; the     *)
(* check runs that configuration as a negative control of the model.             *)
(* Every schedule is exported (VEC) and replayed on the real parsers.            *)
EXTENDS ReaderFaults, TLC, Json
CONSTANTS N, Loop, Frags, MaxPat, Retry
VARIABLES sch, reqs, tail, s, ri, got, out, st, retried
vars == <<sch, reqs, tail, s, ri, got, out, st, retried>>

Pats == UNION { [1..n -> Frags] : n \in 1..MaxPat }
\* no two consecutive calls without progress (also cyclically): such a source may legitimately stall any reader
PatOk(p) == /\ \E i \in 1..Len(p) : p[i] # 0
            /\ \A i \in 1..Len(p) : ~(p[i] = 0 /\ p[(i % Len(p)) + 1] = 0)
Scheds == { [pat |-> p, end |-> e, k |-> k] : p \in {q \in Pats : PatOk(q)}, e \in {"eof", "eofdata", "err", "errdata", "transient", "eofmore"}, k \in 0..N }
ReqSeqs == { <<>>, <<1>>, <<2>>, <<3>>, <<1, 2>>, <<2, 3>>, <<3, 1, 1>>, <<2, 2, 2>>, <<4>>, <<1, 4>> }

\* (a consumer that reads to the END takes an end reported early for the end: eofmore is excluded with a tail;
\*  Retry = TRUE: the caller repeats, once, a request that failed without having consumed anything - a decoder object polled
\*  on a queue, or retried after a time-out)
Init == /\ sch \in { x \in Scheds : x.end \in {"err", "errdata", "transient", "eofmore"} \/ x.k = 0 }
        /\ reqs \in ReqSeqs /\ tail \in BOOLEAN
        /\ ~(sch.end = "eofmore" /\ tail)
        /\ Retry => (Passing(sch) /\ ~tail)
        /\ retried = FALSE
        /\ s = [pos |-> 0, i |-> 0, hit |-> FALSE] /\ ri = 1 /\ got = <<>> /\ out = <<>> /\ st = "run"
        /\ PrintT("VEC " \o ToJson(sch))

Bytes(a, b) == [j \in 1..(b - a) |-> a + j]
\* one Read call on behalf of the current ReadFull request
FillStep ==
  /\ st = "run" /\ ri <= Len(reqs)
  /\ LET need == reqs[ri] - Len(got)
         r == SrcRead(sch, N, s, need)
         g2 == got \o Bytes(s.pos, r.s.pos)
         again == r.res # "nil" /\ Retry /\ ~retried /\ got = <<>> /\ r.n = 0 /\ r.s.hit /\ ~s.hit /\ Len(g2) # reqs[ri]
     IN /\ s' = r.s
        /\ retried' = (retried \/ again)
        /\ IF Len(g2) = reqs[ri] \/ (~Loop /\ r.res = "nil" /\ r.n > 0)   \* filled (io.ReadFull drops an error that comes with the last byte)
           THEN out' = Append(out, g2) /\ got' = <<>> /\ ri' = ri + 1 /\ st' = "run"
           ELSE IF again THEN UNCHANGED <<out, got, ri, st>>                  \* nothing consumed: the caller repeats the request
           ELSE IF r.res # "nil" THEN st' = "err" /\ UNCHANGED <<out, got, ri>>   \* ErrUnexpectedEOF / the source's error
           ELSE got' = g2 /\ UNCHANGED <<out, ri, st>>
  /\ UNCHANGED <<sch, reqs, tail>>
\* ReadAll: until the end of input
TailStep ==
  /\ st = "run" /\ ri > Len(reqs) /\ tail
  /\ LET r == SrcRead(sch, N, s, 4) IN
     /\ s' = r.s /\ got' = got \o Bytes(s.pos, r.s.pos)
     /\ st' = IF r.res = "eof" THEN "ok" ELSE IF r.res = "err" THEN "err" ELSE "run"
     /\ out' = IF r.res = "eof" THEN Append(out, got') ELSE out
  /\ UNCHANGED <<sch, reqs, tail, ri, retried>>
Finish == st = "run" /\ ri > Len(reqs) /\ ~tail /\ st' = "ok" /\ UNCHANGED <<sch, reqs, tail, s, ri, got, out, retried>>
Next == FillStep \/ TailStep \/ Finish
Spec == Init /\ [][Next]_vars /\ WF_vars(Next)     \* the consumer keeps calling (needed for Terminates only)

RECURSIVE Sum(_, _)
Sum(q, i) == IF i > Len(q) THEN 0 ELSE q[i] + Sum(q, i + 1)
Need == Sum(reqs, 1)
\* the contiguous fault-free run
Consumed == IF tail /\ Need <= N THEN N ELSE Min2(Need, N)
Probed == tail \/ Need > N
RECURSIVE Slices(_, _, _)
Slices(q, i, from) == IF i > Len(q) THEN <<>> ELSE <<Bytes(from, from + q[i])>> \o Slices(q, i + 1, from + q[i])
Expected == Slices(reqs, 1, 0) \o (IF tail THEN <<Bytes(Need, N)>> ELSE <<>>)

ScheduleIndependent == st = "ok" => out = Expected
FailsIffObserved == (~Retry /\ st \in {"ok", "err"}) => ((st = "err") <=> (Need > N \/ Observed(sch, N, Consumed, Probed)))
\* a passing failure that falls between two requests is invisible to a caller that repeats the request it hit
RECURSIVE Sums(_, _, _)
Sums(q, i, acc) == IF i > Len(q) THEN {acc} ELSE {acc} \cup Sums(q, i + 1, acc + q[i])
AtBoundary == sch.k \in Sums(reqs, 1, 0)
RetryTransparent == (Retry /\ AtBoundary /\ st \in {"ok", "err"}) => ((st = "err") <=> (Need > N)) /\ (st = "ok" => out = Expected)
Terminates == <>(st \in {"ok", "err"})
=============================================================================
