"""Huge instances (tla/Trace_Huge.tla): tens of MiB, reported as (want, got) facts; see the module header."""
import json, os
import vlib
from vlib import vh_to_file, trace_validate, workdir, Infra


def available_gib():
    """Memory this process may still use: MemAvailable, capped by the cgroup limit if there is one."""
    avail = 0
    try:
        for line in open("/proc/meminfo"):
            if line.startswith("MemAvailable:"):
                avail = int(line.split()[1]) * 1024
    except OSError:
        return 0
    for lim, cur in (("/sys/fs/cgroup/memory.max", "/sys/fs/cgroup/memory.current"), ("/sys/fs/cgroup/memory/memory.limit_in_bytes", "/sys/fs/cgroup/memory/memory.usage_in_bytes")):
        try:
            m = open(lim).read().strip()
            if m != "max":
                avail = min(avail, int(m) - int(open(cur).read().strip()))
        except (OSError, ValueError):
            pass
    return avail / (1 << 30)


def huge(rep, pid, family, need_gib=0):
    if need_gib and available_gib() < need_gib:
        # not an outcome: the instance needs more memory than this machine can give it right now
        rep.add("huge:" + family, skipped="needs about %d GiB of memory, %.1f GiB available" % (need_gib // 3, available_gib()))
        return
    wd = workdir(pid)
    outp = os.path.join(wd, "huge-%s.ndjson" % family)
    vh_to_file(["huge-run", family], outp, timeout=3000)
    cases = {}
    for line in open(outp):
        d = json.loads(line)
        cases[d["case"]] = d
    n, rejects, states = trace_validate("Trace_Huge", pid + "/huge-" + family, outp, shards=4, timeout=3000)
    rep.cov["states"] += states
    rep.cov["transitions"] += states
    rep.cov["traces_validated_against_impl"] += n
    for rj in rejects:
        c = cases[rj["case"]]
        bad = [f for f in c["facts"] if f["want"] != f["got"]]
        rep.violation("huge:%s:%s" % (family, ",".join(sorted(f["name"] for f in bad))[:80]),
                      "%s: %s" % (c["what"], "; ".join("%s: specified %s, observed %s" % (f["name"], f["want"][:70], f["got"][:70]) for f in bad)),
                      {"component": "huge", "family": family, "what": c["what"], "facts": bad})
    # negative control: a fabricated disagreement must be rejected
    if cases:
        c = json.loads(json.dumps(next(iter(cases.values()))))
        c["case"] = "neg"
        c["facts"][0]["got"] = c["facts"][0]["got"] + "x"
        p = os.path.join(wd, "huge-neg.ndjson")
        open(p, "w").write(json.dumps(c) + "\n")
        _, rj, _ = trace_validate("Trace_Huge", pid + "/huge-neg", p, shards=1)
        if not rj:
            raise Infra("negative control: Trace_Huge accepted a fabricated disagreement")
    rep.add("huge:" + family, runs=n, rejected=len(rejects))
