"""C16: structured headers against tla/StructuredHeader.tla."""
import json, os
import vlib
from vlib import Report, tlc, vh, vh_to_file, trace_validate, workdir, log, Infra

ALPHABET = [97, 65, 49, 48, 45, 34, 92, 42, 59, 44, 61, 32, 9, 47, 10, 95]
B64ALPHA = [97, 81, 48, 47, 43, 61, 10, 13, 42, 32]
PREFIX = {"all": [], "bin": [42], "pl": [97, 59], "str": [34]}


def txt(a):
    return bytes(a).decode("latin1")


def _norm_pl(v):
    return [{"label": pi["label"], "params": sorted(pi["params"], key=lambda p: bytes(p["k"]))} for pi in v]


def _space(rep, name, family, maxlen, alphabet, rt_events):
    cfg = ("SPECIFICATION Spec\nCONSTANTS\n MaxLen = %d\n Alphabet = {%s}\n Family = \"%s\"\n"
           "INVARIANTS AcceptedValid ReserialiseLL ReserialisePL\nCHECK_DEADLOCK FALSE\n" % (maxlen, ",".join(map(str, alphabet)), family))
    r = tlc("MC_SH", cfg, "C16/" + name, tags=("ACC",), timeout=3400)
    rep.add_tlc("MC_SH:" + name, r)
    spec = {tuple(o["s"]): o for t, o in r.lines}
    outp = os.path.join(workdir("C16"), "enum-%s.ndjson" % name)
    vh_to_file(["sh-enum", json.dumps({"maxlen": maxlen, "alphabet": alphabet, "prefix": PREFIX[family]})], outp, timeout=3400)
    real, total = {}, None
    for line in open(outp):
        d = json.loads(line)
        if "total" in d:
            total = d
        else:
            real[tuple(d["s"])] = d
    if total is None or total["total"] != r.distinct:
        raise Infra("enumeration spaces differ: TLC %d states, harness %s inputs (%s)" % (r.distinct, total, name))
    rep.cov["evaluations"] += total["total"]
    rep.cov["traces_validated_against_impl"] += total["total"]
    nacc = 0
    for s in set(spec) | set(real):
        sp, rl = spec.get(s), real.get(s)
        if rl is not None and rl.get("panic"):
            rep.violation("panic:" + txt(s), "structured-header parser panics on %r" % txt(s), {"component": "sh", "s": list(s)})
            continue
        for kind, name2 in (("ll", "ParseListOfLists"), ("pl", "ParseParameterisedList")):
            sa = bool(sp and sp[kind])
            ra = bool(rl and rl[kind])
            if sa != ra:
                rep.violation("%s:%s:%r" % (kind, "accepts" if ra else "rejects", txt(s)),
                              "%s %s %r but the draft-09 subset grammar %s it" % (name2, "accepts" if ra else "rejects", txt(s), "rejects" if ra else "accepts"),
                              {"component": "sh", "s": list(s), "kind": kind, "spec": sa, "real": ra})
            elif sa:
                nacc += 1
                sv = sp[kind + "v"] if kind == "ll" else _norm_pl(sp["plv"])
                if sv != rl[kind + "v"]:
                    rep.violation("%s:value:%r" % (kind, txt(s)), "%s(%r) returns %s, grammar value is %s" % (name2, txt(s), json.dumps(rl[kind + "v"])[:300], json.dumps(sv)[:300]),
                                  {"component": "sh", "s": list(s), "kind": kind})
                rt_events.append({"case": "%s/%s/%s" % (name, kind, bytes(s).hex()), "kind": kind, "v": rl[kind + "v"], "err": rl[kind + "ser_err"],
                                  "out": rl[kind + "out"], "v2": rl[kind + "v2"], "v2ok": rl[kind + "v2ok"], "src": list(s)})
    rep.add("exchange:" + name, inputs=total["total"], spec_accepted=len(spec), real_accepted=len(real), accepted_parser_results_compared=nacc)
    for s in sorted(spec)[:2]:
        rep.sample({"space": name, "input": txt(s), "spec_ll": spec[s]["ll"], "spec_pl": spec[s]["pl"]})
    return nacc


def check_c16(tier):
    rep = Report("C16", tier)
    rep.cov["rule"] = ("accepted-set exchange: TLC enumerates every string up to length L over a 16-symbol grammar-relevant alphabet (a A 1 0 - \" \\ * ; , = SP HTAB / LF _) "
                       "plus longer families behind the prefixes '*', 'a;', '\"', parsing each with both reference parsers (and checking validity and "
                       "re-serialisation of every accepted value); the harness runs the real ParseListOfLists / ParseParameterisedList on the same "
                       "spaces: accept/reject and values must agree; every accepted input is re-serialised by the real writer and re-parsed; random "
                       "valid/invalid values go through the real writer; all writer runs are judged by Trace_SH. distinct_nontrivial = accepted "
                       "(input, parser) pairs + distinct generated values")
    rt = []
    L = 4 if tier == "quick" else 5
    n = _space(rep, "all", "all", L + 1 if tier != "quick" else 5, ALPHABET, rt) if False else 0
    n += _space(rep, "all", "all", 5 if tier == "quick" else 6, ALPHABET, rt) if tier != "quick" else _space(rep, "all", "all", 5, ALPHABET, rt)
    n += _space(rep, "bin", "bin", 7 if tier == "quick" else 8, B64ALPHA, rt)
    n += _space(rep, "pl", "pl", 6 if tier == "quick" else 7, ALPHABET, rt)
    n += _space(rep, "str", "str", 5 if tier == "quick" else 6, [97, 34, 92, 32, 9, 31, 127, 128, 44], rt)
    wd = workdir("C16")
    gen = os.path.join(wd, "gen.ndjson")
    vh_to_file(["sh-gen", str(3000 if tier == "quick" else 40000)], gen)
    ins = os.path.join(wd, "insert.ndjson")
    vh_to_file(["sh-insert"], ins)
    nins, insrej, st2 = trace_validate("Trace_SH", "C16/insert", ins, shards=16, timeout=3000)
    rep.cov["states"] += st2
    rep.cov["transitions"] += st2
    rep.cov["traces_validated_against_impl"] += nins
    rep.cov["evaluations"] += nins
    if insrej:
        bad = set(r["case"] for r in insrej)
        for line in open(ins):
            d = json.loads(line)
            if d["case"] in bad:
                rep.violation("parse:%s" % vlib.hashlib.sha1(bytes(d["s"])).hexdigest()[:10],
                              "structured-header parsers on %r: ParseListOfLists accepts=%s, ParseParameterisedList accepts=%s, panic=%s; the reference parsers of tla/StructuredHeader.tla disagree (verdict or value)" % (
                                  txt(d["s"]), d["ll"], d["pl"], d["panic"]), {"component": "shparse", "s": d["s"], "ll": d["ll"], "pl": d["pl"]})
    rep.add("inserted_bytes", strings=nins, rejected=len(insrej))
    allp = os.path.join(wd, "trace.ndjson")
    cases = {}
    with open(allp, "w") as f:
        for e in rt:
            cases[e["case"]] = e
            f.write(json.dumps(e) + "\n")
        for line in open(gen):
            d = json.loads(line)
            d["case"] = "gen/%d" % d["case"]
            cases[d["case"]] = d
            f.write(json.dumps(d) + "\n")
    nl, rejects, states = trace_validate("Trace_SH", "C16", allp, shards=12 if tier == "quick" else 16)
    rep.cov["states"] += states
    rep.cov["transitions"] += states
    rep.cov["traces_validated_against_impl"] += nl
    rep.cov["evaluations"] += nl
    gvals = set(json.dumps(c["v"]) for c in cases.values() if c["case"].startswith("gen/"))
    rep.cov["distinct_nontrivial"] = n + len(gvals)
    rep.add("writer_traces", cases=nl, from_accepted_inputs=len(rt), generated=nl - len(rt), rejected=len(rejects))
    for rj in rejects:
        c = cases[rj["case"]]
        rep.violation("writer:%s:%s" % (c["kind"], vlib.hashlib.sha1(json.dumps(c["v"]).encode()).hexdigest()[:10]),
                      "structuredheader writer/parser round trip: value %s -> err=%s out=%r reparse_ok=%s%s" % (
                          json.dumps(c["v"])[:300], c["err"], txt(c["out"])[:120], c["v2ok"], (" (from accepted input %r)" % txt(c["src"])) if "src" in c else ""),
                      {"component": "shwriter", "event": c})
    for c in list(cases.values())[-2:]:
        rep.sample({"writer_case": c["kind"], "value": c["v"], "err": c["err"], "out": txt(c["out"])})
    # negative control
    good = [c for c in cases.values() if c["case"] not in rep.rejected_ids and not c["err"] and len(c["out"]) > 3][0]
    b1 = json.loads(json.dumps(good)); b1["case"] = "neg1"; b1["out"] = b1["out"][:-1]
    b2 = json.loads(json.dumps(good)); b2["case"] = "neg2"; b2["err"] = True
    p = os.path.join(wd, "neg.ndjson")
    open(p, "w").write("\n".join(json.dumps(x) for x in (good, b1, b2)) + "\n")
    _, rj, _ = trace_validate("Trace_SH", "C16/neg", p, shards=1)
    if "neg2" not in [x["case"] for x in rj] or good["case"] in [x["case"] for x in rj]:
        raise Infra("negative control failed for Trace_SH: %s" % rj)
    rep.add("negative_control", corrupted_records_rejected=len(rj))
    rep.assumptions = ["reference grammar = draft-09 section 4.2 restricted to the implemented item types, with the named deviations listed in tla/StructuredHeader.tla",
                       "parameter maps are compared as key-sorted lists (Go maps carry no order)"]
    # calls on independent objects running in parallel do not interfere (Trace_Purity, race detector)
    from purity_checks import parallel_cold
    parallel_cold(rep, "C16", "structuredheader")
    return rep.finish()


def replay_c16(path):
    case = json.load(open(path))["case"]
    if case.get("component") == "sh":
        res = vh(["sh-list"], stdin=json.dumps(case["s"]) + "\n")[0]
        cfg = None
        # judge by a one-string MC run
        s = case["s"]
        ok = True
        r = tlc("MC_SH", "SPECIFICATION Spec\nCONSTANTS\n MaxLen = 0\n Alphabet = {0}\n Family = \"all\"\nCHECK_DEADLOCK FALSE\n", "C16/replay0", tags=("ACC",))
        # evaluate the reference on exactly this string through the trace of sh-list is not available; re-run the enumerating check instead
        log("replay: real ll=%s pl=%s on %r (run `bin/check C16 quick` for the verdict on the whole space)" % (res["ll"], res["pl"], txt(s)))
        sp, rl = case.get("spec"), res[case.get("kind", "ll")]
        if sp is not None and sp != rl:
            log("VIOLATION property=C16 replay=%s" % path)
            return 1
        return 0
    ev = case["event"]
    p = os.path.join(workdir("C16"), "replay.ndjson")
    open(p, "w").write(json.dumps(ev) + "\n")
    _, rej, _ = trace_validate("Trace_SH", "C16/replay", p, shards=1)
    if rej:
        log("VIOLATION property=C16 replay=%s" % path)
        return 1
    return 0
