"""C18: serializer purity (tla/Purity.tla, MC_Purity schedules, Trace_Purity; Go race detector as the sensor)."""
import json, os, subprocess
import vlib
from vlib import Report, tlc, trace_validate, workdir, log, Infra


def parallel_cold(rep, pid, only):
    """Family (D) of the purity histories for one entry point (used by the checks of the decoders / parsers / verifiers):
    independent objects worked on in parallel, cold, in the -race binary; judged by Trace_Purity."""
    wd = workdir(pid)
    exe = vlib.build_harness(race=True)
    outp, errp = os.path.join(wd, "par.ndjson"), os.path.join(wd, "par-race.log")
    env = dict(os.environ, GORACE="halt_on_error=0", VERIF_SEED=str(vlib.seed()))
    with open(outp, "w") as fo, open(errp, "w") as fe:
        p = subprocess.run([exe, "par-run", only], stdout=fo, stderr=fe, env=env, timeout=3000)
    errtxt = open(errp).read()
    races = errtxt.count("WARNING: DATA RACE")
    fatal_conc = "fatal error: concurrent map" in errtxt
    if p.returncode not in (0, 66) and not races and not fatal_conc:
        raise Infra("parallel harness failed (%d): %s" % (p.returncode, errtxt[-2000:]))
    cases = {}
    for line in open(outp):
        d = json.loads(line)
        cases[d["case"]] = d
    if races or fatal_conc:
        import re
        m = re.findall(r"(github.com/WICG/webpackage/[^\s(]+)\(", errtxt)
        ev = {"case": "qrace", "kind": "race", "site": m[0] if m else "unknown", "calls": [], "ref": [], "mutated": False, "sharedcap": False}
        cases[ev["case"]] = ev
        with open(outp, "a") as f:
            f.write(json.dumps(ev) + "\n")
    n, rejects, states = trace_validate("Trace_Purity", pid + "/par", outp, shards=4, timeout=3000)
    rep.cov["states"] += states
    rep.cov["transitions"] += states
    rep.cov["traces_validated_against_impl"] += n
    for rj in rejects:
        c = cases[rj["case"]]
        if c["kind"] == "race":
            rep.violation("par:race:" + c["site"], "data race / concurrent map access in %s while independent objects are used in parallel (log: %s)" % (c["site"], errp), {"component": "parallel", "site": c["site"]})
        else:
            rep.violation("par:%s" % c["ser"], "%s on independent objects in parallel (goroutine %s): the result differs from the sequential one" % (c["ser"], c["sched"]), {"component": "parallel", "ser": c["ser"]})
    rep.add("parallel_cold:" + only, calls=n, race_reports=races, rejected=len(rejects))


def check_c18(tier):
    rep = Report("C18", tier, level="model_checking")
    rep.cov["rule"] = ("design level: MC_Purity explores every interleaving of N goroutines x S Write steps over a shared input slice [len, cap] and shows: outputs are "
                       "schedule-independent and shared memory is never written, under the premise that no serializer appends in place to a shared slice (the "
                       "configuration with spare capacity + appending serializer violates NoSharedWrite, as it must). Binding: every exported schedule is replayed on "
                       "real goroutines whose destination writers are scheduler gates, in a binary built with -race, for 17 serializers on SHARED inputs (built and "
                       "parsed bundle with signatures, signed exchange x3 versions: Write / signed message / header dump, cert chain, MI encoder, signed subset, "
                       "parameterised identifier, integrity block + data-to-be-signed, Web Bundle ID on a key slice with spare capacity); plus 50 (quick) / 200 "
                       "(thorough) sequential repetitions interleaved with unrelated calls, and header maps inserted in random orders. The recorded history is judged "
                       "by Trace_Purity (every output = reference, no input modified, no package-level slice with spare capacity, no race record; a race reported "
                       "by the detector becomes such a record). distinct_nontrivial = distinct (serializer, mode, schedule)")
    wd = workdir("C18")
    vecs = []
    for name, n, steps in ([("n2s3", 2, 3)] if tier == "quick" else [("n2s4", 2, 4), ("n3s2", 3, 2)]):
        for spare, app, expect_ok in (("TRUE", "FALSE", True), ("FALSE", "TRUE", True)):
            cfg = "SPECIFICATION SpecE\nCONSTANTS\n N = %d\n Steps = %d\n SpareCap = %s\n AppendsShared = %s\nINVARIANTS SameOutput NoSharedWrite\nCHECK_DEADLOCK FALSE\n" % (n, steps, spare, app)
            r = tlc("MC_Purity", cfg, "C18/%s-%s%s" % (name, spare, app))
            rep.add_tlc("MC_Purity:%s spare=%s appends=%s" % (name, spare, app), r)
            if spare == "TRUE":
                vecs += [o for t, o in r.lines]
        # the premise is necessary: spare capacity + appending serializer must violate NoSharedWrite
        try:
            tlc("MC_Purity", "SPECIFICATION SpecE\nCONSTANTS\n N = %d\n Steps = %d\n SpareCap = TRUE\n AppendsShared = TRUE\nINVARIANTS NoSharedWrite\nCHECK_DEADLOCK FALSE\n" % (n, steps), "C18/%s-premise" % name)
            raise Infra("MC_Purity: the configuration that appends in place does not violate NoSharedWrite (model is vacuous)")
        except Infra as e:
            if "NoSharedWrite is violated" not in str(e):
                raise
            rep.add("premise_is_necessary:" + name, appending_in_place_violates_NoSharedWrite=True)
    vp = os.path.join(wd, "vec.txt")
    with open(vp, "w") as f:
        for v in vecs:
            f.write(json.dumps(v) + "\n")
    exe = vlib.build_harness(race=True)
    outp, errp = os.path.join(wd, "run.ndjson"), os.path.join(wd, "race.log")
    env = dict(os.environ, GORACE="halt_on_error=0", VERIF_SEED=str(vlib.seed()))
    with open(vp) as fi, open(outp, "w") as fo, open(errp, "w") as fe:
        p = subprocess.run([exe, "purity-run", tier], stdin=fi, stdout=fo, stderr=fe, env=env, timeout=3000)
    errtxt = open(errp).read()
    races = errtxt.count("WARNING: DATA RACE")
    # the Go runtime kills the process on unsynchronised map access ("fatal error: concurrent map writes"): that is an
    # observation about the code, not an infrastructure failure
    fatal_conc = "fatal error: concurrent map" in errtxt
    if p.returncode not in (0, 66) and not races and not fatal_conc:
        raise Infra("purity harness failed (%d): %s" % (p.returncode, errtxt[-2000:]))
    cases = {}
    for line in open(outp):
        d = json.loads(line)
        cases[d["case"]] = d
    race_sites = []
    if races or fatal_conc:
        txt = errtxt
        import re
        for blk in txt.split("WARNING: DATA RACE")[1:] + (txt.split("fatal error: concurrent map")[1:2] if fatal_conc else []):
            m = re.findall(r"(github.com/WICG/webpackage/[^\s(]+)\(", blk)
            site = m[0] if m else "unknown"
            if site not in race_sites:
                race_sites.append(site)
        with open(outp, "a") as f:
            for i, s in enumerate(race_sites):
                ev = {"case": "race%d" % i, "kind": "race", "site": s, "calls": [], "ref": [], "mutated": False, "sharedcap": False}
                cases[ev["case"]] = ev
                f.write(json.dumps(ev) + "\n")
    n, rejects, states = trace_validate("Trace_Purity", "C18", outp, shards=8, timeout=3000)
    rep.cov["states"] += states
    rep.cov["transitions"] += states
    rep.cov["traces_validated_against_impl"] = n
    rep.cov["evaluations"] = sum(len(c["calls"]) for c in cases.values())
    rep.cov["distinct_nontrivial"] = len(set((c.get("ser"), c.get("mode"), tuple(c.get("sched", []))) for c in cases.values()))
    rep.add("replay", schedules=len(vecs), histories=n, serializer_calls=rep.cov["evaluations"], race_reports=races, race_sites=race_sites)
    for rj in rejects:
        c = cases[rj["case"]]
        for w in rj["why"]:
            if c["kind"] == "race":
                rep.violation("race:" + c["site"], "data race reported by the Go race detector in %s while serializers run concurrently on shared read-only inputs (log: %s)" % (c["site"], errp),
                              {"component": "purity", "site": c["site"]})
            else:
                rep.violation("purity:%s:%s:%s" % (c["ser"], c["mode"], w[:30]), "%s (%s, schedule %s): %s" % (c["ser"], c["mode"], c["sched"], w),
                              {"component": "purity", "ser": c["ser"], "mode": c["mode"], "sched": c["sched"], "why": w})
    for c in list(cases.values())[:2]:
        rep.sample({"ser": c.get("ser"), "mode": c.get("mode"), "sched": c.get("sched"), "calls": len(c["calls"]), "ref_len": len(c["ref"])})
    good = [c for c in cases.values() if c["case"] not in rep.rejected_ids and c["kind"] == "hist" and len(c["ref"]) > 4][0]
    b1 = json.loads(json.dumps(good)); b1["case"] = "neg1"; b1["calls"][0]["out"][2] ^= 1
    b2 = {"case": "neg2", "kind": "race", "site": "x", "calls": [], "ref": [], "mutated": False, "sharedcap": False}
    np_ = os.path.join(wd, "neg.ndjson")
    open(np_, "w").write("\n".join(json.dumps(x) for x in (good, b1, b2)) + "\n")
    _, rj, _ = trace_validate("Trace_Purity", "C18/neg", np_, shards=1)
    if sorted(x["case"] for x in rj) != ["neg1", "neg2"]:
        raise Infra("negative control failed for Trace_Purity: %s" % rj)
    rep.add("negative_control", corrupted_records_rejected=2)
    rep.assumptions = ["whether two goroutines touched the same word is observed by Go's race detector, not derived by TLC", "each goroutine owns its Signer; only certificates, keys, "
                       "version constants, parsed bundles and exchanges are shared", "ECDSA signatures are made before the measured calls"]
    # the command-line serializer of cert chains: same files, created in different orders, same bytes (Trace_Cli kind certpure)
    from cli_checks import cert_cli
    cert_cli(rep, "C18")
    return rep.finish()


def replay_c18(path):
    log("replay: re-running the check family on the current tree")
    return check_c18("quick")
