"""C20: command-line pipelines (tla/Cli.tla pipelines, Trace_Cli judging the produced files by the format specs)."""
import json, os, re, shutil, subprocess, time
import vlib
from vlib import Report, tlc, vh, trace_validate, workdir, log, Infra, REPO, WORK, GOENV

CLI = os.path.join(WORK, "bin", "cli")
TOOLS = ["gen-bundle", "dump-bundle", "sign-bundle", "gen-signedexchange", "dump-signedexchange", "gen-certurl", "dump-certurl"]

NAMES = {
    "plain": ["a.txt", "style.css"], "space": ["a b.txt"], "hash": ["h#frag.txt"], "qmark": ["a?b"], "pct": ["p%41.txt", "100%.txt"],
    "colon": ["x:y", "a.txt"], "nonascii": ["été.txt", "日本.html"], "nested": ["sub/dir/f.js", "sub/g.txt"], "empty": ["empty.bin", "a.txt"],
    "dotfiles": [".well-known/x.json", ".htaccess", "a.txt", "sub/.hidden/.y"],
    "indexroot": ["index.html", "a.txt"], "indexnested": ["sub/index.html", "sub/b.txt", "c.txt"], "plus": ["a+b.txt", "c,d;e=f.txt"], "amp": ["a&b.txt", "q'z(1).txt"],
}


_RUNS = 0
STALE_ALWAYS = False
# flags whose value names an existing input FILE: every other spelling of the same file must give the same result
INPUT_FLAGS = ("-i", "-pem", "-ocsp", "-content", "-certificate", "-privateKey", "-publicKey", "-cert", "-har")
SPELLINGS = ("plain", "symlink", "relative", "dotted", "plain", "symlink2")
_LINKS = 0


def respell(path, cwd, form):
    """Another spelling of an existing input file: through a symbolic link (in the same or in another directory), relative
    to the working directory, with redundant path segments."""
    global _LINKS
    if not os.path.isabs(path) or not os.path.isfile(path):
        return path
    d, base = os.path.split(path)
    if form in ("symlink", "symlink2"):
        _LINKS += 1
        ld = d if form == "symlink" else os.path.join(cwd, ".links")
        os.makedirs(ld, exist_ok=True)
        link = os.path.join(ld, "current-%d-%s" % (_LINKS, base))
        try:
            os.symlink(path if form == "symlink2" else base, link)
        except OSError:
            return path
        return link
    if form == "relative":
        return os.path.relpath(path, cwd)
    if form == "dotted":
        return "%s/./../%s//%s" % (d, os.path.basename(d), base) if os.path.basename(d) else path
    return path


def b(s):
    return list(s.encode("utf-8")) if isinstance(s, str) else list(s)


def build_cli():
    shutil.rmtree(CLI, ignore_errors=True)
    os.makedirs(CLI, exist_ok=True)
    p = subprocess.run(["go", "build", "-o", CLI + "/", "./go/bundle/cmd/...", "./go/signedexchange/cmd/..."], cwd=REPO, env=GOENV, capture_output=True, text=True)
    if p.returncode != 0:
        raise Infra("building the command-line tools from /repo failed:\n" + p.stderr[-3000:])
    for t in TOOLS:
        if not os.path.exists(os.path.join(CLI, t)):
            raise Infra("tool %s was not built" % t)
    # sign-bundle once more with the hook of /repo commit 0264ba8 compiled in (build tag verif): identical unless
    # VERIF_STRATEGY=rotating is in the environment, then the signing strategy's key rotates after its first answer
    p = subprocess.run(["go", "build", "-tags", "verif", "-o", os.path.join(CLI, "sign-bundle-verif"), "./go/bundle/cmd/sign-bundle"], cwd=REPO, env=GOENV, capture_output=True, text=True)
    if p.returncode != 0:
        raise Infra("building sign-bundle with -tags verif failed:\n" + p.stderr[-3000:])


def run(tool, args, cwd, env=None, timeout=60, stdin_bytes=None):
    e = dict(os.environ)
    if env:
        e.update(env)
    # the output path of every other invocation already holds a (longer) file, as when a build directory is reused:
    # what a tool writes must not depend on what was there before
    global _RUNS
    _RUNS += 1
    for flag in ("-o",):
        if flag in args and (_RUNS % 2 == 0 or STALE_ALWAYS):
            outp = args[args.index(flag) + 1]
            if not os.path.isabs(outp):
                outp = os.path.join(cwd, outp)
            if not os.path.exists(outp):
                try:
                    with open(outp, "wb") as f:
                        f.write(b"stale bytes of an earlier build\n" * 8000)
                except OSError:
                    pass
    args = list(args)
    outs = {os.path.realpath(os.path.join(cwd, args[i + 1])) for i in range(len(args) - 1) if args[i] == "-o"}
    k = 0
    for i in range(len(args) - 1):
        if args[i] in INPUT_FLAGS:
            k += 1
            form = SPELLINGS[(_RUNS + k) % len(SPELLINGS)]
            if os.path.realpath(args[i + 1]) in outs and form != "plain":
                form = "relative"       # in-place use: the input keeps naming the file the output replaces
            args[i + 1] = respell(args[i + 1], cwd, form)
    try:
        if stdin_bytes is not None:
            p = subprocess.run([os.path.join(CLI, tool)] + args, cwd=cwd, env=e, capture_output=True, timeout=timeout, input=stdin_bytes)
        else:
            p = subprocess.run([os.path.join(CLI, tool)] + args, cwd=cwd, env=e, capture_output=True, timeout=timeout, stdin=subprocess.DEVNULL)
        return p.returncode, p.stdout, p.stderr
    except subprocess.TimeoutExpired:
        return 124, b"", b"timeout"


def read(path):
    try:
        return open(path, "rb").read()
    except OSError:
        return b""


def _dir_pipeline(pl, sd, fix, info, cid):
    p1 = pl[0]["p"]
    names = NAMES[p1["names"]]
    d = os.path.join(sd, "site")
    files = []
    for i, n in enumerate(names):
        path = os.path.join(d, *n.split("/"))
        os.makedirs(os.path.dirname(path), exist_ok=True)
        body = b"" if "empty" in n else ("content of %s #%d\n" % (n, i)).encode() * (1 + i * 3)
        if n.endswith(".html"):
            body = b"<!doctype html><title>t</title>" + body
        open(path, "wb").write(body)
        files.append({"rel": b(n), "body": list(body)})
    origin = {"port": "https://example.com:8443", "otherhost": "https://other.example"}.get(p1["base"], "https://example.com")
    base = origin + ("/app/v1/" if p1["base"] == "sub" else "/")
    out = os.path.join(sd, "out.wbn")
    form = p1.get("dirform", "abs")
    cwd = sd
    os.makedirs(os.path.join(sd, "other"), exist_ok=True)
    dspell = {"abs": d, "rel": "site", "dotslash": "./site", "trailing": "site/", "dotend": "site/.", "dslash": "site//", "updown": "other/../site", "cwd": "."}[form]
    if form == "cwd":
        cwd = d
    args = ["-dir", dspell, "-baseURL", base, "-version", p1["ver"], "-o", out]
    if p1["ver"] == "b1":
        args += ["-primaryURL", base + names[-1].split("/")[0] if False else base, "-ignoreErrors"]
    if p1.get("override") == "contentenc":
        args += ["-headerOverride", "Content-Encoding: gzip"]
    if p1.get("override") == "variants":
        args += ["-headerOverride", "Variants: Accept-Language;en;fr"]
    rc, so, se = run("gen-bundle", args, cwd)
    ev = {"case": cid, "kind": "dirbundle", "dirform": form, "ver": p1["ver"], "names": p1["names"], "basepath": b(base[len(origin):]), "origin": b(origin), "covered": p1["base"] != "otherhost", "files": files,
          "gen_exit": rc, "file": list(read(out)), "sign": "none", "dump_exit": -1, "sign_exit": -1, "dump2_exit": -1,
          "marks": {"signed": 0, "notsigned": 0, "verr": 0, "sigerr": 0}, "stderr": se.decode("latin1")[-300:]}
    events = [ev]
    if rc == 0:
        rc2, so2, se2 = run("dump-bundle", ["-i", out], sd)
        ev["dump_exit"] = rc2
        ev["stderr"] += se2.decode("latin1")[-300:]
        if len(pl) > 1 and pl[1]["tool"] == "sign-bundle signatures-section":
            p2 = pl[1]["p"]
            cert = os.path.join(sd, "cert.cbor")
            rcg, sog, seg = run("gen-certurl", ["-pem", os.path.join(fix, "%s-cert%d.pem" % (p2["curve"], p2.get("ncerts", 1))), "-ocsp", os.path.join(fix, "ocsp.der")], sd)
            open(cert, "wb").write(sog)
            signed = out if p2.get("inplace") else os.path.join(sd, "signed.wbn")
            rcs, sos, ses = run("sign-bundle", ["signatures-section", "-i", out, "-o", signed, "-certificate", cert, "-privateKey", os.path.join(fix, "%s-%s.key" % (p2["curve"], p2["keyform"])),
                                                "-validityUrl", "https://example.com/validity", "-miRecordSize", str(p2["rs"])]
                                               + (["-expire", p2["expire"]] if p2.get("expire", "default") != "default" else []), sd)
            ev["sign"], ev["sign_exit"] = "sigsection", rcs if rcg == 0 else 90
            rcd, sod, sed = run("dump-bundle", ["-i", signed], sd)
            ev["dump2_exit"] = rcd
            t = sod.decode("latin1")
            ev["marks"] = {"signed": t.count("[Signed with certificate #"), "notsigned": t.count("[Not signed]"), "verr": t.count("[Response verification error"), "sigerr": t.count("Signature verification error")}
            ev["stderr"] += ses.decode("latin1")[-300:]
        if len(pl) > 1 and pl[1]["tool"] == "sign-bundle integrity-block":
            p2 = pl[1]["p"]
            kf = p2["keyform"]
            key = os.path.join(fix, "ed25519-encrypted.key" if kf == "encrypted" else "ed25519-pkcs8.key")
            env = {"WEB_BUNDLE_SIGNING_PASSPHRASE": "verif-passphrase"} if kf == "encrypted" else {}
            signed = os.path.join(sd, "ib.swbn")
            strat = p2.get("strategy", "stable")
            if strat == "rotating":
                env = dict(env, VERIF_STRATEGY="rotating")
            rcs, sos, ses = run("sign-bundle-verif" if strat != "stable" or p2.get("hooked") else "sign-bundle", ["integrity-block", "-i", out, "-o", signed, "-privateKey", key], sd, env=env)
            env.pop("VERIF_STRATEGY", None)
            m = re.search(rb"Web Bundle ID: (\S+)", sos)
            if kf == "public":
                rci, soi, sei = run("sign-bundle", ["dump-id", "-publicKey", os.path.join(fix, "ed25519-pub.pem")], sd)
            else:
                rci, soi, sei = run("sign-bundle", ["dump-id", "-privateKey", key], sd, env=env)
            mi = re.search(rb"Web Bundle ID: (\S+)", soi)
            rcd, _, _ = run("dump-bundle", ["-i", signed], sd)       # refused by design
            events.append({"case": cid + "-ib", "kind": "ibcli", "infile": list(read(out)), "out": list(read(signed)), "pk": info["ed25519-pub"], "pk2": info["ed25519-pub2"], "strategy": strat, "sign_exit": rcs,
                           "id": list(m.group(1)) if m else [], "dumpid_exit": rci, "dumpid": list(mi.group(1)) if mi else [], "keyform": kf,
                           "dump_refuses": rcd != 0, "stderr": (ses + sei).decode("latin1")[-300:]})
    return events


def _cert_pipeline(pl, sd, fix, info, cid):
    p1 = pl[0]["p"]
    args = ["-pem", os.path.join(fix, "%s-cert%d.pem" % (p1["curve"], p1["ncerts"])), "-ocsp", os.path.join(fix, "ocsp.der")]
    if p1["sct"]:
        args += ["-sctDir", os.path.join(fix, "scts")]
    rc, so, se = run("gen-certurl", args, sd)
    cp = os.path.join(sd, "cert.cbor")
    open(cp, "wb").write(so)
    rc2, so2, se2 = run("dump-certurl", ["-i", cp], sd)
    certs = [info[p1["curve"] + "-leaf"]] + ([info[p1["curve"] + "-ca"]] if p1["ncerts"] == 2 else [])
    return [{"case": cid, "kind": "certcli", "params": "%s, %d certificate(s), %s" % (p1["curve"], p1["ncerts"], "-sctDir" if p1["sct"] else "no -sctDir"), "certs": certs, "ocsp": list(read(os.path.join(fix, "ocsp.der"))), "hassct": bool(p1["sct"]),
             "scts": [list(read(os.path.join(fix, "scts", "a.sct"))), list(read(os.path.join(fix, "scts", "b.sct")))] if p1["sct"] else [],
             "gen_exit": rc, "out": list(so), "dump_exit": rc2, "stderr": (se + se2).decode("latin1")[-300:]}]


def _sxg_pipeline(pl, sd, fix, info, cid):
    p0, p1 = pl[0]["p"], pl[1]["p"]
    rcg, sog, seg = run("gen-certurl", ["-pem", os.path.join(fix, "%s-cert%d.pem" % (p1["curve"], p0.get("ncerts", 1))), "-ocsp", os.path.join(fix, "ocsp.der")], sd)
    cp = os.path.join(sd, "cert.cbor")
    open(cp, "wb").write(sog)
    content = {"empty": b"", "small": b"<p>hello</p>", "multi": bytes(range(256)) * 3}[p1["content"]]
    open(os.path.join(sd, "payload"), "wb").write(content)
    out = os.path.join(sd, "out.sxg")
    args = ["-version", p1["ver"], "-uri", "https://example.com/doc.html", "-status", str(p1["status"]), "-content", os.path.join(sd, "payload"),
            "-certificate", os.path.join(fix, "%s-cert%d.pem" % (p1["curve"], p0.get("ncerts", 1))), "-privateKey", os.path.join(fix, "%s-%s.key" % (p1["curve"], p1["keyform"])),
            "-certUrl", "https://example.com/cert.cbor", "-validityUrl", "https://example.com/validity", "-miRecordSize", str(p1["rs"]), "-expire", p1["expire"], "-o", out]
    if p1["cc"] == "public":
        args += ["-responseHeader", "Cache-Control: public, max-age=60"]
    elif p1["cc"] == "twolines":
        args += ["-responseHeader", "Cache-Control: public", "-responseHeader", "cache-control: max-age=60", "-responseHeader", "X-Multi: a", "-responseHeader", "X-Multi: b"]
    t0 = int(time.time())
    rc, so, se = run("gen-signedexchange", args, sd)
    rc2, so2, se2 = run("dump-signedexchange", ["-i", out, "-verify", "-cert", cp], sd)
    return [{"case": cid, "kind": "sxgcli", "ver": p1["ver"], "gen_exit": rc if rcg == 0 else 90, "file": list(read(out)), "leaf": info[p1["curve"] + "-leaf"],
             "t": {"s": list((t0 + 1).to_bytes(8, "big")), "ns": 0}, "content": list(content), "dump_exit": rc2, "valid": b"The exchange has a valid signature." in so2,
             "params": p1, "stderr": (se + se2 + so2[-200:]).decode("latin1")[-400:]}]


HDR_FLAGS = {
    "none": ([], []),
    "colon": ([], ["Link: <https://example.com/style.css>;rel=preload;as=style", "Content-Location: https://example.com:443/a:b", "X-Time:12:30:45", "Last-Modified: Mon, 07 Jan 2019 07:29:39 GMT"]),
    "repeat": ([], ["Cache-Control: max-age=600", "Cache-Control: public", "X-Multi: a", "x-multi: b", "X-MULTI:c", "Vary: Accept", "Content-Type: text/plain", "Vary: Accept-Language"]),
    "pad": ([], ["X-Pad:    v  w   ", "X-Empty:", " X-Lead : lead", "X-Tab:\tt\t"]),
    "request": (["Accept: text/html;q=0.9, */*;q=0.8", "Referer: https://example.com/a:b?c=d", "Accept-Language: en", "accept-language: fr;q=0.5", "X-Req:  padded  "],
                ["X-Resp: r:1"]),
}


def _split_flag(h):
    n, v = h.split(":", 1)
    return {"n": b(n.strip(" \t\r\n\v\f")), "v": b(v.strip(" \t\r\n\v\f"))}


def _sxgflags_pipeline(pl, sd, fix, info, cid):
    """gen-signedexchange as a relation between the TEXT of its flags and the file: every -requestHeader / -responseHeader
    value (name = text before the first colon, value = the rest, both trimmed; one name given several times = one field with
    the values comma-joined in flag order), -uri, -method, -status, -date; the two debugging dumps; output to stdout."""
    p1 = pl[1]["p"]
    rcg, sog, seg = run("gen-certurl", ["-pem", os.path.join(fix, "p256-cert1.pem"), "-ocsp", os.path.join(fix, "ocsp.der")], sd)
    cp = os.path.join(sd, "cert.cbor")
    open(cp, "wb").write(sog)
    content = b"<p>flags</p>" * 3
    open(os.path.join(sd, "payload"), "wb").write(content)
    out = os.path.join(sd, "out.sxg")
    uri = "https://example.com/dir/doc.html?q=a:b"
    status = 200 if p1["hdr"] != "pad" else 404
    reqf, respf = HDR_FLAGS[p1["hdr"]]
    if p1["ver"] == "1b3":
        reqf = []
    args = ["-version", p1["ver"], "-uri", uri, "-status", str(status), "-method", p1["method"], "-content", os.path.join(sd, "payload"),
            "-certificate", os.path.join(fix, "p256-cert1.pem"), "-privateKey", os.path.join(fix, "p256-sec1.key"),
            "-certUrl", "https://example.com/cert.cbor", "-validityUrl", "https://example.com/validity", "-miRecordSize", "16", "-expire", "1h",
            "-dumpSignatureMessage", os.path.join(sd, "msg.bin"), "-dumpHeadersCbor", os.path.join(sd, "hdr.cbor")]
    for h in reqf:
        args += ["-requestHeader", h]
    for h in respf:
        args += ["-responseHeader", h]
    t0 = int(time.time())
    if p1["date"] == "fixed":
        args += ["-date", "2021-03-04T05:06:07Z"]
        t0 = 1614834367 - 1
    args += ["-o", "-" if p1["out"] == "stdout" else out]
    rc, so, se = run("gen-signedexchange", args, sd)
    if p1["out"] == "stdout":
        open(out, "wb").write(so)
    rc2, so2, se2 = run("dump-signedexchange", ["-i", out, "-verify", "-cert", cp], sd)
    return [{"case": cid, "kind": "sxgflags", "ver": p1["ver"], "gen_exit": rc if rcg == 0 else 90, "file": list(read(out)), "leaf": info["p256-leaf"],
             "t": {"s": list((t0 + 1).to_bytes(8, "big")), "ns": 0}, "content": list(content), "dump_exit": rc2, "valid": b"The exchange has a valid signature." in so2,
             "now": p1["date"] == "now", "uri": b(uri), "method": b(p1["method"]), "status": status,
             "reqflags": [_split_flag(h) for h in reqf], "respflags": [_split_flag(h) for h in respf],
             "msgdump": list(read(os.path.join(sd, "msg.bin"))), "hdrdump": list(read(os.path.join(sd, "hdr.cbor"))),
             "params": p1, "stderr": (se + se2 + so2[-200:]).decode("latin1")[-400:]}]


_HTTPD = None


def _loopback_server(root):
    """A loopback HTTP server (thread) that serves files of `root`, labelling a signed exchange with the media type of the
    version its first bytes name.  None if the sandbox has no loopback networking."""
    global _HTTPD
    if _HTTPD is not None:
        return _HTTPD
    import http.server, threading, socket

    class H(http.server.BaseHTTPRequestHandler):
        routes = {}      # path (with query) -> (status, [(name, value)], body) | ("redirect", location)
        seen = []        # requests to routed paths: {"method", "path", "ctype", "body"}

        def _routed(self, method):
            r = H.routes.get(self.path)
            if r is None and not any(self.path.startswith(k[:-1]) for k in H.routes if k.endswith("*")):
                return False
            body = b""
            if method == "POST":
                body = self.rfile.read(int(self.headers.get("Content-Length", "0")))
            H.seen.append({"method": method, "path": self.path, "ctype": self.headers.get("Content-Type", ""), "body": body})
            if r is None:
                r = [v for k, v in H.routes.items() if k.endswith("*") and self.path.startswith(k[:-1])][0]
            if r[0] == "redirect":
                self.send_response_only(301)
                self.send_header("Location", r[1])
                self.send_header("Content-Length", "0")
                self.end_headers()
                return True
            status, hdrs, data = r
            self.send_response_only(status)
            for n, v in hdrs:
                self.send_header(n, v)
            self.send_header("Content-Length", str(len(data)))
            self.end_headers()
            self.wfile.write(data)
            return True

        def do_POST(self):
            if not self._routed("POST"):
                self.send_response(404); self.end_headers()

        def do_GET(self):
            if self._routed("GET"):
                return
            try:
                data = open(os.path.join(H.root, self.path.lstrip("/").split("?")[0]), "rb").read()
            except OSError:
                self.send_response(404); self.end_headers(); return
            ct = {b"sxg1-b1\0": "application/signed-exchange;v=b1", b"sxg1-b2\0": "application/signed-exchange;v=b2", b"sxg1-b3\0": "application/signed-exchange;v=b3"}.get(data[:8], "application/octet-stream")
            self.send_response(200)
            self.send_header("Content-Type", ct)
            self.send_header("Content-Length", str(len(data)))
            self.end_headers()
            self.wfile.write(data)

        def log_message(self, *a):
            pass
    try:
        srv = http.server.ThreadingHTTPServer(("127.0.0.1", 0), H)
        threading.Thread(target=srv.serve_forever, daemon=True).start()
        port = srv.server_address[1]
        socket.create_connection(("127.0.0.1", port), timeout=3).close()
    except OSError:
        _HTTPD = (None, None)
        return _HTTPD
    _HTTPD = (H, port)
    return _HTTPD


def _sxgdefaults_pipeline(pl, sd, fix, info, cid):
    p1 = pl[1]["p"]
    rcg, sog, seg = run("gen-certurl", ["-pem", os.path.join(fix, "p256-cert1.pem"), "-ocsp", os.path.join(fix, "ocsp.der")], sd)
    cp = os.path.join(sd, "cert.cbor")
    open(cp, "wb").write(sog)
    content = b"<p>defaults</p>"
    open(os.path.join(sd, "payload"), "wb").write(content)
    out = os.path.join(sd, "out.sxg")
    args = ["-uri", "https://example.com/doc.html", "-content", os.path.join(sd, "payload"), "-certificate", os.path.join(fix, "p256-cert1.pem"), "-privateKey", os.path.join(fix, "p256-sec1.key"),
            "-certUrl", "https://example.com/cert.cbor", "-validityUrl", "https://example.com/validity", "-o", out]
    if p1["genver"] != "default":
        args = ["-version", p1["genver"]] + args
    rc, so, se = run("gen-signedexchange", args, sd)
    ver = "1b3" if p1["genver"] == "default" else p1["genver"]
    dargs = ["-verify", "-cert", cp]
    if p1["dumpver"] == "same" and p1["genver"] != "default":
        dargs += ["-version", p1["genver"]]
    skipped = False
    if p1["via"] == "file":
        rc2, so2, se2 = run("dump-signedexchange", ["-i", out] + dargs, sd)
    elif p1["via"] == "stdin":
        rc2, so2, se2 = run("dump-signedexchange", dargs, sd, stdin_bytes=read(out))
    else:
        H, port = _loopback_server(sd)
        if H is None:
            skipped = True
            rc2, so2, se2 = 0, b"The exchange has a valid signature.", b"(no loopback networking: not run)"
        else:
            H.root = sd
            # the version to ask for is known to a user who fetches: without -version the tool asks for its default, which is the
            # version gen-signedexchange writes by default; an exchange of another version is fetched with that -version
            if p1["genver"] != "default" and "-version" not in dargs:
                dargs += ["-version", p1["genver"]]
            rc2, so2, se2 = run("dump-signedexchange", ["-uri", "http://127.0.0.1:%d/out.sxg" % port] + dargs, sd)
    return [{"case": cid, "kind": "sxgdefaults", "ver": ver, "gen_exit": rc if rcg == 0 else 90, "file": list(read(out)), "dump_exit": rc2, "valid": b"The exchange has a valid signature." in so2,
             "params": p1, "skipped": skipped, "stderr": (se + se2 + so2[-200:]).decode("latin1")[-400:]}]


UL_BODY = {"a": b"<p>alpha</p>", "b": bytes(range(0, 256, 3)), "c": b"", "d": b"not found here"}


def _urllist_pipeline(pl, sd, fix, info, cid):
    """gen-bundle -URLList against the loopback server: the bundle holds, per listed URL, what the server answered."""
    p0 = pl[0]["p"]
    H, port = _loopback_server(sd)
    if H is None:
        return [{"case": cid, "kind": "urllist", "skipped": True}]
    base = "http://127.0.0.1:%d" % port
    c = p0["ul"]
    ct = ("Content-Type", "text/html")
    routes = {"/ul/a.html": (200, [ct], UL_BODY["a"]), "/ul/b.bin": (200, [("Content-Type", "application/octet-stream")], UL_BODY["b"]), "/ul/gone": (404, [("Content-Type", "text/plain")], UL_BODY["d"])}
    lines = [base + "/ul/a.html", base + "/ul/b.bin", base + "/ul/gone"]
    text = None
    if c == "comments":
        text = "# a list\n\n  %s  \n\t%s\r\n#%s\n%s\n\n%s\n   \n" % (lines[0], lines[1], lines[2], lines[0], lines[2])
    elif c == "query":
        routes["/ul/q?x=1&y=%20z"] = (200, [ct], b"query one")
        routes["/ul/q?x=2"] = (203, [ct], b"query two")
        routes["/ul/p%41th/%7Euser"] = (200, [ct], b"escaped path")
        lines = [base + "/ul/q?x=1&y=%20z", base + "/ul/q?x=2", base + "/ul/p%41th/%7Euser", base + "/ul/a.html"]
    elif c == "redirect":
        routes["/ul/moved"] = ("redirect", "/ul/a.html")
        routes["/ul/moved2"] = ("redirect", base + "/ul/moved")
        lines = [base + "/ul/moved", base + "/ul/a.html", base + "/ul/moved2"]
    elif c == "headers":
        routes["/ul/h"] = (200, [ct, ("X-Multi", "a"), ("x-multi", "b"), ("X-MiXed-Case", "Value With  Spaces"), ("Cache-Control", "max-age=60"), ("Link", "<https://example.com/s.css>;rel=preload")], b"headers")
        lines = [base + "/ul/h", base + "/ul/b.bin"]
    elif c == "emptybody":
        routes["/ul/empty"] = (200, [ct], b"")
        routes["/ul/nocontent"] = (204, [], b"")
        lines = [base + "/ul/empty", base + "/ul/nocontent", base + "/ul/a.html"]
    if text is None:
        text = "\n".join(lines) + "\n"
    H.routes, H.seen = routes, []
    lp = os.path.join(sd, "urls.txt")
    open(lp, "w").write(text)
    out = os.path.join(sd, "ul.wbn")
    args = ["-URLList", lp, "-version", p0["ver"], "-o", out]
    if p0["ver"] == "b1":
        args += ["-primaryURL", lines[0]]
    rc, so, se = run("gen-bundle", args, sd)
    rc2, so2, se2 = run("dump-bundle", ["-i", out], sd)
    H.routes = {}

    def final(path, depth=0):
        r = routes[path]
        if r[0] == "redirect" and depth < 5:
            return final(r[1][len(base):] if r[1].startswith(base) else r[1], depth + 1)
        return r
    served = []
    for path in routes:
        st, hdrs, body = final(path)
        by = {}
        for n, v in hdrs + [("Content-Length", str(len(body)))]:
            by.setdefault(n.lower(), []).append(v)
        served.append({"url": b(base + path), "status": st, "resph": [{"n": b(n), "vs": [b(v) for v in vs]} for n, vs in by.items()], "body": list(body)})
    return [{"case": cid, "kind": "urllist", "skipped": False, "ver": p0["ver"], "ul": c, "listfile": b(text), "served": served, "file": list(read(out)), "gen_exit": rc, "dump_exit": rc2,
             "stderr": (se + se2).decode("latin1")[-300:]}]


def _ocspfetch_pipeline(pl, sd, fix, info, cid):
    """gen-certurl without -ocsp: the responder named in the leaf certificate is asked (POST, or GET with -preferGET)."""
    p0 = pl[0]["p"]
    H, port = _loopback_server(sd)
    name = "p256-ocsplong" if p0["fetch"] == "gettoolong" else "p256-ocspleaf"
    if H is None or name + "-leaf" not in info:
        return [{"case": cid, "kind": "ocspfetch", "skipped": True}]
    base = "http://127.0.0.1:%d" % port
    answer = b"ocsp-answer-" + p0["fetch"].encode() + bytes(range(40))
    pem = os.path.join(fix, name + "-cert2.pem")
    # the POST form of the same invocation shows the DER request this certificate pair leads to
    H.routes, H.seen = {"/ocsp*": (200, [("Content-Type", "application/ocsp-response")], answer)}, []
    run("gen-certurl", ["-pem", pem], sd)
    reqder = H.seen[0]["body"] if H.seen and H.seen[0]["method"] == "POST" else b""
    H.seen = []
    args = ["-pem", pem] + (["-preferGET"] if p0["fetch"] != "post" else [])
    rc, so, se = run("gen-certurl", args, sd)
    reqs = [{"method": b(r["method"]), "path": b(r["path"]), "ctype": b(r["ctype"]), "body": list(r["body"])} for r in H.seen]
    H.routes = {}
    cp = os.path.join(sd, "cert.cbor")
    open(cp, "wb").write(so)
    rc2, so2, se2 = run("dump-certurl", ["-i", cp], sd)
    return [{"case": cid, "kind": "ocspfetch", "skipped": False, "fetch": p0["fetch"], "preferget": p0["fetch"] != "post", "certs": [info[name + "-leaf"], info[name + "-ca"]], "answer": list(answer),
             "responder": info[name + "-responder"], "responderbase": b(base), "reqder": list(reqder), "reqs": reqs, "out": list(so), "gen_exit": rc, "dump_exit": rc2,
             "stderr": (se + se2).decode("latin1")[-300:]}]


def _sxg_basic(sd, fix, ver, certurl="https://example.com/cert.cbor", ncerts=1, content=b"<p>view</p>" * 5):
    rcg, sog, seg = run("gen-certurl", ["-pem", os.path.join(fix, "p256-cert%d.pem" % ncerts), "-ocsp", os.path.join(fix, "ocsp.der")], sd)
    cp = os.path.join(sd, "cert.cbor")
    open(cp, "wb").write(sog)
    open(os.path.join(sd, "payload"), "wb").write(content)
    out = os.path.join(sd, "out.sxg")
    t0 = int(time.time())
    rc, so, se = run("gen-signedexchange", ["-version", ver, "-uri", "https://example.com/view.html?x=1", "-status", "200", "-content", os.path.join(sd, "payload"),
                                            "-certificate", os.path.join(fix, "p256-cert%d.pem" % ncerts), "-privateKey", os.path.join(fix, "p256-sec1.key"), "-certUrl", certurl,
                                            "-validityUrl", "https://example.com/validity", "-miRecordSize", "16", "-expire", "1h", "-responseHeader", "X-View: 1", "-o", out], sd)
    return rc if rcg == 0 else 90, cp, out, t0, content, se


def _sxgview_pipeline(pl, sd, fix, info, cid):
    """dump-signedexchange's views of one exchange as functions of the file."""
    p1 = pl[1]["p"]
    rc, cp, out, t0, content, se = _sxg_basic(sd, fix, p1["ver"])
    view = p1["view"]
    args = {"headerIntegrity": ["-headerIntegrity"], "signature": ["-signature"], "json": ["-json", "-cert", cp], "payloadonly": ["-verify", "-cert", cp, "-headers=false"]}[view]
    rc2, so2, se2 = run("dump-signedexchange", ["-i", out] + args, sd)
    js = {"ok": False, "valid": False, "integrity": [], "uri": [], "status": 0, "sigvalue": [], "haspayload": False}
    if view == "json":
        try:
            d = json.loads(so2.decode("utf-8"))
            js = {"ok": True, "valid": bool(d["Valid"]), "integrity": b(d["HeaderIntegrity"]), "uri": b(d["RequestURI"]), "status": int(d["ResponseStatus"]),
                  "sigvalue": b(d.get("SignatureHeaderValue") or ""), "haspayload": bool(d.get("Payload"))}
        except Exception:
            pass
    return [{"case": cid, "kind": "sxgview", "ver": p1["ver"], "view": view, "gen_exit": rc, "file": list(read(out)), "leaf": info["p256-leaf"], "t": {"s": list((t0 + 1).to_bytes(8, "big")), "ns": 0},
             "dump_exit": rc2, "stdout": list(so2), "json": js, "stderr": (se + se2).decode("latin1")[-300:]}]


_TLS = None


def _tls_server(fix):
    """A loopback HTTPS server (thread) with the fixture certificate; serves H.files (path -> bytes) and counts requests."""
    global _TLS
    if _TLS is not None:
        return _TLS
    import http.server, threading, ssl, socket

    class T(http.server.BaseHTTPRequestHandler):
        files = {}
        hits = 0

        def do_GET(self):
            T.hits += 1
            data = T.files.get(self.path)
            if data is None:
                self.send_response(404); self.send_header("Content-Length", "0"); self.end_headers(); return
            self.send_response(200)
            self.send_header("Content-Type", "application/cert-chain+cbor")
            self.send_header("Content-Length", str(len(data)))
            self.end_headers()
            self.wfile.write(data)

        def log_message(self, *a):
            pass
    try:
        ctx = ssl.SSLContext(ssl.PROTOCOL_TLS_SERVER)
        ctx.load_cert_chain(os.path.join(fix, "tls-cert.pem"), os.path.join(fix, "tls-key.pem"))
        srv = http.server.ThreadingHTTPServer(("127.0.0.1", 0), T)
        srv.socket = ctx.wrap_socket(srv.socket, server_side=True)
        threading.Thread(target=srv.serve_forever, daemon=True).start()
        _TLS = (T, srv.server_address[1])
    except (OSError, ssl.SSLError, FileNotFoundError):
        _TLS = (None, None)
    return _TLS


def _sxgfetch_pipeline(pl, sd, fix, info, cid):
    """dump-signedexchange -verify without -cert: the chain comes from the exchange's own cert-url (https, loopback)."""
    p0, p1 = pl[0]["p"], pl[1]["p"]
    T, port = _tls_server(fix)
    if T is None:
        return [{"case": cid, "kind": "sxgfetch", "skipped": True}]
    url = "https://127.0.0.1:%d/chains/%s.cbor" % (port, cid)
    rc, cp, out, t0, content, se = _sxg_basic(sd, fix, p1["ver"], certurl=url, ncerts=p0["ncerts"])
    T.files, T.hits = {}, 0
    if p1["certfetch"] == "served":
        T.files = {"/chains/%s.cbor" % cid: read(cp)}
    elif p1["certfetch"] == "other":
        rco, soo, seo = run("gen-certurl", ["-pem", os.path.join(fix, "p384-cert1.pem"), "-ocsp", os.path.join(fix, "ocsp.der")], sd)
        T.files = {"/chains/%s.cbor" % cid: soo}
    env = dict(os.environ, SSL_CERT_FILE=os.path.join(fix, "tls-cert.pem"), SSL_CERT_DIR="/nonexistent")
    rc2, so2, se2 = run("dump-signedexchange", ["-i", out, "-verify"], sd, env=env)
    return [{"case": cid, "kind": "sxgfetch", "skipped": False, "ver": p1["ver"], "certfetch": p1["certfetch"], "gen_exit": rc, "file": list(read(out)), "leaf": info["p256-leaf"],
             "t": {"s": list((t0 + 1).to_bytes(8, "big")), "ns": 0}, "dump_exit": rc2, "valid": b"The exchange has a valid signature." in so2, "fetched": T.hits,
             "stderr": (se + se2 + so2[-200:]).decode("latin1")[-400:]}]


def _manifest_pipeline(pl, sd, fix, info, cid):
    """gen-bundle -dir -manifestURL: b1 carries the URL in its manifest section, b2 (no such section) is refused."""
    p0 = pl[0]["p"]
    d = os.path.join(sd, "site")
    names = NAMES[p0["names"]]
    for n in names:
        fp = os.path.join(d, n)
        os.makedirs(os.path.dirname(fp), exist_ok=True)
        open(fp, "wb").write(("content of " + n).encode())
    base = "https://example.com/"
    mf = {"sameorigin": base + "manifest.webmanifest", "query": base + "app/manifest.json?v=2&lang=en"}[p0["manifest"]]
    out = os.path.join(sd, "m.wbn")
    args = ["-dir", d, "-baseURL", base, "-version", p0["ver"], "-manifestURL", mf, "-o", out]
    if p0["ver"] == "b1":
        args += ["-primaryURL", base + names[0]]
    rc, so, se = run("gen-bundle", args, sd)
    # a refused invocation may leave an (empty or partial) output file behind; what counts is the exit status
    rc2, so2, se2 = run("dump-bundle", ["-i", out], sd) if rc == 0 else (-1, b"", b"")
    return [{"case": cid, "kind": "manifestcli", "ver": p0["ver"], "manifest": b(mf), "nfiles": len(names), "file": list(read(out)) if rc == 0 else [], "gen_exit": rc, "dump_exit": rc2,
             "stderr": (se + se2).decode("latin1")[-300:]}]


def _har_pipeline(pl, sd, fix, info, cid):
    import base64
    p1 = pl[0]["p"]
    def hdrs(d):
        return [{"name": k, "value": v} for k, v in d]
    ents = [
        ("GET", "https://example.com/", 200, [("Accept", "*/*"), ("Cookie", "a=b")], [("Content-Type", "text/html"), ("Set-Cookie", "x=y"), (":status", "200"), ("X-Keep", "1")], b"<p>root</p>", None),
        ("POST", "https://example.com/form", 200, [], [("Content-Type", "text/plain")], b"posted", None),
        ("GET", "https://example.com/img.bin", 200, [], [("Content-Type", "application/octet-stream"), ("Connection", "close")], bytes(range(0, 256, 5)), "base64"),
        ("GET", "https://example.com/", 200, [], [("Content-Type", "text/html")], b"<p>dup</p>", None),
        ("GET", "https://example.com/missing", 404, [], [("Content-Type", "text/plain"), ("Strict-Transport-Security", "max-age=1")], b"nope", None),
    ]
    if p1.get("har") == "statuses":
        ents = [("GET", "https://example.com/s%d" % st, st, [], [("Content-Type", "text/plain")], ("status %d" % st).encode(), None) for st in (200, 0, 99, 100, 999, 1000, 599, -1)]
    har = {"log": {"version": "1.2", "creator": {"name": "verif", "version": "1"}, "entries": []}}
    entries = []
    for m, u, st, rq, rs, body, enc in ents:
        content = {"size": len(body), "mimeType": dict(rs).get("Content-Type", ""), "text": base64.b64encode(body).decode() if enc else body.decode("latin1")}
        if enc:
            content["encoding"] = enc
        har["log"]["entries"].append({"startedDateTime": "2020-01-01T00:00:00.000Z", "time": 1, "request": {"method": m, "url": u, "httpVersion": "HTTP/1.1", "headers": hdrs(rq), "queryString": [], "cookies": [], "headersSize": -1, "bodySize": 0},
                                      "response": {"status": st, "statusText": "", "httpVersion": "HTTP/1.1", "headers": hdrs(rs), "cookies": [], "content": content, "redirectURL": "", "headersSize": -1, "bodySize": len(body)}, "cache": {}, "timings": {"send": 0, "wait": 0, "receive": 0}})
        entries.append({"method": b(m), "url": b(u), "status": st, "resph": [{"n": b(k), "v": b(v)} for k, v in rs], "body": list(body)})
    hp = os.path.join(sd, "in.har")
    json.dump(har, open(hp, "w"))
    out = os.path.join(sd, "har.wbn")
    args = ["-har", hp, "-version", p1["ver"], "-o", out]
    if p1["ver"] == "b1":
        args += ["-primaryURL", ents[0][1]]
    rc, so, se = run("gen-bundle", args, sd)
    rc2, so2, se2 = run("dump-bundle", ["-i", out], sd)
    return [{"case": cid, "kind": "harcli", "ver": p1["ver"], "entries": entries, "file": list(read(out)), "gen_exit": rc, "dump_exit": rc2, "stderr": (se + se2).decode("latin1")[-300:]}]


def ib_cli(rep, pid):
    """The command-line path of integrity-block signing (used by C07 too): gen-bundle -> sign-bundle integrity-block /
    dump-id with every key form, every output path already holding a longer file.  Returns number of records."""
    global STALE_ALWAYS
    build_cli()
    wd = workdir(pid)
    fix = os.path.join(wd, "fixtures")
    shutil.rmtree(fix, ignore_errors=True)
    Hsrv, hport = _loopback_server(wd)
    info = vh(["cli-fixtures", fix] + (["http://127.0.0.1:%d" % hport] if Hsrv is not None else []))[0]
    scratch = vlib.fresh(os.path.join(wd, "scratch"))
    events = []
    STALE_ALWAYS = True
    try:
        i = 0
        for names in ("plain", "empty", "nested"):
            for kf in ("pkcs8", "encrypted", "public"):
                i += 1
                pl = [{"tool": "gen-bundle -dir", "p": {"names": names, "ver": "b2", "base": "root", "override": "none"}},
                      {"tool": "sign-bundle integrity-block", "p": {"keyform": kf}}, {"tool": "sign-bundle dump-id", "p": {"keyform": kf}}]
                sd = vlib.fresh(os.path.join(scratch, "ib%d" % i))
                events += [e for e in _dir_pipeline(pl, sd, fix, info, "ibcli%d" % i) if e["kind"] == "ibcli"]
                shutil.rmtree(sd, ignore_errors=True)
        # a signing strategy whose key changes between two requests (an HSM slot re-keyed meanwhile), through the hook of
        # /repo 0264ba8; and the hooked binary with the hook idle, which must behave as the production one
        for kf, st, hk in (("pkcs8", "rotating", True), ("encrypted", "rotating", True), ("pkcs8", "stable", True)):
            i += 1
            pl = [{"tool": "gen-bundle -dir", "p": {"names": "plain" if i % 2 else "nested", "ver": "b2", "base": "root", "override": "none"}},
                  {"tool": "sign-bundle integrity-block", "p": {"keyform": kf, "strategy": st, "hooked": hk}}, {"tool": "sign-bundle dump-id", "p": {"keyform": kf}}]
            sd = vlib.fresh(os.path.join(scratch, "ib%d" % i))
            events += [e for e in _dir_pipeline(pl, sd, fix, info, "ibcli%d-%s" % (i, st)) if e["kind"] == "ibcli"]
            shutil.rmtree(sd, ignore_errors=True)
        # output on another filesystem than the scratch / temporary directory (a tool that stages its output elsewhere and
        # renames it into place must stage it next to the destination)
        shm = "/dev/shm"
        try:
            other = os.path.isdir(shm) and os.access(shm, os.W_OK) and os.stat(shm).st_dev != os.stat(scratch).st_dev
        except OSError:
            other = False
        if other:
            sd = os.path.join(shm, "verif-ibcli-%d" % os.getpid())
            shutil.rmtree(sd, ignore_errors=True)
            os.makedirs(sd)
            old_tmp = os.environ.get("TMPDIR")
            os.environ["TMPDIR"] = scratch
            try:
                pl = [{"tool": "gen-bundle -dir", "p": {"names": "plain", "ver": "b2", "base": "root", "override": "none"}},
                      {"tool": "sign-bundle integrity-block", "p": {"keyform": "pkcs8"}}, {"tool": "sign-bundle dump-id", "p": {"keyform": "pkcs8"}}]
                events += [e for e in _dir_pipeline(pl, sd, fix, info, "ibcli-otherfs") if e["kind"] == "ibcli"]
            finally:
                shutil.rmtree(sd, ignore_errors=True)
                if old_tmp is None:
                    os.environ.pop("TMPDIR", None)
                else:
                    os.environ["TMPDIR"] = old_tmp
    finally:
        STALE_ALWAYS = False
    outp = os.path.join(wd, "ibcli.ndjson")
    cases = {}
    with open(outp, "w") as f:
        for e in events:
            cases[e["case"]] = e
            f.write(json.dumps(e) + "\n")
    n, rejects, states = trace_validate("Trace_Cli", pid + "/ibcli", outp, overrides=True, shards=8, timeout=3000)
    rep.cov["states"] += states
    rep.cov["transitions"] += states
    rep.cov["traces_validated_against_impl"] += n
    for rj in rejects:
        c = cases[rj["case"]]
        for w in rj["why"]:
            rep.violation("ibcli:%s:%s" % (c["keyform"], w[:50]), "sign-bundle integrity-block / dump-id (%s key) on a %d-byte bundle, output path holding an older, longer file: %s [exits sign=%s dump-id=%s; output %d bytes; %s]" % (
                c["keyform"], len(c["infile"]), w, c["sign_exit"], c["dumpid_exit"], len(c["out"]), c["stderr"][-160:]), {"component": "cli", "event": {k: v for k, v in c.items() if k not in ("infile", "out")}, "why": w})
    rep.add("cli_integrity_block", records=n, rejected=len(rejects))
    return n


def sig_cli(rep, pid):
    """The command-line path of signatures-section signing (used by C06 too): gen-bundle -> sign-bundle signatures-section
    (in place and to a new file, leaf-only and leaf+issuer chains, both key layouts) -> dump-bundle."""
    build_cli()
    wd = workdir(pid)
    fix = os.path.join(wd, "fixtures")
    shutil.rmtree(fix, ignore_errors=True)
    Hsrv, hport = _loopback_server(wd)
    info = vh(["cli-fixtures", fix] + (["http://127.0.0.1:%d" % hport] if Hsrv is not None else []))[0]
    scratch = vlib.fresh(os.path.join(wd, "scratch-sig"))
    events = []
    i = 0
    for ver in ("b1", "b2"):
        for inplace in (True, False):
            for nc, kf in ((1, "sec1"), (2, "sec1params")):
                i += 1
                pl = [{"tool": "gen-bundle -dir", "p": {"names": "nested", "ver": ver, "base": "root", "override": "none"}},
                      {"tool": "sign-bundle signatures-section", "p": {"keyform": kf, "curve": "p256" if i % 2 else "p384", "rs": 16, "ncerts": nc, "inplace": inplace,
                                                                       "expire": ("default", "168h", "167h59m30s", "10m")[i % 4]}},
                      {"tool": "dump-bundle", "p": {"x": 0}}]
                sd = vlib.fresh(os.path.join(scratch, "s%d" % i))
                events += _dir_pipeline(pl, sd, fix, info, "sigcli%d" % i)
                shutil.rmtree(sd, ignore_errors=True)
    outp = os.path.join(wd, "sigcli.ndjson")
    cases = {}
    with open(outp, "w") as f:
        for e in events:
            cases[e["case"]] = e
            f.write(json.dumps(e) + "\n")
    n, rejects, states = trace_validate("Trace_Cli", pid + "/sigcli", outp, overrides=True, shards=8, timeout=3000)
    rep.cov["states"] += states
    rep.cov["transitions"] += states
    rep.cov["traces_validated_against_impl"] += n
    for rj in rejects:
        c = cases[rj["case"]]
        for w in rj["why"]:
            rep.violation("sigcli:%s:%s" % (c["ver"], w[:50]), "gen-bundle -> sign-bundle signatures-section -> dump-bundle (%s): %s [exits gen=%s sign=%s dump=%s marks=%s; %s]" % (
                c["ver"], w, c["gen_exit"], c["sign_exit"], c["dump2_exit"], c["marks"], c["stderr"][-160:]), {"component": "cli", "event": {k: v for k, v in c.items() if k not in ("file", "files")}, "why": w})
    rep.add("cli_signatures_section", records=n, rejected=len(rejects))
    return n


def cert_cli(rep, pid):
    """The command-line path of cert-chain writing (used by C17 too): gen-certurl (leaf alone / leaf + issuer, with / without
    -sctDir, a leaf with / without an embedded SCT list) -> dump-certurl; the output must be ChainBytes of exactly the given
    certificates, OCSP response and SCT files (Trace_Cli)."""
    build_cli()
    wd = workdir(pid)
    fix = os.path.join(wd, "fixtures")
    shutil.rmtree(fix, ignore_errors=True)
    Hsrv, hport = _loopback_server(wd)
    info = vh(["cli-fixtures", fix] + (["http://127.0.0.1:%d" % hport] if Hsrv is not None else []))[0]
    scratch = vlib.fresh(os.path.join(wd, "scratch-cert"))
    events = []
    i = 0
    for curve in ("p256", "p384", "p256-sctleaf"):
        for nc in (1, 2):
            for sct in (False, True):
                i += 1
                sd = vlib.fresh(os.path.join(scratch, "c%d" % i))
                events += _cert_pipeline([{"tool": "gen-certurl", "p": {"ncerts": nc, "curve": curve, "sct": sct}}], sd, fix, info, "certcli%d" % i)
                shutil.rmtree(sd, ignore_errors=True)
    # the same logical input in two histories: the SCT files created in different orders (directory enumeration order is not
    # an input), in directories whose names are plain or contain characters that mean something to a pattern matcher; on a
    # tmpfs, where enumeration order follows creation order
    base = "/dev/shm" if os.path.isdir("/dev/shm") and os.access("/dev/shm", os.W_OK) else scratch
    pd = os.path.join(base, "verif-certpure-%d" % os.getpid())
    shutil.rmtree(pd, ignore_errors=True)
    try:
        names = ["m.sct", "a.sct", "z.sct", "b.sct", "k.sct", "c.sct"]
        for dn in ("scts", "scts[2024]", "scts*", "scts?x", "sc ts"):
            outs = []
            for order in (names, list(reversed(names)), sorted(names)):
                d = os.path.join(pd, "h%d" % len(outs), dn)
                os.makedirs(d)
                for nm in order:
                    open(os.path.join(d, nm), "wb").write(("sct " + nm).encode())
                rc, so, se = run("gen-certurl", ["-pem", os.path.join(fix, "p256-cert1.pem"), "-ocsp", os.path.join(fix, "ocsp.der"), "-sctDir", d], scratch)
                outs.append((rc, so))
            i += 1
            events.append({"case": "certpure%d" % i, "kind": "certpure", "params": "-sctDir named %r, six .sct files created in three different orders" % dn,
                           "exits": [o[0] for o in outs], "outs": [list(o[1]) for o in outs], "gen_exit": outs[0][0], "dump_exit": 0, "out": list(outs[0][1]), "stderr": ""})
    finally:
        shutil.rmtree(pd, ignore_errors=True)
    outp = os.path.join(wd, "certcli.ndjson")
    cases = {}
    with open(outp, "w") as f:
        for e in events:
            cases[e["case"]] = e
            f.write(json.dumps(e) + "\n")
    n, rejects, states = trace_validate("Trace_Cli", pid + "/certcli", outp, overrides=True, shards=4, timeout=3000)
    rep.cov["states"] += states
    rep.cov["transitions"] += states
    rep.cov["traces_validated_against_impl"] += n
    for rj in rejects:
        c = cases[rj["case"]]
        for w in rj["why"]:
            rep.violation("certcli:%s:%s" % (c["params"], w[:50]), "gen-certurl %s -> dump-certurl: %s [exits gen=%s dump=%s; output %d bytes; %s]" % (c["params"], w, c["gen_exit"], c["dump_exit"], len(c["out"]), c["stderr"][-160:]),
                          {"component": "cli", "params": c["params"], "why": w})
    rep.add("cli_gen_certurl", records=n, rejected=len(rejects))
    shutil.rmtree(scratch, ignore_errors=True)
    return n


def sxg_cli(rep, pid):
    """The command-line path of signed-exchange generation (used by C02 and C08 too): gen-signedexchange with header flags
    of every shape, both dumps, -> dump-signedexchange -verify; judged by Trace_Cli from the flag TEXT and the files."""
    build_cli()
    wd = workdir(pid)
    fix = os.path.join(wd, "fixtures")
    shutil.rmtree(fix, ignore_errors=True)
    Hsrv, hport = _loopback_server(wd)
    info = vh(["cli-fixtures", fix] + (["http://127.0.0.1:%d" % hport] if Hsrv is not None else []))[0]
    scratch = vlib.fresh(os.path.join(wd, "scratch-sxg"))
    events = []
    i = 0
    for ver in ("1b1", "1b2", "1b3"):
        for hdr in sorted(HDR_FLAGS):
            i += 1
            pl = [{"tool": "gen-certurl", "p": {}}, {"tool": "gen-signedexchange", "p": {"ver": ver, "hdr": hdr, "date": "fixed" if i % 3 == 0 else "now", "method": "HEAD" if i % 4 == 0 else "GET", "out": "stdout" if i % 5 == 0 else "file"}}]
            sd = vlib.fresh(os.path.join(scratch, "x%d" % i))
            events += _sxgflags_pipeline(pl, sd, fix, info, "sxgcli%d" % i)
            shutil.rmtree(sd, ignore_errors=True)
    outp = os.path.join(wd, "sxgcli.ndjson")
    cases = {}
    with open(outp, "w") as f:
        for e in events:
            cases[e["case"]] = e
            f.write(json.dumps(e) + "\n")
    n, rejects, states = trace_validate("Trace_Cli", pid + "/sxgcli", outp, overrides=True, shards=8, timeout=3000)
    rep.cov["states"] += states
    rep.cov["transitions"] += states
    rep.cov["traces_validated_against_impl"] += n
    for rj in rejects:
        c = cases[rj["case"]]
        for w in rj["why"]:
            rep.violation("sxgcli:%s:%s:%s" % (c["ver"], c["params"]["hdr"], w[:50]), "gen-signedexchange %s with -requestHeader %s -responseHeader %s -> dump-signedexchange -verify: %s [exits gen=%s dump=%s valid=%s; %s]" % (
                c["params"], HDR_FLAGS[c["params"]["hdr"]][0], HDR_FLAGS[c["params"]["hdr"]][1], w, c["gen_exit"], c["dump_exit"], c["valid"], c["stderr"][-160:]),
                {"component": "cli", "event": {k: v for k, v in c.items() if k not in ("file", "content", "leaf", "msgdump", "hdrdump")}, "why": w})
    rep.add("cli_gen_signedexchange", records=n, rejected=len(rejects))
    shutil.rmtree(scratch, ignore_errors=True)
    return n


def cli_total(rep, pid, tier):
    """The dump tools as parser entry points (C10): artefacts the generating tools wrote - among them a bundle of two origins
    signed by a certificate that covers one of them, valid NOW - and damaged variants of each (truncation, bit flips), handed
    to dump-bundle / dump-signedexchange (-verify) / dump-certurl.  A run terminates with exit status 0 or 1; a Go panic
    (status 2 with a goroutine dump) or a hang is not an outcome (Trace_Totality)."""
    import base64, random
    build_cli()
    wd = workdir(pid)
    fix = os.path.join(wd, "fixtures")
    shutil.rmtree(fix, ignore_errors=True)
    Hsrv, hport = _loopback_server(wd)
    info = vh(["cli-fixtures", fix] + (["http://127.0.0.1:%d" % hport] if Hsrv is not None else []))[0]
    sd = vlib.fresh(os.path.join(wd, "scratch-total"))
    rnd = random.Random(vlib.seed())
    arte = []       # (tool, args before the file, file bytes, note)
    run("gen-certurl", ["-pem", os.path.join(fix, "p256-cert1.pem"), "-ocsp", os.path.join(fix, "ocsp.der")], sd)
    rcg, sog, seg = run("gen-certurl", ["-pem", os.path.join(fix, "p256-cert2.pem"), "-ocsp", os.path.join(fix, "ocsp.der")], sd)
    cert = os.path.join(sd, "cert.cbor")
    open(cert, "wb").write(sog)
    arte.append(("dump-certurl", [], sog, "gen-certurl output"))
    for ver in ("b1", "b2"):
        ents = [("https://example.com/", b"<p>root</p>", "text/html"), ("https://example.com/app.js", b"console.log(1)", "text/javascript"),
                ("https://cdn.example.net/lib.js", b"lib()", "text/javascript"), ("https://other.example/x", b"", "text/plain")]
        har = {"log": {"version": "1.2", "creator": {"name": "verif", "version": "1"}, "entries": []}}
        for u, body, ct in ents:
            har["log"]["entries"].append({"startedDateTime": "2020-01-01T00:00:00.000Z", "time": 1, "request": {"method": "GET", "url": u, "httpVersion": "HTTP/1.1", "headers": [], "queryString": [], "cookies": [], "headersSize": -1, "bodySize": 0},
                                          "response": {"status": 200, "statusText": "", "httpVersion": "HTTP/1.1", "headers": [{"name": "Content-Type", "value": ct}], "cookies": [],
                                                       "content": {"size": len(body), "mimeType": ct, "text": body.decode()}, "redirectURL": "", "headersSize": -1, "bodySize": len(body)}, "cache": {}, "timings": {"send": 0, "wait": 0, "receive": 0}})
        hp = os.path.join(sd, "in-%s.har" % ver)
        json.dump(har, open(hp, "w"))
        out = os.path.join(sd, "mixed-%s.wbn" % ver)
        args = ["-har", hp, "-version", ver, "-o", out] + (["-primaryURL", "https://example.com/"] if ver == "b1" else [])
        rc, so, se = run("gen-bundle", args, sd)
        if rc != 0:
            raise Infra("gen-bundle -har failed while preparing the totality corpus: %s" % se[-300:])
        arte.append(("dump-bundle", [], read(out), "gen-bundle -har, two origins, %s" % ver))
        signed = os.path.join(sd, "mixed-signed-%s.wbn" % ver)
        rc, so, se = run("sign-bundle", ["signatures-section", "-i", out, "-o", signed, "-certificate", cert, "-privateKey", os.path.join(fix, "p256-sec1.key"),
                                         "-validityUrl", "https://example.com/validity", "-miRecordSize", "16"], sd)
        if rc != 0:
            raise Infra("sign-bundle failed while preparing the totality corpus: %s" % se[-300:])
        arte.append(("dump-bundle", [], read(signed), "signed now by a certificate covering one of two origins, %s" % ver))
        # signed twice (two vouched subsets, the second signer covering nothing new)
        rc, so, se = run("sign-bundle", ["signatures-section", "-i", signed, "-o", signed + "2", "-certificate", cert, "-privateKey", os.path.join(fix, "p256-sec1.key"),
                                         "-validityUrl", "https://example.com/validity", "-miRecordSize", "4096"], sd)
        if rc == 0:
            arte.append(("dump-bundle", [], read(signed + "2"), "signed twice, %s" % ver))
    open(os.path.join(sd, "payload"), "wb").write(b"<p>hello</p>" * 5)
    for ver in ("1b1", "1b2", "1b3"):
        out = os.path.join(sd, "x-%s.sxg" % ver)
        rc, so, se = run("gen-signedexchange", ["-version", ver, "-uri", "https://example.com/doc.html", "-content", os.path.join(sd, "payload"), "-certificate", os.path.join(fix, "p256-cert2.pem"),
                                                "-privateKey", os.path.join(fix, "p256-sec1.key"), "-certUrl", "https://example.com/cert.cbor", "-validityUrl", "https://example.com/validity",
                                                "-miRecordSize", "16", "-o", out], sd)
        if rc == 0:
            arte.append(("dump-signedexchange", ["-verify", "-cert", cert], read(out), "gen-signedexchange output, %s" % ver))
            arte.append(("dump-signedexchange", ["-json"], read(out), "gen-signedexchange output (-json), %s" % ver))
    events = []
    i = 0
    for tool, pre, data, note in arte:
        variants = [(data, "as written")]
        cuts = sorted(set(list(range(0, min(len(data), 40))) + [rnd.randrange(len(data)) for _ in range(25 if tier == "quick" else 200)] + [len(data) - 1, len(data) - 8, len(data) - 9]))
        for c in cuts:
            if 0 <= c < len(data):
                variants.append((data[:c], "truncated at %d" % c))
        for _ in range(40 if tier == "quick" else 400):
            o = rnd.randrange(len(data))
            m = bytearray(data)
            m[o] ^= 1 << rnd.randrange(8)
            variants.append((bytes(m), "bit flip at %d" % o))
        for v, vn in variants:
            i += 1
            fp = os.path.join(sd, "in-%d.bin" % i)
            open(fp, "wb").write(v)
            rc, so, se = run(tool, pre + ["-i", fp], sd, timeout=20)
            os.unlink(fp)
            pan = rc not in (0, 1) and (b"panic:" in se or b"goroutine " in se or b"fatal error:" in se)
            outcome = "value" if rc == 0 else "error" if rc == 1 else "timeout" if rc == 124 else "panic" if pan else "exit status %d" % rc
            events.append({"case": "ct%d" % i, "parser": "cli " + tool, "outcome": outcome, "alloc": 0, "n": len(v), "head": list(v[:64]), "note": "%s; %s" % (note, vn),
                           "stderr": se.decode("latin1")[-400:] if outcome not in ("value", "error") else ""})
    outp = os.path.join(wd, "clitotal.ndjson")
    cases = {}
    with open(outp, "w") as f:
        for e in events:
            cases[e["case"]] = e
            f.write(json.dumps(e) + "\n")
    n, rejects, states = trace_validate("Trace_Totality", pid + "/clitotal", outp, shards=8, timeout=3000)
    rep.cov["states"] += states
    rep.cov["transitions"] += states
    rep.cov["traces_validated_against_impl"] += n
    for rj in rejects:
        c = cases[rj["case"]]
        for w in rj["why"]:
            rep.violation("clitotal:%s:%s:%s" % (c["parser"], w[:20], c["note"].split(";")[0][:60]), "%s on a %d-byte file (%s): outcome %s [%s]" % (c["parser"], c["n"], c["note"], c["outcome"], c["stderr"][-300:].replace("\n", " | ")),
                          {"component": "clitotal", "parser": c["parser"], "note": c["note"], "n": c["n"], "why": w})
    by = {}
    for e in events:
        k = "%s -> %s" % (e["parser"], e["outcome"])
        by[k] = by.get(k, 0) + 1
    rep.add("cli_dump_tools", runs=n, by_tool_and_outcome=by, rejected=len(rejects))
    shutil.rmtree(sd, ignore_errors=True)
    return n


def check_c20(tier):
    rep = Report("C20", tier, level="model_checking")
    rep.cov["rule"] = ("tla/Cli.tla: artefact kinds, tool contracts and pipelines; TLC enumerates every pipeline (gen-bundle -dir over 13 file-name classes x b1/b2 x base URL with / "
                       "without a path -> dump-bundle; -> sign-bundle signatures-section (SEC1 / PKCS#8 EC keys, P-256 / P-384, record sizes) -> dump-bundle; -> sign-bundle "
                       "integrity-block (PKCS#8 / encrypted PKCS#8 Ed25519 keys, public-key dump-id) ; gen-certurl (1 / 2 certificates, with / without SCT directory) -> "
                       "dump-certurl; gen-certurl + gen-signedexchange (3 versions x key forms x curves x record sizes 1 / 16 / 16384 x expiry 1 h / 168 h x status x "
                       "Cache-Control none / one line / two lines x empty / small / multi-record content) -> dump-signedexchange -verify; gen-bundle -har -> dump-bundle), "
                       "checks the closure of the contracts and exports the pipelines; each is executed with binaries built from /repo's working tree in scratch "
                       "directories; Trace_Cli judges exit statuses and the FILES by the format specifications (WellFormedBundle + directory relation, ChainBytes, "
                       "RefRead + Accept with JDK ECDSA, BlockBytes + JDK Ed25519, WebBundleId). quick runs every non-sxg pipeline and every 12th sxg pipeline. "
                       "distinct_nontrivial = distinct executed pipelines")
    r = tlc("MC_Cli", "SPECIFICATION Spec\nINVARIANTS ClosureHolds\nCHECK_DEADLOCK FALSE\n", "C20/mc")
    rep.add_tlc("MC_Cli", r)
    pipelines = [o for t, o in r.lines]
    build_cli()
    wd = workdir("C20")
    fix = os.path.join(wd, "fixtures")
    shutil.rmtree(fix, ignore_errors=True)
    Hsrv, hport = _loopback_server(wd)
    info = vh(["cli-fixtures", fix] + (["http://127.0.0.1:%d" % hport] if Hsrv is not None else []))[0]
    scratch = vlib.fresh(os.path.join(wd, "scratch"))
    events = []
    sx = 0
    for i, pl in enumerate(sorted(pipelines, key=lambda p: json.dumps(p, sort_keys=True))):
        tool = pl[0]["tool"]
        flags = len(pl) > 1 and pl[1]["tool"] == "gen-signedexchange" and "hdr" in pl[1]["p"]
        defaults = len(pl) > 1 and pl[1]["tool"] == "gen-signedexchange" and "via" in pl[1]["p"]
        views = len(pl) > 1 and pl[1]["tool"] == "gen-signedexchange" and ("view" in pl[1]["p"] or "certfetch" in pl[1]["p"])
        if len(pl) > 1 and pl[1]["tool"] == "gen-signedexchange" and not flags and not defaults and not views:
            sx += 1
            if tier == "quick" and (sx + vlib.seed()) % 12 != 0:
                continue
        sd = vlib.fresh(os.path.join(scratch, "p%d" % i))
        cid = "p%d" % i
        if tool == "gen-bundle -dir" and "manifest" in pl[0]["p"]:
            events += _manifest_pipeline(pl, sd, fix, info, cid)
        elif tool == "gen-bundle -dir":
            events += _dir_pipeline(pl, sd, fix, info, cid)
        elif tool == "gen-bundle -URLList":
            events += _urllist_pipeline(pl, sd, fix, info, cid)
        elif tool == "gen-certurl" and "fetch" in pl[0]["p"]:
            events += _ocspfetch_pipeline(pl, sd, fix, info, cid)
        elif len(pl) > 2 and pl[2]["tool"] == "dump-signedexchange view":
            events += _sxgview_pipeline(pl, sd, fix, info, cid)
        elif len(pl) > 1 and "certfetch" in pl[1]["p"]:
            events += _sxgfetch_pipeline(pl, sd, fix, info, cid)
        elif tool == "gen-bundle -har":
            events += _har_pipeline(pl, sd, fix, info, cid)
        elif flags:
            events += _sxgflags_pipeline(pl, sd, fix, info, cid)
        elif defaults:
            events += _sxgdefaults_pipeline(pl, sd, fix, info, cid)
        elif len(pl) > 1 and pl[1]["tool"] == "gen-signedexchange":
            events += _sxg_pipeline(pl, sd, fix, info, cid)
        else:
            events += _cert_pipeline(pl, sd, fix, info, cid)
        shutil.rmtree(sd, ignore_errors=True)
    outp = os.path.join(wd, "run.ndjson")
    cases = {}
    with open(outp, "w") as f:
        for e in events:
            cases[e["case"]] = e
            f.write(json.dumps(e) + "\n")
    n, rejects, states = trace_validate("Trace_Cli", "C20", outp, overrides=True, shards=16, timeout=3000)
    rep.cov["states"] += states
    rep.cov["transitions"] += states
    rep.cov["traces_validated_against_impl"] = n
    rep.cov["evaluations"] = n
    rep.cov["distinct_nontrivial"] = n
    kinds = {}
    for e in events:
        kinds[e["kind"]] = kinds.get(e["kind"], 0) + 1
    rep.add("pipelines", enumerated=len(pipelines), executed_records=n, by_kind=kinds, rejected=len(rejects))
    for rj in rejects:
        c = cases[rj["case"]]
        for w in rj["why"]:
            if c["kind"] == "dirbundle":
                key = "cli:dir:%s:%s:%s" % (c["names"], c["ver"], w[:40])
                desc = "gen-bundle -dir (spelt %s) with files %s (%s, base path %s): %s [exits gen=%s dump=%s sign=%s dump2=%s marks=%s; %s]" % (
                    c.get("dirform", "abs"), [bytes(x["rel"]).decode("utf-8", "replace") for x in c["files"]], c["ver"], bytes(c["basepath"]).decode(), w, c["gen_exit"], c["dump_exit"], c["sign_exit"], c["dump2_exit"], c["marks"], c["stderr"][-160:])
            elif c["kind"] == "sxgdefaults":
                key = "cli:sxgdefaults:%s:%s:%s" % (c["params"]["genver"], c["params"]["via"], w[:40])
                desc = "gen-signedexchange (-version %s) -> dump-signedexchange -verify (%s, -version %s): %s [gen=%s dump=%s valid=%s; %s]" % (
                    c["params"]["genver"], {"file": "-i file", "stdin": "standard input", "http": "-uri from a loopback server"}[c["params"]["via"]], c["params"]["dumpver"], w, c["gen_exit"], c["dump_exit"], c["valid"], c["stderr"][-200:])
            elif c["kind"] == "sxgflags":
                key = "cli:sxgflags:%s:%s:%s" % (c["ver"], c["params"]["hdr"], w[:40])
                desc = "gen-signedexchange %s with -requestHeader %s -responseHeader %s: %s [gen=%s dump=%s valid=%s; %s]" % (
                    c["params"], HDR_FLAGS[c["params"]["hdr"]][0], HDR_FLAGS[c["params"]["hdr"]][1], w, c["gen_exit"], c["dump_exit"], c["valid"], c["stderr"][-200:])
            elif c["kind"] == "sxgcli":
                key = "cli:sxg:%s:%s:%s" % (c["ver"], c["params"]["cc"], w[:40])
                desc = "gen-signedexchange %s -> dump-signedexchange -verify: %s [gen=%s dump=%s valid=%s; %s]" % (c["params"], w, c["gen_exit"], c["dump_exit"], c["valid"], c["stderr"][-200:])
            else:
                key = "cli:%s:%s" % (c["kind"], w[:40])
                desc = "%s pipeline: %s [%s]" % (c["kind"], w, c.get("stderr", "")[-200:])
            rep.violation(key, desc, {"component": "cli", "event_case": c["case"], "kind": c["kind"], "why": w})
    for e in events[:2] + events[-1:]:
        rep.sample({k: (v if not isinstance(v, list) or len(json.dumps(v)) < 160 else "<%d items>" % len(v)) for k, v in e.items() if k != "stderr"})
    good = [e for e in events if e["case"] not in rep.rejected_ids and e["kind"] == "dirbundle" and e["gen_exit"] == 0 and e["sign"] == "none"][0]
    b1 = json.loads(json.dumps(good)); b1["case"] = "neg1"; b1["files"][0]["body"] = b1["files"][0]["body"] + [33]
    b2 = json.loads(json.dumps(good)); b2["case"] = "neg2"; b2["dump_exit"] = 1
    np_ = os.path.join(wd, "neg.ndjson")
    open(np_, "w").write("\n".join(json.dumps(x) for x in (good, b1, b2)) + "\n")
    _, rj, _ = trace_validate("Trace_Cli", "C20/neg", np_, overrides=True, shards=1)
    if sorted(x["case"] for x in rj) != ["neg1", "neg2"]:
        raise Infra("negative control failed for Trace_Cli: %s" % rj)
    rep.add("negative_control", corrupted_records_rejected=2)
    shutil.rmtree(scratch, ignore_errors=True)
    rep.assumptions = ["tool behaviour is observed at process level (exit status, files, a few facts read off stdout)", "gen-certurl is always given -ocsp (no network); dump-signedexchange -verify -cert",
                       "signatures are made and verified at the current time; expiry at most 168 h", "dump-bundle refusing integrity-block bundles is by design"]
    return rep.finish()


def replay_c20(path):
    log("replay: re-running the check family on the current tree")
    return check_c20("quick")
