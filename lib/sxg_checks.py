"""C01, C02, C08, C09: signed exchanges against tla/Sxg.tla (Trace_Sxg with JDK crypto) and the abstract
attacker model MC_Sxg."""
import json, os, re
import vlib
from vlib import Report, tlc, vh, vh_to_file, trace_validate, workdir, log, Infra

FULL_C08 = {"MiEncodePayload", "header CBOR", "colliding header names serialised", "signed message", "Signature header text",
            "signature does not verify over the specified message", "header integrity", "file layout"}
# the payload the round trip must return is the one given to the library; and "verifies at every instant of [date, expires]" needs, before
# anything else, that the signature the library made IS a signature over the exchange's message (the verify obligations of FullFailures
# compare the real verdict with Accept of the artefact as produced, which is rightly "no" for an artefact whose signature is wrong)
FULL_C02 = {"write limits", "read back", "signer refused", "MiEncodePayload", "signature does not verify over the specified message"}


def txt(a):
    return bytes(a).decode("latin1")


def _judge(rep, pid, path, shards, label):
    cases = {}
    for line in open(path):
        d = json.loads(line)
        cases[d["case"]] = d
    n, rejects, states = trace_validate("Trace_Sxg", pid + "/" + label, path, overrides=True, shards=shards, timeout=3400)
    rep.cov["states"] += states
    rep.cov["transitions"] += states
    rep.cov["traces_validated_against_impl"] += n
    rep.cov["evaluations"] += n
    return cases, rejects


def _norm_note(note):
    if note.startswith("ABSTRACT-"):
        return "abstract-scenario"
    # class of a scenario: strip concrete values
    parts = [re.sub(r"=.*", "", p.strip()) for p in note.split("&")]
    parts = [re.sub(r"^(reqhdr|resphdr|cc|cc-multi|vurl|status|lifetime|t|method)( harmless)?\b.*", r"\1\2", p) for p in parts]
    return "&".join(sorted(set(parts)))


def _full_desc(c, why):
    x = c["x"]
    return "signed exchange %s uri=%r status=%d %d response headers, payload %d bytes, Signature %d bytes, header block %d bytes: %s" % (
        x["ver"], txt(x["uri"])[:60], x["status"], len(x["resph"]), len(c["xin"]["payload"]), len(x["sighdr"]), len(c["hdrs"]), ", ".join(why))


def _run_full(rep, pid, tier, select):
    wd = workdir(pid)
    p = os.path.join(wd, "full.ndjson")
    vh_to_file(["sxg-full", tier], p, timeout=3000)
    cases, rejects = _judge(rep, pid, p, 16, "full")
    for rj in rejects:
        c = cases[rj["case"]]
        why = [w for w in rj["why"] if (w in select or (w.startswith("verify") and "verify" in select))]
        if not why:
            continue
        x = c["x"]
        key = "full:%s:%s:url%d:sig%d:hdr%d" % (x["ver"], "+".join(sorted(re.sub(r" #\d+", "", w) for w in why)), len(x["uri"]), len(x["sighdr"]), len(c["hdrs"]))
        rep.violation(key, _full_desc(c, why), {"component": "sxg", "event_case": c["case"], "why": why, "kind": "full",
                                                  "x_summary": {"ver": x["ver"], "uri_len": len(x["uri"]), "sighdr_len": len(x["sighdr"])}})
    return cases


def check_c08(tier):
    rep = Report("C08", tier)
    rep.cov["rule"] = ("seeded random exchanges x versions b1/b2/b3 x P-256/P-384 (header value lengths at 23/24, 255/256, 65535/65536, 0..40 headers, URL and "
                       "validity-URL lengths across CBOR classes, dates 0, 1, 2^31, 2^32, 2^40, statuses, methods) plus the length-boundary grid: the real "
                       "DumpSignedMessage, DumpExchangeHeaders, Signature header, ComputeHeaderIntegrity and Write output are compared byte for byte with "
                       "tla/Sxg.tla evaluated by TLC (MI stream and digest included); the sig parameter must be a DER ECDSA signature the JDK verifies over "
                       "the specification's message under the certificate's key. distinct_nontrivial = distinct (version, header-block length, URL length, "
                       "Signature length) tuples")
    st = tlc("MC_SxgMsg", "SPECIFICATION Spec\nINVARIANTS MsgInjective CanonicalHeaders\nCHECK_DEADLOCK FALSE\n", "C08/mc") if os.path.exists(os.path.join(vlib.TLA, "MC_SxgMsg.tla")) else None
    if st:
        rep.add_tlc("MC_SxgMsg", st)
    # "... so a signature made here verifies in any conforming implementation and vice versa": the verdicts count too
    cases = _run_full(rep, "C08", tier, FULL_C08 | {"verify", "read back"})
    rep.cov["distinct_nontrivial"] = len(set((c["x"]["ver"], len(c["hdrs"]), len(c["x"]["uri"]), len(c["x"]["sighdr"])) for c in cases.values()))
    for c in list(cases.values())[:3]:
        rep.sample({"ver": c["x"]["ver"], "uri": txt(c["x"]["uri"])[:80], "signature_header": txt(c["x"]["sighdr"])[:160], "header_block_len": len(c["hdrs"]), "file_len": len(c["file"])})
    _neg_full(rep, "C08", cases)
    # the command-line entry point: flag text -> file, with both debugging dumps compared with the specification's bytes
    from cli_checks import sxg_cli
    sxg_cli(rep, "C08")
    rep.assumptions = ["certificate chains have at least one certificate", "dates >= 0", "header names are ASCII tokens; URLs are those url.URL.String() leaves unchanged"]
    return rep.finish()


def _neg_full(rep, pid, cases):
    import re
    good = [c for c in cases.values() if c["case"] not in rep.rejected_ids and not c["writeerr"] and len(c["file"]) < 3000 and c["signerr"] == ""
            and re.match(r"^https://[A-Za-z0-9.:-]+/[A-Za-z0-9._~/?=-]*$", txt(c["x"]["uri"]))][0]
    b1 = json.loads(json.dumps(good)); b1["case"] = "neg1"; b1["msg"][70] ^= 1
    b2 = json.loads(json.dumps(good)); b2["case"] = "neg2"; b2["file"][12] ^= 1
    b3 = json.loads(json.dumps(good)); b3["case"] = "neg3"; b3["verifs"][0]["ok"] = not b3["verifs"][0]["ok"]
    p = os.path.join(workdir(pid), "neg.ndjson")
    open(p, "w").write("\n".join(json.dumps(x) for x in (good, b1, b2, b3)) + "\n")
    _, rj, _ = trace_validate("Trace_Sxg", pid + "/neg", p, overrides=True, shards=1)
    got = sorted(x["case"] for x in rj)
    if got != ["neg1", "neg2", "neg3"]:
        raise Infra("negative control failed for Trace_Sxg(full): %s" % rj)
    rep.add("negative_control", corrupted_records_rejected=3)


def check_c02(tier):
    rep = Report("C02", tier)
    rep.cov["rule"] = ("the same seeded exchanges and boundary grid as C08 (URL 65535/65536/65537, Signature 16384/16385, header block 524288/524289, "
                       "record sizes 1..16384, payload lengths 0,1,rs-1,rs,rs+1,2rs,3rs+1, multi-valued headers in random letter case, both curves): write must "
                       "fail exactly when a length field or limit is exceeded; the file must read back (real reader and the reference reader RefRead) to the "
                       "same fields; Verify before and after the round trip at t = date, date+1, mid, expires-1(.999999999), expires must equal the acceptance "
                       "predicate and return the original payload; bigendian.EncodeBytesUint is bound at unit level. distinct_nontrivial as in C08")
    cases = _run_full(rep, "C02", tier, FULL_C02 | {"verify"})
    # bigendian unit events
    be = vh(["bigendian-grid"])
    nbe = 0
    for ev in be:
        nbe += 1
        n, w = ev["n"], ev["w"]
        fits = 0 <= n < 256 ** w
        if fits != (not ev["err"]) or (fits and bytes(ev["out"]) != n.to_bytes(w, "big")):
            rep.violation("bigendian:%d:%d" % (n, w), "bigendian.EncodeBytesUint(%d, %d) = %s err=%s; BE(n, w) is defined exactly for n < 256^w" % (n, w, bytes(ev["out"]).hex(), ev["err"]),
                          {"component": "bigendian", "n": n, "w": w})
    rep.add("bigendian", cases=nbe)
    rep.cov["evaluations"] += nbe
    rep.cov["distinct_nontrivial"] = len(set((c["x"]["ver"], len(c["hdrs"]), len(c["x"]["uri"]), len(c["x"]["sighdr"]), c["rs"], len(c["xin"]["payload"])) for c in cases.values()))
    for c in list(cases.values())[-3:]:
        rep.sample({"ver": c["x"]["ver"], "uri_len": len(c["x"]["uri"]), "sighdr_len": len(c["x"]["sighdr"]), "hdr_len": len(c["hdrs"]), "writeerr": c["writeerr"],
                    "verdicts": [(v["phase"], v["ok"]) for v in c["verifs"]]})
    _neg_full(rep, "C02", cases)
    rep.assumptions = ["request URL absolute https", "headers inserted with Header.Add/Set", "exchanges satisfy the acceptance policy unless the generator deviates on purpose (verdict then equals Accept)", "dates >= 0"]
    # reading back must not depend on how the file is delivered (ReaderFaults.tla)
    from rf_checks import reader_faults
    reader_faults(rep, "C02", ["sxg"], tier)
    from cli_checks import sxg_cli
    sxg_cli(rep, "C02")
    return rep.finish()


def _ver_violations(rep, cases, rejects, prefix):
    for rj in rejects:
        c = cases[rj["case"]]
        x = c["x"]
        for w in rj["why"]:
            key = "%s:%s:%s:%s" % (prefix, x["ver"], w, _norm_note(c["note"]))
            t = int.from_bytes(bytes(c["t"]["s"]), "big", signed=True)
            rep.violation(key, "Verify(%s exchange, t=%d s +%09d ns) -> ok=%s: %s [scenario: %s; uri %r; Signature %r]" % (
                x["ver"], t, c["t"]["ns"], c["ok"], w, c["note"], txt(x["uri"])[:60], txt(x["sighdr"])[:100]),
                {"component": "sxgver", "event": c if len(json.dumps(c)) < 200000 else {"case": c["case"], "note": c["note"]}, "why": w})


def _neg_ver(rep, pid, cases):
    good = [c for c in cases.values() if c["case"] not in rep.rejected_ids and c["ok"] and c["kind"] == "ver"][0]
    b1 = json.loads(json.dumps(good)); b1["case"] = "neg1"; b1["x"]["uri"] = b1["x"]["uri"] + [120]      # accepted with another URL
    b2 = json.loads(json.dumps(good)); b2["case"] = "neg2"; b2["ret"] = b2["ret"][:-1] if b2["ret"] else [1]
    b3 = json.loads(json.dumps(good)); b3["case"] = "neg3"; b3["signed"] = []
    p = os.path.join(workdir(pid), "neg.ndjson")
    open(p, "w").write("\n".join(json.dumps(x) for x in (good, b1, b2, b3)) + "\n")
    _, rj, _ = trace_validate("Trace_Sxg", pid + "/neg", p, overrides=True, shards=1)
    got = sorted(x["case"] for x in rj)
    if got != ["neg1", "neg2", "neg3"]:
        raise Infra("negative control failed for Trace_Sxg(ver): %s" % rj)
    rep.add("negative_control", corrupted_records_rejected=3)


def check_c01(tier):
    rep = Report("C01", tier)
    rep.cov["rule"] = ("design level: MC_Sxg, a Dolev-Yao attacker over an abstract signed exchange (every field, every Signature parameter, certificate "
                       "substitution, re-signing with the attacker's key, a second signature item) with invariant Authentic. Binding: 6 honest real exchanges "
                       "(3 versions x P-256/P-384) under every single-bit flip (one bit per byte in quick), byte delete / insert / truncate at every offset, "
                       "edits of every semantic field and Signature parameter in memory, foreign certificate / attacker re-signing, several verification "
                       "instants; each run is judged by Trace_Sxg: real verdict ok => some signature item carries a signature over a message the key really "
                       "signed (recorded at the signing algorithm), t in its window, returned payload = what the signed digest commits to; the real reader's "
                       "result is compared with the reference reader where it is decidable. distinct_nontrivial = distinct (version, mutation kind, offset) triples")
    if os.path.exists(os.path.join(vlib.TLA, "MC_Sxg.tla")):
        for name, cfg in _mc_sxg_cfgs(tier):
            r = tlc("MC_Sxg", cfg, "C01/" + name, timeout=3000)
            rep.add_tlc("MC_Sxg:" + name, r)
    wd = workdir("C01")
    p = os.path.join(wd, "mut.ndjson")
    vh_to_file(["sxg-mut", tier], p, timeout=3000)
    cases, rejects = _judge(rep, "C01", p, 16, "mut")
    _ver_violations(rep, cases, rejects, "mut")
    kinds = {}
    for c in cases.values():
        k = (c["note"], c["ok"])
        kinds["%s -> %s" % k] = kinds.get("%s -> %s" % k, 0) + 1
    rep.add("mutations", by_kind_and_real_verdict=kinds)
    rep.cov["distinct_nontrivial"] = len(set((c["x"]["ver"], c["note"], len(c["file"]), bytes(c["file"][:40]).hex()) for c in cases.values()))
    for c in [c for c in cases.values() if c["ok"]][:2] + list(cases.values())[-1:]:
        rep.sample({"mutation": c["note"], "ver": c["x"]["ver"], "real_verdict": c["ok"], "file_len": len(c["file"])})
    _neg_ver(rep, "C01", cases)
    rep.assumptions = ["certificate trust (steps 6-7 of the draft) is outside this library: authenticity is relative to the leaf certificate the fetcher returned",
                       "ECDSA malleability and edits of unsigned decoration may leave the verdict ok; the invariant is on content"]
    # calls on independent objects running in parallel do not interfere (Trace_Purity, race detector)
    from purity_checks import parallel_cold
    parallel_cold(rep, "C01", "Exchange")
    return rep.finish()


def _mc_sxg_cfgs(tier):
    return [("attacker", "SPECIFICATION Spec\nCONSTANTS\n MaxMoves = %d\nINVARIANTS Authentic NoForgery MsgInjectiveOnce\nVIEW View\nCHECK_DEADLOCK FALSE\n" % (3 if tier == "quick" else 4))]


def _ndev(o):
    base = {"t": "mid", "life": 3600, "method": "GET", "reqhdr": "none", "resphdr": "none", "cc": [], "ccform": "one", "expireshdr": "none", "status": 200, "vurl": "same", "ct": True, "integ": "right"}
    return sum(1 for k, v in base.items() if o["s"][k] != v)


def check_c09(tier):
    rep = Report("C09", tier)
    rep.cov["rule"] = ("scenario grid built as real signed exchanges: per version a baseline x every single deviation (8 instants around date/expires incl. +-1 ns, "
                       "lifetimes 604799/604800/604801, methods, every stateful request header and every uncached response header in 4 letter cases, Cache-Control "
                       "directive subsets in mixed case as one value or several field lines, Expires, statuses 100..599, validity-URL scheme/host/port/case "
                       "variants, Content-Type, integrity id), the same on a not-cacheable-by-default status, sampled pairs and 3..5-way combinations; the real "
                       "Verify verdict must EQUAL Accept(x, t) evaluated by TLC from the exchange bytes, in both directions. distinct_nontrivial = distinct "
                       "(version, scenario class, verdict)")
    r = tlc("MC_SxgPolicy", "SPECIFICATION Spec\nINVARIANTS Design\nCHECK_DEADLOCK FALSE\n", "C09/mc", timeout=3000)
    rep.add_tlc("MC_SxgPolicy", r)
    scns = [o for t, o in r.lines]
    if tier == "quick":      # all single deviations, every 4th pair
        scns = [o for i, o in enumerate(sorted(scns, key=lambda x: json.dumps(x, sort_keys=True))) if _ndev(o) <= 1 or (i + vlib.seed()) % 4 == 0]
    wd = workdir("C09")
    p = os.path.join(wd, "pol.ndjson")
    vh_to_file(["sxg-pol", tier], p, timeout=3000)
    sp_ = os.path.join(wd, "scn.txt")
    with open(sp_, "w") as f:
        for o in scns:
            f.write(json.dumps(o) + "\n")
    p2 = os.path.join(wd, "scn.ndjson")
    vh_to_file(["sxg-scn"], p2, stdin_path=sp_, timeout=3000)
    with open(p, "a") as f:
        f.write(open(p2).read())
        # the same verifier in processes whose local zone has daylight saving (the cap is 604800 seconds, not 7 calendar days)
        for tz in ("America/New_York", "Europe/Berlin"):
            pz = os.path.join(wd, "pol-%s.ndjson" % tz.split("/")[1])
            vh_to_file(["sxg-pol", "dst"], pz, timeout=3000, env={"TZ": tz})
            for line in open(pz):
                d = json.loads(line)
                d["case"] = tz.split("/")[1] + "-" + d["case"]
                d["note"] = d["note"] + " & TZ=%s" % tz
                f.write(json.dumps(d) + "\n")
    cases, rejects = _judge(rep, "C09", p, 16, "pol")
    _ver_violations(rep, cases, rejects, "pol")
    # third verdict: the abstract policy model must agree with the real code on its own scenarios
    nabs = 0
    for c in cases.values():
        if c["note"].startswith("ABSTRACT-"):
            nabs += 1
            want = c["note"].startswith("ABSTRACT-OK")
            if want != c["ok"]:
                scn = json.loads(c["note"].split(" ", 1)[1])["s"]
                dev = {k: v for k, v in scn.items() if k != "ver" and v != {"win": "fixed", "decoy": ["none", "none"], "t": "mid", "life": 3600, "method": "GET", "reqhdr": "none", "resphdr": "none", "cc": [], "ccform": "one",
                                                                         "expireshdr": "none", "status": 200, "vurl": "same", "ct": True, "integ": "right"}[k]}
                rep.violation("pol:abstract:%s:%s:%s" % (scn["ver"], "accepts" if c["ok"] else "rejects", ",".join(sorted(dev))),
                              "Verify %s a %s exchange with deviations %s, the policy model says %s" % ("accepts" if c["ok"] else "rejects", scn["ver"], dev, "accept" if want else "reject"),
                              {"component": "sxgpol", "scenario": scn, "real": c["ok"], "model": want})
    rep.add("abstract_scenarios", enumerated=len(r.lines), executed=nabs)
    rep.cov["distinct_nontrivial"] = len(set((c["x"]["ver"], _norm_note(c["note"]), c["ok"]) for c in cases.values()))
    acc = sum(1 for c in cases.values() if c["ok"])
    rep.add("grid", scenarios=len(cases), accepted=acc, rejected=len(cases) - acc)
    for c in list(cases.values())[:1] + [c for c in cases.values() if not c["ok"]][:2]:
        rep.sample({"scenario": c["note"], "ver": c["x"]["ver"], "verdict": c["ok"]})
    _neg_ver(rep, "C09", cases)
    rep.assumptions = ["banned header names under keys of any letter case; Content-Type / Cache-Control / Expires / digest header under canonical keys",
                       "Cache-Control directives are unquoted tokens", "the same header name is not present under two spellings"]
    return rep.finish()


def _replay(pid, path):
    case = json.load(open(path))["case"]
    log("replay: re-running the generating family on the current tree and re-judging (cases are seeded)")
    fn = {"C01": check_c01, "C02": check_c02, "C08": check_c08, "C09": check_c09}[pid]
    return fn("quick")


def replay_c01(path):
    return _replay("C01", path)


def replay_c02(path):
    return _replay("C02", path)


def replay_c08(path):
    return _replay("C08", path)


def replay_c09(path):
    return _replay("C09", path)
