"""C07: integrity block signing against tla/IntegrityBlock.tla (Trace_IntegrityBlock with JDK Ed25519 / SHA-512)."""
import json, os
import vlib
from vlib import Report, tlc, vh_to_file, trace_validate, workdir, log, Infra


def check_c07(tier):
    rep = Report("C07", tier)
    rep.cov["rule"] = ("signing histories on real temporary files through ObtainIntegrityBlock / ComputeWebBundleSha512 / SignAndAddNewSignature / CborBytes (the steps of "
                       "sign-bundle integrity-block): file shapes {trailing length = size, > size, < size (block already present), >= 2^63, random} x sizes 0..70000 "
                       "(thorough: ..300000) x sequences of 1..3 signing operations with strategies whose signature verifies (match) or not (signature by another key, "
                       "corrupted signature) under the public key about to be recorded, three key pairs, extra attributes in either insertion order, keys passed in "
                       "slices with spare capacity. Trace_IntegrityBlock (JDK Ed25519 + SHA-512) requires: refusal exactly for files that are not unsigned bundles and for "
                       "non-verifying signatures (stack unchanged), newest-first stack, every listed signature verifying under its own attribute key over the specified "
                       "data-to-be-signed with the block as it stood before it, output = deterministic-CBOR block || untouched file, Web Bundle ID = lower-case unpadded "
                       "base32(key || 00 01 02). distinct_nontrivial = distinct (file kind, size, strategy sequence)")
    if os.path.exists(os.path.join(vlib.TLA, "MC_IntegrityBlock.tla")):
        r = tlc("MC_IntegrityBlock", "SPECIFICATION Spec\nCONSTANTS MaxOps = %d\nINVARIANTS StackVerifies NewestFirst OutputShape NothingOnMismatch\nCHECK_DEADLOCK FALSE\n" % (2 if tier == "quick" else 3), "C07/mc", timeout=3000)
        rep.add_tlc("MC_IntegrityBlock", r)
    # the TOOL's procedure as the steps it is (ask the key, build the attributes, obtain the signature, verify, add), against a
    # strategy whose key may change between any two of them; with one request for the key every placement of the rotation is safe
    nrot, nsig = (2, 2) if tier == "quick" else (4, 3)
    cfg = "SPECIFICATION Spec\nCONSTANTS MaxRot = %d\nAskTwice = %s\nMaxSigs = %d\nINVARIANTS StackVerifies IdMatches\nVIEW View\nCHECK_DEADLOCK FALSE\n"
    r = tlc("MC_IbTool", cfg % (nrot, "FALSE", nsig), "C07/tool", timeout=3000)
    rep.add_tlc("MC_IbTool", r)
    # ... and asking twice is NOT safe (the run Ask, BuildAttrs, Rotate, AskAgain, ObtainSig, VerifyAdd): the premise is necessary
    try:
        tlc("MC_IbTool", cfg % (nrot, "TRUE", nsig), "C07/tool-premise", timeout=3000)
        raise Infra("MC_IbTool: the configuration that asks the strategy twice does not violate StackVerifies (model is vacuous)")
    except Infra as e:
        import re as _re
        m = _re.search(r"see (\S+)", str(e))
        whole = open(m.group(1), errors="replace").read() if m and os.path.exists(m.group(1)) else str(e)
        if "Invariant StackVerifies is violated" not in whole:
            raise
        rep.add("premise_is_necessary:MC_IbTool", asking_the_strategy_twice_violates_StackVerifies=True)
    wd = workdir("C07")
    p = os.path.join(wd, "run.ndjson")
    vh_to_file(["ib-run", tier], p, timeout=3000)
    cases = {}
    for line in open(p):
        d = json.loads(line)
        cases[d["case"]] = d
    n, rejects, states = trace_validate("Trace_IntegrityBlock", "C07", p, overrides=True, shards=8, timeout=3000)
    rep.cov["states"] += states
    rep.cov["transitions"] += states
    rep.cov["traces_validated_against_impl"] = n
    rep.cov["evaluations"] = n
    rep.cov["distinct_nontrivial"] = len(set((c["filekind"], len(c["file"]), tuple(s["strat"] for s in c["steps"])) for c in cases.values()))
    for rj in rejects:
        c = cases[rj["case"]]
        for w in rj["why"]:
            key = "ib:%s:%s:%s" % (c["filekind"], ",".join(s["strat"] for s in c["steps"]), w[:50])
            rep.violation(key, "integrity-block signing of a %d-byte file (%s), strategies %s -> errors %s, stack %d: %s" % (
                len(c["file"]), c["filekind"], [s["strat"] for s in c["steps"]], [s["err"] for s in c["steps"]], len(c["stack"]), w),
                {"component": "ib", "event_case": c["case"], "filekind": c["filekind"], "size": len(c["file"]), "strategies": [s["strat"] for s in c["steps"]], "why": w})
    for c in list(cases.values())[:2]:
        rep.sample({"file_len": len(c["file"]), "kind": c["filekind"], "strategies": [s["strat"] for s in c["steps"]], "errors": [s["err"] for s in c["steps"]],
                    "stack": len(c["stack"]), "ids": [bytes(i["id"]).decode() for i in c["ids"]][:1]})
    good = [c for c in cases.values() if c["case"] not in rep.rejected_ids and c["stack"] and len(c["file"]) < 2000][0]
    b1 = json.loads(json.dumps(good)); b1["case"] = "neg1"; b1["stack"][0]["sig"][3] ^= 1
    b2 = json.loads(json.dumps(good)); b2["case"] = "neg2"; b2["out"][-1] ^= 1
    b3 = json.loads(json.dumps(good)); b3["case"] = "neg3"; b3["ids"][0]["id"][0] ^= 1
    np_ = os.path.join(wd, "neg.ndjson")
    open(np_, "w").write("\n".join(json.dumps(x) for x in (good, b1, b2, b3)) + "\n")
    _, rj, _ = trace_validate("Trace_IntegrityBlock", "C07/neg", np_, overrides=True, shards=1)
    if sorted(x["case"] for x in rj) != ["neg1", "neg2", "neg3"]:
        raise Infra("negative control failed for Trace_IntegrityBlock: %s" % rj)
    rep.add("negative_control", corrupted_records_rejected=3)
    rep.assumptions = ["attribute maps are GenerateSignatureAttributesWithPublicKey(pk) plus extra entries, and the same pk is passed as the verification key (as the CLI does)",
                       "the block version is the three-element one C07 states"]
    # the command-line path (sign-bundle integrity-block): same obligations on the file the tool leaves behind
    from cli_checks import ib_cli
    ib_cli(rep, "C07")
    return rep.finish()


def replay_c07(path):
    log("replay: re-running the check family on the current tree")
    return check_c07("quick")
