"""C10: totality and resource bounds of every parser (Trace_Totality); inputs chosen by the TLC models of the other checks."""
import itertools, json, os
import vlib
from vlib import Report, tlc, vh_to_file, trace_validate, workdir, log, Infra
import cbor_checks, mice_checks


def check_c10(tier):
    rep = Report("C10", tier, level="model_checking")
    rep.cov["rule"] = ("inputs: the TLC-generated adversarial vectors of C05 (MC_BundleRead: every length / offset / count field replaced by boundary values, sections "
                       "reordered / duplicated / unknown / missing, truncation at every offset), C12 (MC_CborDec: 256 heads x follow patterns x content relations), C13 (head + "
                       "8-byte-argument family), C15 (MC_Mice adversarial streams, concretised), C16 (short strings over the grammar alphabet), plus boundary values "
                       "(24 .. 2^64-1) in every declared length / count of CBOR items, cert chains, bundle section tables, the signed-exchange prologue and the MI record "
                       "size, 100 kB structured-header inputs and random bytes, each fed to every parser entry point (bundle reader + signature verifier, signed-exchange "
                       "reader + verifier, cert-chain reader, both structured-header parsers, MI decoder both drafts, CBOR decoder, deterministic check, integrity-block "
                       "detection) under recover(), a 10 s watchdog and TotalAlloc accounting with GC off. Trace_Totality admits only outcomes value / error with "
                       "alloc <= C(parser) + 256 * |input|. distinct_nontrivial = distinct (parser, input) pairs with |input| > 1")
    wd = workdir("C10")
    vec = os.path.join(wd, "vectors.ndjson")
    nvec = 0
    with open(vec, "w") as f:
        def put(parser, data, note):
            nonlocal nvec
            nvec += 1
            f.write(json.dumps({"parser": parser, "input": list(data), "note": note}) + "\n")
        r = tlc("MC_BundleRead", "SPECIFICATION Spec\nCONSTANTS Bases = {1, 2, 5}\nINVARIANTS UnmutatedReads\nCHECK_DEADLOCK FALSE\n", "C10/bundle", timeout=3000)
        rep.add_tlc("MC_BundleRead", r)
        for t, o in r.lines:
            put("bundle.Read", o["file"], "MC_BundleRead/" + o["note"])
        r = tlc("MC_CborDec", "SPECIFICATION Spec\nCONSTANTS\n MaxOps = 1\n Pairs = FALSE\nINVARIANTS PosInRange\nCHECK_DEADLOCK FALSE\n", "C10/cbor")
        rep.add_tlc("MC_CborDec", r)
        seen = set()
        for t, o in r.lines:
            k = tuple(o["in"])
            if k not in seen:
                seen.add(k)
                put("cbor.Decoder", o["in"], "MC_CborDec")
                put("cbor.Deterministic", o["in"], "MC_CborDec")
                put("certurl.ReadCertChain", o["in"], "MC_CborDec")
        for h in (27, 91, 123, 155, 187):
            for a in (0, 64, 127, 128, 255):
                for m in (0, 255):
                    for z in (0, 1, 247, 255):
                        s = [h, a, m, m, m, m, m, m, z]
                        put("cbor.Deterministic", s, "arg8")
                        put("cbor.Decoder", s + [0, 1], "arg8")
        vecs = mice_checks._mc(rep, "C10", "mice", 1, 2, 3, 3, [0, 1], 4, True)
        vp = os.path.join(wd, "mice-vec.txt")
        import random
        rnd = random.Random(vlib.seed())
        rnd.shuffle(vecs)
        with open(vp, "w") as g:
            for v in vecs[:3000 if tier == "quick" else 30000]:
                g.write(json.dumps(v) + "\n")
        mp = os.path.join(wd, "mice-replay.ndjson")
        vh_to_file(["mice-replay"], mp, stdin_path=vp)
        import base64
        for line in open(mp):
            d = json.loads(line)
            dg = bytes(d["digest"]).decode()
            proof = base64.b64decode(dg.split("=", 1)[1] + "==") if d["draft"] == "03" else base64.urlsafe_b64decode(dg.split("=", 1)[1] + "==")
            put("mice.Decode" + d["draft"], list(proof[:32]) + d["stream"], "MC_Mice")
        alpha = [97, 65, 49, 48, 45, 34, 92, 42, 59, 44, 61, 32, 9, 47, 10, 95]
        for L in range(0, 4 if tier == "quick" else 5):
            for s in itertools.product(alpha, repeat=L):
                put("sh.ParseListOfLists", s, "MC_SH space")
                put("sh.ParseParameterisedList", s, "MC_SH space")
    outp = os.path.join(wd, "run.ndjson")
    vlib.vh_resilient(["total-run", tier], outp, stdin_path=vec, timeout=3400)
    cases = {}
    for line in open(outp):
        d = json.loads(line)
        cases[d["case"]] = d
    n, rejects, states = trace_validate("Trace_Totality", "C10", outp, shards=16, timeout=3000)
    rep.cov["states"] += states
    rep.cov["transitions"] += states
    rep.cov["traces_validated_against_impl"] = n
    rep.cov["evaluations"] = n
    rep.cov["distinct_nontrivial"] = len(set((c["parser"], c["n"], tuple(c["head"][:64])) for c in cases.values() if c["n"] > 1))
    per, mx = {}, {}
    for c in cases.values():
        per[c["parser"] + " -> " + c["outcome"]] = per.get(c["parser"] + " -> " + c["outcome"], 0) + 1
        mx[c["parser"]] = max(mx.get(c["parser"], 0), c["alloc"])
    rep.add("calls", tlc_vectors=nvec, by_parser_and_outcome=per, max_alloc_bytes=mx, rejected=len(rejects))
    for rj in rejects:
        c = cases[rj["case"]]
        for w in rj["why"]:
            rep.violation("total:%s:%s:%s" % (c["parser"], w[:20], bytes(c["head"][:24]).hex()),
                          "%s on a %d-byte input (%s, hex %s...): outcome %s, %d bytes allocated: %s" % (c["parser"], c["n"], c["note"], bytes(c["head"][:32]).hex(), c["outcome"], c["alloc"], w),
                          {"component": "total", "parser": c["parser"], "input_head": c["head"], "n": c["n"], "note": c["note"], "why": w})
    for c in list(cases.values())[:2] + list(cases.values())[-1:]:
        rep.sample({"parser": c["parser"], "note": c["note"], "input_len": c["n"], "outcome": c["outcome"], "alloc": c["alloc"]})
    good = list(cases.values())[0]
    b1 = dict(good, case="neg1", outcome="panic")
    b2 = dict(good, case="neg2", alloc=2000000000)
    np_ = os.path.join(wd, "neg.ndjson")
    open(np_, "w").write("\n".join(json.dumps(x) for x in (good, b1, b2)) + "\n")
    _, rj, _ = trace_validate("Trace_Totality", "C10/neg", np_, shards=1)
    if sorted(x["case"] for x in rj) != ["neg1", "neg2"]:
        raise Infra("negative control failed for Trace_Totality: %s" % rj)
    rep.add("negative_control", corrupted_records_rejected=2)
    # the dump tools are entry points too (files the generating tools wrote, signed NOW, and damaged variants of them)
    from cli_checks import cli_total
    cli_total(rep, "C10", tier)
    rep.assumptions = ["panic / hang / allocation are observations of the real run (recover, watchdog, runtime.MemStats); TLC chooses the inputs and judges the outcome",
                       "cbor.Deterministic's deliberate panics on truncated input count as refusals (C13)", "the caller's MI record-size limit is 16384"]
    return rep.finish()


def replay_c10(path):
    log("replay: re-running the check family on the current tree")
    return check_c10("quick")
