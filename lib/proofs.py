"""Unbounded obligations discharged with Apalache (symbolic, SMT): inductive invariants of small typed modules
whose bounded, implementation-bound counterparts are model-checked by TLC (and refine them)."""
import os, re, shutil, subprocess, time
import vlib
from vlib import Infra, workdir, fresh

def _apalache(wd, module, args, timeout=900):
    cmd = ["apalache-mc", "check"] + args + ["--out-dir=" + os.path.join(wd, "out"), module + ".tla"]
    t0 = time.time()
    try:
        p = subprocess.run(cmd, cwd=wd, capture_output=True, text=True, timeout=timeout)
    except subprocess.TimeoutExpired:
        raise Infra("apalache timed out on %s %s" % (module, args))
    out = p.stdout + p.stderr
    if "The outcome is: NoError" in out:
        return True, time.time() - t0
    if "The outcome is: Error" in out or "Found a counterexample" in out or "violat" in out:
        return False, time.time() - t0
    raise Infra("apalache failed on %s %s:\n%s" % (module, args, out[-1500:]))

def inductive(rep, pid, module, props="Props", mutate=None):
    """Init => IndInv ; IndInv /\\ Next => IndInv' ; IndInv => props.  `mutate` = (old, new) textual change of the module
    that must make the inductive step fail (negative control)."""
    wd = fresh(os.path.join(workdir(pid), "apalache-" + module))
    shutil.copyfile(os.path.join(vlib.TLA, module + ".tla"), os.path.join(wd, module + ".tla"))
    obligations = [("Init => IndInv", ["--init=Init", "--inv=IndInv", "--length=0"]),
                   ("IndInv /\\ Next => IndInv'", ["--init=IndInit", "--inv=IndInv", "--length=1"]),
                   ("IndInv => " + props, ["--init=IndInit", "--inv=" + props, "--length=0"])]
    res = {}
    for name, args in obligations:
        ok, dt = _apalache(wd, module, args)
        if not ok:
            raise Infra("apalache refutes obligation %r of %s (a defect of the model, not a verdict about the code)" % (name, module))
        res[name] = "proved (%.0fs)" % dt
    if mutate:
        src = open(os.path.join(wd, module + ".tla")).read()
        if mutate[0] not in src:
            raise Infra("negative control text not found in %s" % module)
        md = fresh(os.path.join(workdir(pid), "apalache-neg-" + module))
        open(os.path.join(md, module + ".tla"), "w").write(src.replace(mutate[0], mutate[1], 1))
        ok1, _ = _apalache(md, module, obligations[1][1])
        ok2, _ = _apalache(md, module, obligations[2][1]) if ok1 else (False, 0)
        if ok1 and ok2:
            raise Infra("negative control: apalache accepts the mutated %s" % module)
        res["negative control (mutated action)"] = "refuted"
    rep.add("apalache:" + module, **{re.sub(r"[^A-Za-z0-9]+", "_", k).strip("_"): v for k, v in res.items()})
    return res
