"""C11, C12, C13: CBOR encoder / decoder / deterministic-form check against tla/Cbor.tla."""
import json, os
import vlib
from vlib import Report, tlc, vh, vh_to_file, trace_validate, workdir, log, Infra

ALPHABET = [0, 1, 23, 24, 25, 26, 27, 28, 31, 32, 64, 65, 66, 88, 89, 96, 97, 98, 120, 128, 129, 130, 152,
            160, 161, 162, 184, 192, 244, 255]


def tlaset(xs):
    return "{" + ",".join(str(x) for x in xs) + "}"


def hexs(a):
    return bytes(a).hex()


# ------------------------------------------------------------------------------------ C13

def _det_space(rep, name, space, timeout=3000):
    """accepted-set exchange on one enumerated space: TLC's accepted set vs the real one."""
    cfg = """SPECIFICATION Spec
CONSTANTS
  MaxLen = %d
  Alphabet = %s
  Mode = "%s"
  F1 = %s
  FM = %s
  F8 = %s
  TailAlphabet = %s
  MaxTail = %d
INVARIANTS WalkAgrees DetImpliesWf InitEmit
CHECK_DEADLOCK FALSE
""" % (space["maxlen"], tlaset(space["alphabet"]), space["mode"], tlaset(space["f1"]), tlaset(space["fm"]),
       tlaset(space["f8"]), tlaset(space["tail"]), space["maxtail"])
    r = tlc("MC_CborDet", cfg, "C13/" + name, tags=("ACC",), timeout=timeout)
    rep.add_tlc("MC_CborDet:" + name, r)
    spec_acc = set(tuple(o) for t, o in r.lines)
    if space["mode"] == "short":
        spec_acc.add(())     # the empty sequence of items (the initial state) is deterministic
    outp = os.path.join(workdir("C13"), "enum-" + name + ".ndjson")
    vh_to_file(["cbordet-enum", json.dumps(space)], outp, timeout=timeout)
    real_acc, timeouts, counts, unstable = set(), [], None, []
    with open(outp) as f:
        for line in f:
            d = json.loads(line)
            if "acc" in d:
                real_acc.add(tuple(d["acc"]))
            elif "timeout" in d:
                timeouts.append(d["timeout"])
            elif "unstable" in d:
                unstable.append(d["unstable"])
            elif "counts" in d:
                counts = d
    if counts is None:
        raise Infra("cbordet-enum produced no summary")
    total = sum(counts["counts"].values())
    if not counts.get("aborted") and total != r.distinct:
        raise Infra("enumeration spaces differ: TLC %d states, harness %d inputs (%s)" % (r.distinct, total, name))
    rep.cov["evaluations"] += total
    rep.cov["traces_validated_against_impl"] += total
    rep.add("exchange:" + name, inputs=total, spec_accepted=len(spec_acc), real_accepted=len(real_acc),
            real_verdicts=counts["counts"])
    for s in sorted(real_acc - spec_acc)[:2000]:
        rep.violation("accepts:" + hexs(s), "cbor.Deterministic accepts %s, which is not a sequence of complete core-deterministic items" % hexs(s),
                      {"component": "cbordet", "in": list(s), "spec": False, "real": "nil"})
    for s in sorted(spec_acc - real_acc)[:2000]:
        if list(s) in timeouts or list(s) in unstable:
            continue
        rep.violation("rejects:" + hexs(s), "cbor.Deterministic rejects %s, which is core-deterministic" % hexs(s),
                      {"component": "cbordet", "in": list(s), "spec": True, "real": "not nil"})
    for s in unstable:
        rep.violation("unstable:" + hexs(s), "cbor.Deterministic gives different verdicts for %s depending on the bytes that lie behind the slice in memory" % hexs(s),
                      {"component": "cbordet", "in": list(s), "real": "unstable"})
    for s in timeouts:
        rep.violation("hangs:" + hexs(s), "cbor.Deterministic does not terminate on %s" % hexs(s),
                      {"component": "cbordet", "in": list(s), "real": "timeout"})
    for s in sorted(spec_acc)[:3]:
        rep.sample({"space": name, "input_hex": hexs(s), "spec": "accept", "real": "accept" if s in real_acc else "reject"})
    return len(spec_acc | real_acc)


def _det_traces(rep, n, shards):
    outp = os.path.join(workdir("C13"), "gen.ndjson")
    vh_to_file(["cbordet-gen", str(n)], outp)
    cases = [json.loads(l) for l in open(outp)]
    nl, rejects, states = trace_validate("Trace_CborDet", "C13", outp, shards=shards)
    rep.cov["states"] += states
    rep.cov["transitions"] += states
    rep.cov["traces_validated_against_impl"] += nl
    rep.cov["evaluations"] += nl
    kinds = {}
    for c in cases:
        kinds[c["mut"] + "/" + c["verdict"]] = kinds.get(c["mut"] + "/" + c["verdict"], 0) + 1
    rep.add("trace:Trace_CborDet", cases=nl, by_mutation_and_real_verdict=kinds, rejected=len(rejects))
    byid = {c["case"]: c for c in cases}
    for rj in rejects:
        c = byid[rj["case"]]
        h = hexs(c["in"])
        if c["verdict"] == "unstable":
            rep.violation("unstable:" + h, "cbor.Deterministic gives different verdicts for %s depending on the bytes that lie behind the slice in memory" % h, {"component": "cbordet", "in": c["in"], "real": "unstable"})
        elif c["verdict"] == "timeout":
            rep.violation("hangs:" + h, "cbor.Deterministic does not terminate on %s" % h, {"component": "cbordet", "in": c["in"], "real": "timeout"})
        elif c["verdict"] == "nil":
            rep.violation("accepts:" + h, "cbor.Deterministic accepts %s (generated by mutation '%s'), not core-deterministic" % (h, c["mut"]),
                          {"component": "cbordet", "in": c["in"], "spec": False, "real": "nil"})
        else:
            rep.violation("rejects:" + h, "cbor.Deterministic rejects %s (%s), which is core-deterministic%s" % (
                h, c["verdict"], " and was emitted by the real encoder" if c["enc"] else ""),
                {"component": "cbordet", "in": c["in"], "spec": True, "real": c["verdict"]})
    for c in cases[:2]:
        rep.sample({"generated": c["mut"], "input_hex": hexs(c["in"]), "real": c["verdict"]})
    return len(set(tuple(c["in"]) for c in cases if len(c["in"]) > 1))


def _neg_control_det(rep):
    """the trace spec must reject a corrupted record (binding is not vacuous)"""
    p = os.path.join(workdir("C13"), "neg.ndjson")
    with open(p, "w") as f:
        f.write(json.dumps({"case": 1, "in": [24, 24], "verdict": "nil", "mut": "none", "enc": False}) + "\n")
        f.write(json.dumps({"case": 2, "in": [24, 23], "verdict": "nil", "mut": "neg", "enc": False}) + "\n")   # non-shortest, claimed accepted
        f.write(json.dumps({"case": 3, "in": [24, 24], "verdict": "error", "mut": "neg", "enc": False}) + "\n")  # shortest, claimed rejected
    n, rej, _ = trace_validate("Trace_CborDet", "C13/neg", p, shards=1)
    got = sorted(r["case"] for r in rej)
    if got != [2, 3]:
        raise Infra("negative control failed: Trace_CborDet rejected %s, expected [2, 3]" % got)
    rep.add("negative_control", corrupted_records_rejected=2)


def check_c13(tier):
    rep = Report("C13", tier)
    rep.cov["rule"] = ("accepted-set exchange: TLC enumerates every byte string of length <= L over a 30-symbol alphabet covering every "
                       "(major type, additional-info class) pair plus a head+8-follow-byte family, evaluating CoreDeterministic and the "
                       "CborDet walk in every state; the harness runs the real cbor.Deterministic on the same space under recover()+watchdog; "
                       "plus generated nested items (real encoder output and damaged variants) judged by Trace_CborDet. distinct_nontrivial = "
                       "distinct inputs accepted by either side (exchange) + distinct generated inputs longer than one byte")
    rep.assumptions = ["error and panic are both 'not accepted' (the function panics deliberately on truncated input)",
                       "UTF-8 validity of text strings is not part of well-formedness (RFC 8949: well-formed but invalid)"]
    short = {"mode": "short", "maxlen": 4 if tier == "quick" else 5, "alphabet": ALPHABET, "f1": [0], "fm": [0], "f8": [0], "tail": [0], "maxtail": 0}
    if tier == "quick":
        arg8 = {"mode": "arg8", "maxlen": 0, "alphabet": [0], "f1": [0, 64, 127, 128, 255], "fm": [0, 255], "f8": [0, 1, 2, 247, 255], "tail": [0, 1], "maxtail": 2}
    else:
        arg8 = {"mode": "arg8", "maxlen": 0, "alphabet": [0], "f1": [0, 1, 63, 64, 127, 128, 255], "fm": [0, 1, 128, 255], "f8": [0, 1, 2, 8, 9, 246, 247, 248, 255], "tail": [0, 1, 64, 128], "maxtail": 3}
    nt = _det_space(rep, "short", short)
    nt += _det_space(rep, "arg8", arg8)
    nt += _det_traces(rep, 600 if tier == "quick" else 6000, 4 if tier == "quick" else 16)
    _neg_control_det(rep)
    rep.cov["distinct_nontrivial"] = nt
    rep.cov["exhaustive"] = True
    return rep.finish()


def replay_c13(path):
    case = json.load(open(path))["case"]
    res = vh(["cbordet-list"], stdin=json.dumps(case["in"]) + "\n")
    real = res[0]["verdict"]
    p = os.path.join(workdir("C13"), "replay.ndjson")
    open(p, "w").write(json.dumps({"case": 1, "in": case["in"], "verdict": real, "mut": "replay", "enc": False}) + "\n")
    n, rej, _ = trace_validate("Trace_CborDet", "C13/replay", p, shards=1)
    log("replay: input %s real verdict %s -> %s" % (hexs(case["in"]), real, "VIOLATION" if rej else "conforms"))
    if rej:
        log("VIOLATION property=C13 replay=%s" % path)
        return 1
    return 0


# ------------------------------------------------------------------------------------ C11

def _vec_file(r, path, key=None):
    n = 0
    with open(path, "w") as f:
        for t, o in r.lines:
            if t == "VEC":
                f.write(json.dumps(o) + "\n")
                n += 1
    return n


def _enc_reject_desc(c, idx):
    call = c["calls"][idx - 1]
    arg = {"uint": hexs(call["a"]), "int": ("-1-" if call["neg"] else "") + hexs(call["a"]), "bytes": "len %d" % len(call["s"]),
           "text": "len %d %s" % (len(call["s"]), hexs(call["s"][:16])), "arr": hexs(call["a"]), "bool": str(call["v"]),
           "map": "entries " + ",".join(hexs(e["k"])[:16] for e in call["es"])}[call["op"]]
    return "cbor.Encoder %s(%s) -> err=%s out=%s... is not a step of the CborEnc machine" % (call["op"], arg, call["err"], hexs(call["out"][:24]))


def check_c11(tier):
    rep = Report("C11", tier)
    rep.cov["rule"] = ("TLC explores the CborEnc machine over boundary arguments (every uint64/int64 head-size boundary +-1, string length classes, "
                       "ill-formed UTF-8, maps over keys of mixed lengths/types in every order incl. equal keys) checking RoundTrip/ShortestHeads/"
                       "MapCanonical/PermIndependent in every state; every terminal behaviour is replayed on the real Encoder and the recorded run, "
                       "plus seeded random call sequences (arbitrary 64-bit values, strings up to 70000 bytes, shuffled maps), is judged call by call "
                       "by Trace_CborEnc. distinct_nontrivial = distinct recorded call sequences whose output is longer than one byte")
    configs = [("c1", 1, "full", "small", "small", False), ("c2", 2, "small", "small", "small", False),
               # one encoder used on after a refusal: refused call, any call, any call - each judged on its own
               ("r3", 3, "refused", "small", "small", True)]
    if tier != "quick":
        configs += [("c2m", 2, "medium", "medium", "small", False), ("c3", 3, "small", "small", "small", False), ("r3m", 3, "refused", "medium", "small", True), ("r3b", 3, "small", "refused", "medium", True)]
    wd = workdir("C11")
    allrun = os.path.join(wd, "run.ndjson")
    open(allrun, "w").close()
    nvec = 0
    for name, mc, u1, u2, u3, goon in configs:
        cfg = ("SPECIFICATION Spec\nCONSTANTS\n MaxCalls = %d\n U1 = \"%s\"\n U2 = \"%s\"\n U3 = \"%s\"\n GoOn = %s\n"
               "INVARIANTS RoundTrip ShortestHeads TextIsUtf8 MapCanonical PermIndependent DupRefused\nCHECK_DEADLOCK FALSE\n" % (mc, u1, u2, u3, "TRUE" if goon else "FALSE"))
        r = tlc("MC_CborEnc", cfg, "C11/" + name)
        rep.add_tlc("MC_CborEnc:" + name, r)
        vp = os.path.join(wd, "vec-%s.txt" % name)
        nvec += _vec_file(r, vp)
        part = os.path.join(wd, "run-%s.ndjson" % name)
        vh_to_file(["cborenc-run"], part, stdin_path=vp)
        with open(allrun, "a") as f:
            for i, line in enumerate(open(part)):
                d = json.loads(line)
                d["case"] = "%s/%d" % (name, d["case"])
                f.write(json.dumps(d) + "\n")
    gen = os.path.join(wd, "gen.ndjson")
    vh_to_file(["cborenc-gen", str(400 if tier == "quick" else 4000), "big"], gen)
    with open(allrun, "a") as f:
        for line in open(gen):
            d = json.loads(line)
            d["case"] = "gen/%d" % d["case"]
            f.write(json.dumps(d) + "\n")
    cases = {}
    distinct = set()
    for line in open(allrun):
        d = json.loads(line)
        cases[d["case"]] = d
        o = tuple(tuple(c["out"][:64]) + (len(c["out"]),) for c in d["calls"])
        if sum(len(c["out"]) for c in d["calls"]) > 1:
            distinct.add(o)
    n, rejects, states = trace_validate("Trace_CborEnc", "C11", allrun, shards=8 if tier == "quick" else 16)
    rep.cov["states"] += states
    rep.cov["transitions"] += states
    rep.cov["traces_validated_against_impl"] = n
    rep.cov["evaluations"] = n
    rep.cov["distinct_nontrivial"] = len(distinct)
    rep.add("replay", tlc_behaviours_replayed=nvec, random_sequences=n - nvec, rejected=len(rejects))
    for rj in rejects:
        c = cases[rj["case"]]
        for idx in rj["calls"]:
            call = c["calls"][idx - 1]
            key = "enc:%s:%s:%s" % (call["op"], hexs(call["a"]), hashlib_short(call))
            rep.violation(key, _enc_reject_desc(c, idx), {"component": "cborenc", "calls": c["calls"], "bad_call": idx})
    for k in list(cases)[:2] + list(cases)[-1:]:
        c = cases[k]
        rep.sample({"case": k, "calls": [{"op": x["op"], "err": x["err"], "out_hex": hexs(x["out"][:32])} for x in c["calls"]]})
    # negative control: corrupt one byte of one recorded output, drop the error flag of a refused call
    neg = os.path.join(wd, "neg.ndjson")
    good = [c for c in cases.values() if c["case"] not in rep.rejected_ids and c["calls"] and len(c["calls"][0]["out"]) >= 2 and not c["calls"][0]["err"]][0]
    bad1 = json.loads(json.dumps(good)); bad1["case"] = "neg1"; bad1["calls"][0]["out"][1] ^= 1
    refused = [c for c in cases.values() if any(x["err"] for x in c["calls"])]
    lines = [good, bad1]
    expect = ["neg1"]
    if refused:
        bad2 = json.loads(json.dumps(refused[0])); bad2["case"] = "neg2"
        for x in bad2["calls"]:
            x["err"] = False
        lines.append(bad2); expect.append("neg2")
    open(neg, "w").write("\n".join(json.dumps(x) for x in lines) + "\n")
    _, rj, _ = trace_validate("Trace_CborEnc", "C11/neg", neg, shards=1)
    if sorted(x["case"] for x in rj) != sorted(expect):
        raise Infra("negative control failed for Trace_CborEnc: %s" % rj)
    rep.add("negative_control", corrupted_records_rejected=len(expect))
    rep.assumptions = ["array/map counts passed to the encoder are non-negative ints", "on a duplicate-key refusal any prefix of the canonical emission may already have been written"]
    # instances of tens of MiB (thresholds in buffering / chunking code): Trace_Huge
    from huge_checks import huge
    huge(rep, "C11", "cborenc")
    return rep.finish()


def hashlib_short(obj):
    import hashlib
    return hashlib.sha1(json.dumps(obj, sort_keys=True).encode()).hexdigest()[:10]


def _replay_trace(pid, module, case_line):
    p = os.path.join(workdir(pid), "replay.ndjson")
    open(p, "w").write(json.dumps(case_line) + "\n")
    _, rej, _ = trace_validate(module, pid + "/replay", p, shards=1)
    return rej


def replay_c11(path):
    case = json.load(open(path))["case"]
    calls = [{k: c[k] for k in ("op", "a", "neg", "s", "v", "es")} for c in case["calls"]]
    res = vh(["cborenc-run"], stdin=json.dumps(calls) + "\n")
    rej = _replay_trace("C11", "Trace_CborEnc", res[0])
    log("replay: %s" % ("VIOLATION" if rej else "conforms"))
    if rej:
        log("VIOLATION property=C11 replay=%s" % path)
        return 1
    return 0


# ------------------------------------------------------------------------------------ C12

def check_c12(tier):
    rep = Report("C12", tier)
    rep.cov["rule"] = ("TLC explores the CborDec machine over 256 initial bytes x follow-byte patterns (zero, 1, 23, 24, least value of the class, "
                       "7f ff.., 80 00.., ff.., ff..f7, truncated) x content shorter/equal/longer than declared (and ill-formed UTF-8) x 6 accessors, "
                       "plus two-item streams with accessor pairs; every behaviour is replayed on the real Decoder over a bytes.Reader and the recorded "
                       "result/consumption is judged by Trace_CborDec, together with seeded random streams (encoder output in all head sizes, mutated, "
                       "random). distinct_nontrivial = distinct (stream, accessor sequence) pairs with a stream longer than one byte")
    wd = workdir("C12")
    allrun = os.path.join(wd, "run.ndjson")
    open(allrun, "w").close()
    nvec = 0
    cfgs = [("single", 1, "FALSE"), ("pairs", 2, "TRUE")]
    if tier != "quick":
        cfgs.append(("single2", 2, "FALSE"))
    for name, mo, pairs in cfgs:
        cfg = ("SPECIFICATION Spec\nCONSTANTS\n MaxOps = %d\n Pairs = %s\nINVARIANTS LeafAgreesWithWf TextAgreesWithWf NoReserved PosInRange\n"
               "CHECK_DEADLOCK FALSE\n" % (mo, pairs))
        r = tlc("MC_CborDec", cfg, "C12/" + name)
        rep.add_tlc("MC_CborDec:" + name, r)
        vp = os.path.join(wd, "vec-%s.txt" % name)
        nvec += _vec_file(r, vp)
        part = os.path.join(wd, "run-%s.ndjson" % name)
        vh_to_file(["cbordec-run"], part, stdin_path=vp)
        with open(allrun, "a") as f:
            for line in open(part):
                d = json.loads(line)
                d["case"] = "%s/%d" % (name, d["case"])
                f.write(json.dumps(d) + "\n")
    gen = os.path.join(wd, "gen.ndjson")
    vh_to_file(["cbordec-gen", str(1500 if tier == "quick" else 20000), "big"], gen)
    with open(allrun, "a") as f:
        for line in open(gen):
            d = json.loads(line)
            d["case"] = "gen/%d" % d["case"]
            f.write(json.dumps(d) + "\n")
    cases = {}
    distinct = set()
    for line in open(allrun):
        d = json.loads(line)
        cases[d["case"]] = d
        if len(d["in"]) > 1:
            distinct.add((tuple(d["in"][:48]), len(d["in"]), tuple(c["op"] for c in d["calls"])))
    n, rejects, states = trace_validate("Trace_CborDec", "C12", allrun, shards=8 if tier == "quick" else 16)
    rep.cov["states"] += states
    rep.cov["transitions"] += states
    rep.cov["traces_validated_against_impl"] = n
    rep.cov["evaluations"] = n
    rep.cov["distinct_nontrivial"] = len(distinct)
    rep.add("replay", tlc_behaviours_replayed=nvec, random_streams=n - nvec, rejected=len(rejects))
    for rj in rejects:
        c = cases[rj["case"]]
        for idx in rj["calls"]:
            call = c["calls"][idx - 1]
            before = len(c["in"]) - (c["calls"][idx - 2]["rest"] if idx > 1 else len(c["in"]))
            at = c["in"][before:before + 12]
            key = "dec:%s:%s:%s" % (call["op"], hexs(at[:9]), "panic" if call.get("panic") else ("err" if call["err"] else "ok"))
            rep.violation(key, "cbor.Decoder %s at offset %d of stream %s... -> err=%s%s value=%s/%d bytes, %d bytes left: not a step of the CborDec machine" % (
                call["op"], before, hexs(c["in"][:24]), call["err"], " (panic)" if call.get("panic") else "", hexs(call["a"]), len(call["s"]), call["rest"]),
                {"component": "cbordec", "in": c["in"], "ops": [x["op"] for x in c["calls"]], "bad_call": idx})
    for k in list(cases)[:2] + list(cases)[-1:]:
        c = cases[k]
        rep.sample({"case": k, "stream_hex": hexs(c["in"][:32]), "calls": [{"op": x["op"], "err": x["err"], "rest": x["rest"]} for x in c["calls"]]})
    # negative control
    good = [c for c in cases.values() if c["case"] not in rep.rejected_ids and c["calls"] and not c["calls"][0]["err"] and c["calls"][0]["op"] == "uint"][0]
    bad1 = json.loads(json.dumps(good)); bad1["case"] = "neg1"; bad1["calls"][0]["a"][7] ^= 1
    bad2 = json.loads(json.dumps(good)); bad2["case"] = "neg2"; bad2["calls"][0]["rest"] += 1; bad2["in"] = bad2["in"] + [0]
    neg = os.path.join(wd, "neg.ndjson")
    open(neg, "w").write("\n".join(json.dumps(x) for x in (good, bad1, bad2)) + "\n")
    _, rj, _ = trace_validate("Trace_CborDec", "C12/neg", neg, shards=1)
    if sorted(x["case"] for x in rj) != ["neg1"]:
        # neg2 (an extra trailing byte, rest adjusted) is legitimately accepted; only neg1 must be rejected
        raise Infra("negative control failed for Trace_CborDec: %s" % rj)
    rep.add("negative_control", corrupted_records_rejected=1)
    rep.assumptions = ["the source is a bytes.Reader (consumption observed as its remaining length)",
                       "values returned together with an error are not compared; after an error only the cursor staying in range is required"]
    # the decoder sees the stream only through Read calls: every fragmentation / end-of-input form / failure after k bytes (ReaderFaults.tla)
    from rf_checks import reader_faults
    # the 32-bit boundary of a string length with the content really present (about 8 GiB of memory for some seconds; run only
    # when three times that is available)
    from huge_checks import huge as _huge
    _huge(rep, "C12", "cbordec2g", need_gib=24)
    reader_faults(rep, "C12", ["cbor"], tier)
    # calls on independent objects running in parallel do not interfere (Trace_Purity, race detector)
    from purity_checks import parallel_cold
    parallel_cold(rep, "C12", "cbor")
    # instances of tens of MiB (thresholds in buffering / chunking code): Trace_Huge
    from huge_checks import huge
    huge(rep, "C12", "cbordec")
    return rep.finish()


def replay_c12(path):
    case = json.load(open(path))["case"]
    res = vh(["cbordec-run"], stdin=json.dumps({"in": case["in"], "ops": case["ops"]}) + "\n")
    rej = _replay_trace("C12", "Trace_CborDec", res[0])
    log("replay: %s" % ("VIOLATION" if rej else "conforms"))
    if rej:
        log("VIOLATION property=C12 replay=%s" % path)
        return 1
    return 0
