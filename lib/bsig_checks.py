"""C06: bundle signatures section against tla/BundleSig.tla (Trace_BundleSig with JDK crypto)."""
import json, os, re
import vlib
from vlib import Report, tlc, vh_to_file, trace_validate, workdir, log, Infra


def check_c06(tier):
    rep = Report("C06", tier)
    rep.cov["rule"] = ("sign / write-read / verify histories of the real code: bundles b1/b2 with 3 exchanges on 2 covered hosts + 1 uncovered, signers s1 (host A, P-256), "
                       "s2 (host B, P-384), s3 (both hosts, chain of 2), sequences of 1..3 signers with optional write/read between them (a signer meeting an exchange that "
                       "already carries a Digest header is refused and nothing is committed), record sizes 1/16/4096, durations 1 s, 1 h, 7 d, 7 d + 1 s, verification at "
                       "date-1, date, mid, expires, expires+1ns, expires+1, in memory and after write/read; tampering with every exchange field, body bytes, body+Digest "
                       "together, every 3rd byte of each signed subset, every 4th of each signature, authority indices, authority / subset order, replaced certificate, "
                       "and bit flips across the serialized file. Each verification is judged by Trace_BundleSig: (a) NewVerifier / VerifyExchange equal the specified "
                       "procedure on the same data, (b) a verified exchange was vouched for by a key holder (messages recorded inside the signing algorithm) and its "
                       "payload is what the hashed Digest header commits to, (c) honest histories: covered exchanges verify to the original body with the right signer's "
                       "leaf, uncovered ones are unsigned, authority index = number of authorities before the signer's chain. distinct_nontrivial = distinct (version, note, verdict vector)")
    if os.path.exists(os.path.join(vlib.TLA, "MC_BundleSig.tla")):
        r = tlc("MC_BundleSig", "SPECIFICATION Spec\nCONSTANTS MaxSigners = %d\nINVARIANTS AuthorityIndex CoveredVerify UncoveredUnsigned TamperDetected\nCHECK_DEADLOCK FALSE\n" % (2 if tier == "quick" else 3), "C06/mc", timeout=3000)
        rep.add_tlc("MC_BundleSig", r)
    wd = workdir("C06")
    p = os.path.join(wd, "run.ndjson")
    vh_to_file(["bsig-run", tier], p, timeout=3000)
    # the same verifier in processes whose local time zone has daylight saving, on signatures dated next to a transition:
    # the lifetime cap is 604800 seconds, not seven calendar days
    for tz in ("America/New_York", "Europe/Berlin"):
        pz = os.path.join(wd, "run-%s.ndjson" % tz.split("/")[1])
        vh_to_file(["bsig-run", "dst"], pz, timeout=3000, env={"TZ": tz})
        with open(p, "a") as f:
            for line in open(pz):
                d = json.loads(line)
                d["case"] = tz.split("/")[1] + "-" + d["case"]
                d["note"] = d["note"] + " [TZ=%s]" % tz
                f.write(json.dumps(d) + "\n")
    cases = {}
    for line in open(p):
        d = json.loads(line)
        d.pop("file", None)
        cases[d["case"]] = d
    n, rejects, states = trace_validate("Trace_BundleSig", "C06", p, overrides=True, shards=16, timeout=3400)
    rep.cov["states"] += states
    rep.cov["transitions"] += states
    rep.cov["traces_validated_against_impl"] = n
    rep.cov["evaluations"] = n
    rep.cov["distinct_nontrivial"] = len(set((c["ver"], c["note"], c["newerr"], tuple(r["state"] for r in c["results"]), len(c["sigs"]["subsets"])) for c in cases.values()))
    by = {}
    for c in cases.values():
        k = "%s -> %s" % (c["note"], "refused" if c["newerr"] else ",".join(r["state"] for r in c["results"]))
        by[k] = by.get(k, 0) + 1
    rep.add("histories", verifications=n, rejected=len(rejects), by_note_and_verdict=by)
    for rj in rejects:
        c = cases[rj["case"]]
        for w in rj["why"]:
            wk = re.sub(r" #\d+", "", w)
            key = "bsig:%s:%s:%s:signers%d" % (c["ver"], c["note"], wk, len(c["chains"]))
            rep.violation(key, "bundle signature verification (%s, %s, %d signer(s), t=%d): %s; NewVerifier error=%s, results %s" % (
                c["ver"], c["note"], len(c["chains"]), int.from_bytes(bytes(c["t"]["s"]), "big"), w, c["newerr"], [r["state"] for r in c["results"]]),
                {"component": "bsig", "event_case": c["case"], "note": c["note"], "why": w})
    for c in list(cases.values())[:2] + list(cases.values())[-1:]:
        rep.sample({"ver": c["ver"], "note": c["note"], "signers": len(c["chains"]), "newerr": c["newerr"], "results": [r["state"] for r in c["results"]]})
    # negative control
    good = None
    for l in open(p):
        c = json.loads(l)
        if c["honest"] and not c["newerr"] and any(r["state"] == "ok" and r["payload"] for r in c["results"]):
            good = c
            break
    if good is None:
        raise Infra("no honest verified history with a non-empty payload to build the negative control from")
    i = [k for k, r in enumerate(good["results"]) if r["state"] == "ok" and r["payload"]][0]
    b1 = json.loads(json.dumps(good)); b1["case"] = "neg1"; b1["results"][i]["payload"][0] ^= 1
    b2 = json.loads(json.dumps(good)); b2["case"] = "neg2"; b2["signed"] = []
    b3 = json.loads(json.dumps(good)); b3["case"] = "neg3"; b3["newerr"] = True
    np_ = os.path.join(wd, "neg.ndjson")
    open(np_, "w").write("\n".join(json.dumps(x) for x in (good, b1, b2, b3)) + "\n")
    _, rj, _ = trace_validate("Trace_BundleSig", "C06/neg", np_, overrides=True, shards=1)
    if sorted(x["case"] for x in rj) != ["neg1", "neg2", "neg3"]:
        raise Infra("negative control failed for Trace_BundleSig: %s" % rj)
    rep.add("negative_control", corrupted_records_rejected=3)
    rep.assumptions = ["host coverage of a certificate is decided by crypto/x509 VerifyHostname on harness-made certificates", "dates below 2^63",
                       "a second signer covering an exchange that already has a Digest header is refused by the code; such sequences end in a refusal"]
    # the command-line path (sign-bundle signatures-section, also in place) with the same obligation on what dump-bundle reports
    from cli_checks import sig_cli
    sig_cli(rep, "C06")
    # calls on independent objects running in parallel do not interfere (Trace_Purity, race detector)
    from purity_checks import parallel_cold
    parallel_cold(rep, "C06", "signatures")
    return rep.finish()


def replay_c06(path):
    log("replay: re-running the check family on the current tree")
    return check_c06("quick")
