"""C17: cert-chain+cbor and SCT lists against tla/CertChain.tla."""
import json, os
import vlib
from vlib import Report, tlc, vh_to_file, trace_validate, workdir, log, Infra


def check_c17(tier):
    rep = Report("C17", tier)
    rep.cov["rule"] = ("design level: MC_CertChain enumerates every chain of <= 3 (quick) / 4 (thorough) certificates x ocsp/sct in {absent, empty, short} per "
                       "element (writable iff valid, reference reader inverts the writer, canonical encoding). Binding: every enumerated presence pattern and a "
                       "size grid (0,1,23,24,255,256 and, thorough, 65535/65536) are built with real P-256/P-384 certificates of three sizes, written by the "
                       "real CertChain.Write and, encoded element by element without validation, read by the real ReadCertChain; damaged encodings (bit flips, "
                       "truncations, wrong magic, missing/unknown keys, corrupted DER) and SCT lists at the 65535 boundaries; all judged by Trace_CertChain "
                       "(byte equality with the specified canonical encoding; JDK X.509 parser decides corrupted DER). distinct_nontrivial = distinct events")
    mc = 3 if tier == "quick" else 4
    r = tlc("MC_CertChain", "SPECIFICATION Spec\nCONSTANTS MaxCerts = %d\nINVARIANTS RoundTrip InvalidRefused Canonical\nCHECK_DEADLOCK FALSE\n" % mc, "C17/mc")
    rep.add_tlc("MC_CertChain", r)
    wd = workdir("C17")
    vp = os.path.join(wd, "vec.txt")
    with open(vp, "w") as f:
        for t, o in r.lines:
            f.write(json.dumps(o) + "\n")
    p = os.path.join(wd, "run.ndjson")
    vh_to_file(["cert-run", tier], p, stdin_path=vp, timeout=3000)
    cases = {}
    for line in open(p):
        d = json.loads(line)
        cases[d["case"]] = d
    n, rejects, states = trace_validate("Trace_CertChain", "C17", p, overrides=True, shards=12, timeout=3000)
    rep.cov["states"] += states
    rep.cov["transitions"] += states
    rep.cov["traces_validated_against_impl"] = n
    rep.cov["evaluations"] = n
    rep.cov["distinct_nontrivial"] = len(set(json.dumps({k: v for k, v in c.items() if k != "case"}, sort_keys=True)[:4000] for c in cases.values()))
    rep.add("replay", tlc_patterns=len(r.lines), events=n, rejected=len(rejects))
    for rj in rejects:
        c = cases[rj["case"]]
        if c["kind"] == "write":
            pat = [(len(x["ocsp"]) if x["hasocsp"] else None, len(x["sct"]) if x["hassct"] else None) for x in c["chain"]]
            key, desc = "write:%s:%s" % (pat, rj["why"]), "CertChain.Write for presence/size pattern (ocsp, sct) %s: err=%s: %s" % (pat, c["err"], rj["why"])
        elif c["kind"] == "read":
            key, desc = "read:%s:%s" % (c["note"], rj["why"]), "ReadCertChain on %d bytes (%s): err=%s: %s" % (len(c["bytes"]), c["note"], c["err"], rj["why"])
        else:
            key, desc = "sct:%s:%s" % ([len(x) for x in c["scts"]], rj["why"]), "SerializeSCTList sizes %s: err=%s: %s" % ([len(x) for x in c["scts"]], c["err"], rj["why"])
        rep.violation(key, desc, {"component": "certurl", "event": c if len(json.dumps(c)) < 300000 else c["case"]})
    for c in list(cases.values())[:2] + [c for c in cases.values() if c["kind"] == "sct"][:1]:
        rep.sample({k: (v if not isinstance(v, list) or len(json.dumps(v)) < 200 else "<%d items>" % len(v)) for k, v in c.items()})
    # negative control
    good = [c for c in cases.values() if c["case"] not in rep.rejected_ids and c["kind"] == "write" and not c["err"]][0]
    b1 = json.loads(json.dumps(good)); b1["case"] = "neg1"; b1["out"][3] ^= 1
    b2 = json.loads(json.dumps(good)); b2["case"] = "neg2"; b2["err"] = True
    p2 = os.path.join(wd, "neg.ndjson")
    open(p2, "w").write("\n".join(json.dumps(x) for x in (good, b1, b2)) + "\n")
    _, rj, _ = trace_validate("Trace_CertChain", "C17/neg", p2, overrides=True, shards=1)
    if sorted(x["case"] for x in rj) != ["neg1", "neg2"]:
        raise Infra("negative control failed for Trace_CertChain: %s" % rj)
    rep.add("negative_control", corrupted_records_rejected=2)
    rep.assumptions = ["X.509 well-formedness of deliberately corrupted DER is decided by the JDK; for random bit flips inside a certificate only soundness is demanded"]
    # reading must not depend on how the bytes are delivered (ReaderFaults.tla)
    from rf_checks import reader_faults
    reader_faults(rep, "C17", ["cert"], tier)
    # the command-line entry point: gen-certurl writes exactly the certificates, OCSP response and SCT files it was given
    from cli_checks import cert_cli
    cert_cli(rep, "C17")
    # calls on independent objects running in parallel do not interfere (Trace_Purity, race detector)
    from purity_checks import parallel_cold
    parallel_cold(rep, "C17", "certurl")
    return rep.finish()


def replay_c17(path):
    log("replay: re-running the check family on the current tree")
    return check_c17("quick")
