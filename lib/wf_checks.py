"""C19: write failures at every byte position (tla/WriterFaults.tla, MC_WriterFaults, Trace_Writer)."""
import json, os
import vlib
from vlib import Report, tlc, vh_to_file, trace_validate, workdir, log, Infra


def check_c19(tier):
    rep = Report("C19", tier, level="model_checking")
    rep.cov["rule"] = ("design level: MC_WriterFaults explores a serializer issuing any chunking of an output of length <= 6 (quick) / 8 (thorough) over the faulty destination "
                       "for every k and both delivery modes (prefix / no false success / control succeeds). Binding: for each real serializer (Bundle.WriteTo on three "
                       "bundles incl. b1 variants + manifest and a signatures section, Exchange.Write / DumpExchangeHeaders / DumpSignedMessage x 3 versions, CertChain.Write, "
                       "mice.Encode both drafts incl. the empty payload, every cbor.Encoder method incl. EncodeMap) a fault-free control run, then EVERY failure position "
                       "k in [0, |O|] x {error return, short write + error} x destinations with / without io.ReaderFrom, with an instrumented writer logging every Write; "
                       "Trace_Writer requires: accepted bytes = prefix of O, k < |O| => non-nil error, k >= |O| => success and full output, returned count = accepted. "
                       "CountingWriter is bound as a component (Write / ReadFrom sequences from sources with / without io.WriterTo). "
                       "distinct_nontrivial = distinct (serializer, k, mode, destination) runs with k < |O|")
    mo = 6 if tier == "quick" else 8
    r = tlc("MC_WriterFaults", "SPECIFICATION Spec\nCONSTANTS MaxOut = %d\nINVARIANTS AcceptedIsPrefix NoFalseSuccess ControlSucceeds LogConsistent AbsInv\nPROPERTIES AbsSpec\nCHECK_DEADLOCK FALSE\n" % mo, "C19/mc")
    rep.add_tlc("MC_WriterFaults", r)
    # unbounded: the same discipline for ALL output sizes / fault positions / chunkings (Apalache, inductive invariant);
    # the TLC model above refines the typed module (PROPERTIES AbsSpec), which ties the proof to the model bound to the code
    from proofs import inductive
    inductive(rep, "C19", "WriterFaultsInd", mutate=("/\\ done' = TRUE /\\ reterr' = TRUE /\\ pos' = pos", "/\\ done' = TRUE /\\ reterr' = FALSE /\\ pos' = pos"))
    wd = workdir("C19")
    p = os.path.join(wd, "run.ndjson")
    vh_to_file(["wf-run", tier], p, timeout=3000)
    cases = {}
    for line in open(p):
        d = json.loads(line)
        d.pop("O", None); d.pop("accepted_bytes", None)
        cases[d["case"]] = d
    n, rejects, states = trace_validate("Trace_Writer", "C19", p, shards=16, timeout=3000)
    rep.cov["states"] += states
    rep.cov["transitions"] += states
    rep.cov["traces_validated_against_impl"] = n
    rep.cov["evaluations"] = n
    runs = [c for c in cases.values() if c["kind"] == "run"]
    rep.cov["distinct_nontrivial"] = len(set((c["ser"], c["k"], c["mode"], c["dest"]) for c in runs if c["reterr"]))
    per = {}
    for c in runs:
        per[c["ser"]] = per.get(c["ser"], 0) + 1
    rep.add("fault_runs", per_serializer=per, countingwriter_cases=len(cases) - len(runs), rejected=len(rejects))
    for rj in rejects:
        c = cases[rj["case"]]
        for w in rj["why"]:
            if c["kind"] == "run":
                key = "wf:%s:%s:%s:%s" % (c["ser"], c["mode"], c["dest"], w[:40])
                rep.violation(key, "%s with the destination failing after %d bytes (%s, dest %s): returned error=%s count=%s, accepted %d bytes: %s" % (
                    c["ser"], c["k"], c["mode"], c["dest"], c["reterr"], c["count"], len(c["accepted"]), w),
                    {"component": "wf", "ser": c["ser"], "k": c["k"], "mode": c["mode"], "dest": c["dest"], "why": w})
            else:
                key = "cw:%s:%s" % (c["dest"], c["src"])
                rep.violation(key, "CountingWriter over a destination %s io.ReaderFrom, source %s: calls %s: %s" % (
                    "with" if c["dest"] == "rf" else "without", c["src"], [(x["op"], len(x["data"]), x["n"], x["err"], x["written"]) for x in c["calls"]], w),
                    {"component": "cw", "event": c})
    for c in runs[:2] + runs[-1:]:
        rep.sample({"ser": c["ser"], "k": c["k"], "mode": c["mode"], "dest": c["dest"], "reterr": c["reterr"], "accepted": len(c["accepted"]), "writes": c["writes"][:6]})
    lines = [json.loads(l) for l in open(p).readlines()[:50]]
    good = [c for c in lines if c["case"] not in rep.rejected_ids and c["kind"] == "run" and c["reterr"]][0]
    b1 = json.loads(json.dumps(good)); b1["case"] = "neg1"; b1["reterr"] = False
    b2 = json.loads(json.dumps(good)); b2["case"] = "neg2"; b2["count"] = len(b2["accepted"]) + 1
    np_ = os.path.join(wd, "neg.ndjson")
    open(np_, "w").write("\n".join(json.dumps(x) for x in (good, b1, b2)) + "\n")
    _, rj, _ = trace_validate("Trace_Writer", "C19/neg", np_, shards=1)
    if sorted(x["case"] for x in rj) != ["neg1", "neg2"]:
        raise Infra("negative control failed for Trace_Writer: %s" % rj)
    rep.add("negative_control", corrupted_records_rejected=2)
    rep.assumptions = ["the fault is sticky; serializers are deterministic for the chosen artefacts (ECDSA signatures are made before the faulty run)"]
    # the source side of CountingWriter.ReadFrom (ReaderFaults.tla)
    from rf_checks import reader_faults
    reader_faults(rep, "C19", ["readfrom"], tier)
    # instances of tens of MiB (thresholds in buffering / chunking code): Trace_Huge
    from huge_checks import huge
    huge(rep, "C19", "bundlefault")
    return rep.finish()


def writer_faults(rep, pid, tier, only):
    """The failing-destination sweep of C19 restricted to the serializers whose name contains `only` (used by C04: the byte
    count the bundle writer returns equals what it handed to the destination, on failure as on success)."""
    wd = workdir(pid)
    p = os.path.join(wd, "wf.ndjson")
    vh_to_file(["wf-run", tier, only], p, timeout=3000)
    cases = {}
    for line in open(p):
        d = json.loads(line)
        d.pop("O", None)
        cases[d["case"]] = d
    n, rejects, states = trace_validate("Trace_Writer", pid + "/wf", p, shards=16, timeout=3000)
    rep.cov["states"] += states
    rep.cov["transitions"] += states
    rep.cov["traces_validated_against_impl"] += n
    for rj in rejects:
        c = cases[rj["case"]]
        for w in rj["why"]:
            rep.violation("wf:%s:%s:%s:%s" % (c["ser"], c["mode"], c["dest"], w[:40]), "%s with the destination failing after %d bytes (%s, dest %s): returned error=%s count=%s, accepted %d bytes: %s" % (
                c["ser"], c["k"], c["mode"], c["dest"], c["reterr"], c["count"], len(c["accepted"]), w), {"component": "wf", "ser": c["ser"], "k": c["k"], "mode": c["mode"], "dest": c["dest"], "why": w})
    rep.add("failing_destinations", runs=n, rejected=len(rejects))
    return n


def replay_c19(path):
    log("replay: re-running the check family on the current tree")
    return check_c19("quick")
