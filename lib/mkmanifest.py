#!/usr/bin/env python3
"""Regenerates /verif/MANIFEST.json from the table below (single source of truth)."""
import json, os, subprocess
V = os.path.dirname(os.path.dirname(os.path.abspath(__file__)))
ids = [json.loads(l)["id"] for l in open(os.path.join(V, "properties.jsonl"))]

MC = "model_checking"
CHECKS = {
 "C11": dict(engine="cbor", design="5/C11", technique="TLC exhaustive model checking of the CborEnc machine (tla/MC_CborEnc) + replay of every TLC behaviour on the real encoder + TLC trace validation (tla/Trace_CborEnc)",
   text="TLC checks the encoder machine over all boundary arguments (decode round trip, shortest heads, canonical maps, permutation independence); every TLC behaviour and seeded random call sequences are executed on the real cbor.Encoder and each recorded call must be a step of the machine (byte-exact).",
   note="Trusted: TLC, tla/Cbor.tla as transcription of RFC 8949 sections 3 and 4.2.1, the harness call translation. Strings above 70000 bytes and counts above 2^31 are not exercised."),
 "C12": dict(engine="cbor", design="5/C12", technique="TLC exhaustive model checking of the CborDec machine (tla/MC_CborDec) + replay on the real decoder + TLC trace validation (tla/Trace_CborDec)",
   text="TLC enumerates 256 initial bytes x follow-byte patterns x content relations x accessors and two-item streams; every behaviour plus seeded random streams are run on the real cbor.Decoder; result, error-ness and bytes consumed must be a step of the machine.",
   note="Trusted: TLC, tla/Cbor.tla. The source is a bytes.Reader; after an error only 'cursor in range' is required."),
 "C13": dict(engine="cbor", design="5/C13", technique="TLC exhaustive enumeration with accepted-set exchange (tla/MC_CborDet: declarative CoreDeterministic vs operational walk) + TLC trace validation of generated nested items (tla/Trace_CborDet)",
   text="Every byte string up to length 4 (quick) / 5 (thorough) over a 30-symbol alphabet and a family of 8-byte-argument heads is classified by TLC; the real cbor.Deterministic must accept exactly TLC's accepted set and terminate on all of them; generated nested items (encoder output, one head lengthened, keys swapped/duplicated, lengths corrupted up to 2^64-1) are judged by the trace spec.",
   note="Trusted: TLC, tla/Cbor.tla. error and panic both count as refusal; a watchdog timeout is a violation."),
 "C14": dict(engine="mice", design="5/C14", technique="TLC model checking of the MiDec/MiEnc machine (tla/MC_Mice, invariant HonestDecodes) + TLC trace validation with JDK SHA-256 module overrides (tla/Trace_Mice) of real Encode/Decode runs",
   text="Design level: encode-then-decode yields the payload for all small payloads/record sizes/drafts (TLC). Binding: real mice.Encode output (stream and digest text) must equal byte for byte the draft's recursive definition evaluated by TLC with the JDK hash, for payload lengths 0..3rs+2 exhaustively at small record sizes, boundary sizes up to 16384 and random cases; the real decoder's Read sequence must be the machine's run.",
   note="Trusted: TLC, JDK SHA-256, tla/MiceCore.tla as transcription of draft-thomson-http-mice-02/-03. Record size >= 1."),
 "C15": dict(engine="mice", design="5/C15", technique="TLC exhaustive model checking of the MiDec machine under a chunk-supplying adversary with abstract (perfect-hash) crypto (tla/MC_Mice) + replay of exported adversarial behaviours on the real decoder + TLC trace validation with JDK SHA-256 (tla/Trace_Mice) of mutated honest streams",
   text="TLC checks Authenticated/CleanEof/RefusedEarly in every state of the decoder machine against an adversary choosing every chunk and the size field. Exported behaviours are concretised with real SHA-256 and replayed (verdict and delivered length must match); honest real streams under every truncation, bit flips, suffixes, swaps, size-field and digest edits are run on the real decoder and each Read sequence is judged by the machine, plus the direct invariant 'delivered is a prefix of the committed payload, clean EOF only after all of it'.",
   note="Trusted: TLC, JDK SHA-256, collision resistance idealised in the abstract model. Caller's limit < 2^31; reads stop at the first error."),
 "C16": dict(engine="sh", design="5/C16", technique="TLC exhaustive enumeration with accepted-set exchange against reference parsers written from draft-09 section 4.2 (tla/MC_SH, tla/StructuredHeader.tla) + TLC trace validation of writer runs (tla/Trace_SH)",
   text="Every string up to length 5 (quick) / 6 (thorough) over a 16-symbol grammar-relevant alphabet, plus longer families behind '*', 'a;' and '\"', is parsed by both TLA+ reference parsers; the real parsers must accept exactly the same strings with the same values; each accepted input is re-serialised and re-parsed by the real code; random valid and invalid values go through the real writer; every writer run is judged by the serialisation relation (parses back to the value, parameters sorted, invalid values refused).",
   note="Trusted: TLC, tla/StructuredHeader.tla as transcription of draft-ietf-httpbis-header-structure-09 section 4 restricted to the implemented subset with four named deviations."),
 "C01": dict(engine="sxg", design="5/C01", technique="TLC trace validation (tla/Trace_Sxg, predicate Authentic of tla/Sxg.tla, JDK ECDSA/SHA-256 via module overrides) of real Verify runs on mutated serialized and in-memory exchanges; design-level Dolev-Yao model MC_Sxg when present",
   text="Six honest real exchanges (3 versions x P-256/P-384) are mutated at every byte (bit flip, delete, insert, truncate), in every semantic field, every Signature parameter, with foreign certificates and attacker re-signing; for each run TLC decides from the bytes: real verdict ok implies that a signature item carries a signature over a message the key really signed (recorded inside the signing algorithm), t in the window, returned payload = what the signed digest commits to. The real reader's result is also compared with the reference reader.",
   note="Trusted: TLC, JDK crypto, tla/Sxg.tla as transcription of the vendored drafts. Certificate trust is outside the library; ECDSA malleability and unsigned decoration may keep a verdict ok."),
 "C02": dict(engine="sxg", design="5/C02", technique="TLC trace validation (tla/Trace_Sxg kind full: File/RefRead/Writable/Accept of tla/Sxg.tla) of real sign-write-read-verify runs incl. the length-boundary grid",
   text="Seeded exchanges over versions, curves, record sizes 1..16384, payload lengths around record multiples, multi-valued mixed-case headers, plus URL 65535/65536/65537, Signature 16384/16385, header block 524288/524289: write must fail exactly beyond the limits, the file must read back to the same fields (real and reference reader), verdicts at five instants before and after the round trip must equal Accept and return the original payload.",
   note="Trusted: TLC, JDK crypto, tla/Sxg.tla. b1 2^24 boundaries are thorough-tier only."),
 "C08": dict(engine="sxg", design="5/C08", technique="TLC trace validation (tla/Trace_Sxg kind full): byte-exact comparison of real outputs with Msg/HeadersCbor/SigHeaderText/File/HeaderIntegrity of tla/Sxg.tla; signature checked by the JDK",
   text="For every generated exchange and version the real signed message, header CBOR, Signature header text, header-integrity string and file bytes must equal the specification's bytes computed by TLC from the logged inputs (MI stream and digest recomputed too); the sig parameter must verify under the certificate with the JDK over the specification's message.",
   note="Trusted: TLC, JDK crypto, tla/Sxg.tla, tla/StructuredHeader.tla, tla/Cbor.tla. Chains of >= 1 certificate; dates >= 0."),
 "C09": dict(engine="sxg", design="5/C09", technique="TLC trace validation (tla/Trace_Sxg kind ver, exact): real Verify verdict must equal predicate Accept(x,t) of tla/Sxg.tla on a deviation grid of real signed exchanges",
   text="Per version: baseline, every single deviation (instants incl. +-1 ns, lifetimes around 7 days, methods, every banned header in 4 letter cases, Cache-Control subsets as one or several field lines, Expires, statuses 100..599, validity-URL origin variants, Content-Type, integrity id), the same on a non-default-cacheable status, sampled pairs and 3..5-way combinations; verdict equality in both directions.",
   note="Trusted: TLC, JDK crypto, tla/Sxg.tla (RFC 7234 section 3, RFC 6454, banned lists of the impl draft; UnderstoodStatus = go1.23.5 http.StatusText table)."),
 "C17": dict(engine="certurl", design="5/C17", technique="TLC exhaustive model checking of presence patterns (tla/MC_CertChain) + replay of every pattern with real certificates + TLC trace validation (tla/Trace_CertChain, JDK X.509 parser via overrides)",
   text="TLC enumerates every chain of up to 3/4 certificates x ocsp/sct absent/empty/short (writable iff valid, reader inverts writer, canonical); every pattern and a blob-size grid are written/read by the real code with real P-256/P-384 certificates; output must equal the specified canonical bytes, reading must accept exactly the valid chains and return the bytes of the input; damaged encodings and RFC 6962 SCT lists at the 65535 limits are judged by the same spec.",
   note="Trusted: TLC, JDK CertificateFactory for deliberately corrupted DER (random damage inside a certificate: soundness only), tla/CertChain.tla."),
 "C03": dict(engine="bundle", design="5/C03", technique="TLC exhaustive model checking of the bundle writer/extractor (tla/MC_Bundle) + replay of every TLC bundle on the real writer/reader + TLC trace validation (tla/Trace_Bundle: Refused, ExpectedRead, Extract of tla/Bundle.tla)",
   text="TLC enumerates bundles over templates (two URL lengths, bodies 0/1/23/24, complete / incomplete / overlapping / multi-key / inconsistent b1 variant sets, primary, manifest) and checks that written bytes read back to exactly the expected exchanges in index (row-major) order and that refusal happens exactly when it must; all of them plus seeded random bundles are written, read and cycled by the real code, and TLC decides from the recorded bytes: refused iff spec refuses, the file holds exactly the bundle's exchanges, the reader returns what the file holds, the second and third serialisations are byte-identical.",
   note="Trusted: TLC, tla/Bundle.tla (CDDL of both drafts), tla/StructuredHeader.tla for Variants. Signatures sections are covered in C06."),
 "C04": dict(engine="bundle", design="5/C04", technique="TLC trace validation (tla/Trace_Bundle: WellFormedBundle, an independent strict parser in tla/Bundle.tla) of every byte string the real writer emits, over the TLC-enumerated and random bundle space and three destination kinds; design-level invariant WrittenIsWellFormed in tla/MC_Bundle",
   text="Every output of Bundle.WriteTo is parsed by the independent TLA+ parser: magic/version, unique section names with responses last, sections tiling the file up to the trailing length item, every index location delimiting exactly one element of the responses array, canonical CBOR of the file and of nested CBOR, trailing length = size; returned count = bytes accepted by the destination (with / without io.ReaderFrom, bytewise).",
   note="Trusted: TLC, tla/Bundle.tla, tla/Cbor.tla. Section order other than 'responses' last is not constrained."),
 "C05": dict(engine="bundle", design="5/C05", technique="TLC-generated adversarial files (tla/MC_BundleRead: field-map mutations of valid bundles with boundary values, evaluated by Extract) replayed on the real reader + TLC trace validation (tla/Trace_Bundle kind rd) incl. byte-level fuzz of real bundles",
   text="From 4 valid bundles TLC derives every replacement of a section length / index offset / length by 0, exact+-1, file size, 2^32, 2^63-1, 2^63, 2^64-2, 2^64-1, offset+length wrap-around, sections swapped / duplicated / unknown / removed, wrong counts, truncation at every offset; the real bundle.Read must accept exactly when the location semantics is defined (returning exactly that content), refuse when a length points outside the file / overflows / contradicts the table, and never panic; the same for bit flips / insert / delete / truncate of real bundles and random bytes.",
   note="Trusted: TLC, tla/Bundle.tla. Outcomes depending on net/url, X.509, odd table counts or a missing trailing length are 'either' (only no-panic is demanded)."),
}

def main():
    src = subprocess.run(["git", "-C", "/repo", "log", "--format=%h %s"], capture_output=True, text=True).stdout.splitlines()
    hooks = [l.split()[0] for l in src if l.split(" ", 1)[1].startswith("verif:")]
    m = {"version": 1,
         "setup_cmd": "cd /verif && python3 lib/setup.py",
         "hooks": {"guard": "verif", "enable": "go build -tags verif (the harness module /verif/harness replaces github.com/WICG/webpackage with /repo)",
                   "baseline_off_cmd": "cd /repo && GOFLAGS=-mod=mod GOPROXY=off GOSUMDB=off go test -vet=off -count=1 ./...",
                   "source_commits": hooks, "add_only": True},
         "engines": [
            {"name": "cbor", "path": "tla/Cbor.tla tla/CborMachines.tla tla/MC_Cbor*.tla tla/Trace_Cbor*.tla lib/cbor_checks.py harness/cmd/vh/cbor*.go", "serves_properties": ["C11", "C12", "C13"], "kind_free_text": "TLA+ spec + TLC (exhaustive + trace validation) + Go replay harness"},
            {"name": "mice", "path": "tla/MiceCore.tla tla/Mice.tla tla/MC_Mice.tla tla/Trace_Mice.tla tla/Crypto.tla tla/overrides lib/mice_checks.py harness/cmd/vh/mice*.go", "serves_properties": ["C14", "C15"], "kind_free_text": "TLA+ spec (abstract + concrete crypto instantiation) + TLC + Go replay harness"},
            {"name": "sh", "path": "tla/StructuredHeader.tla tla/MC_SH.tla tla/Trace_SH.tla lib/sh_checks.py harness/cmd/vh/sh.go", "serves_properties": ["C16"], "kind_free_text": "TLA+ reference parsers + TLC + Go harness"},
            {"name": "sxg", "path": "tla/Sxg.tla tla/SxgConsts.tla tla/Url.tla tla/Trace_Sxg.tla lib/sxg_checks.py harness/cmd/vh/sxg*.go", "serves_properties": ["C01", "C02", "C08", "C09"], "kind_free_text": "TLA+ byte-level spec + TLC trace validation with JDK crypto + Go harness"},
            {"name": "certurl", "path": "tla/CertChain.tla tla/MC_CertChain.tla tla/Trace_CertChain.tla lib/cert_checks.py harness/cmd/vh/certurl.go", "serves_properties": ["C17"], "kind_free_text": "TLA+ spec + TLC + Go harness"},
            {"name": "bundle", "path": "tla/Bundle.tla tla/MC_Bundle.tla tla/MC_BundleRead.tla tla/Trace_Bundle.tla lib/bundle_checks.py harness/cmd/vh/bundle.go", "serves_properties": ["C03", "C04", "C05"], "kind_free_text": "TLA+ format spec + TLC (exhaustive generation, trace validation) + Go harness"},
         ],
         "checks": [], "notes": "See DESIGN.md. Exit 2 of a check means infrastructure failure, never a verdict.", "not_applicable": []}
    for i in ids:
        if i in CHECKS:
            c = CHECKS[i]
            m["checks"].append({"property_id": i, "quick_cmd": "bin/check %s quick" % i, "thorough_cmd": "bin/check %s thorough" % i,
                                "evidence_file": "/verif/evidence/%s.json" % i, "replay_cmd_template": "bin/check %s --replay {path}" % i,
                                "engine": c["engine"], "level_claimed": {"category": c.get("level", MC), "text": c["text"], "design_ref": c["design"]},
                                "level_note": c["note"], "technique": c["technique"]})
        else:
            m["not_applicable"].append({"property_id": i, "reason": "check not built yet in this session (planned, DESIGN.md section 5); not a statement that the technique cannot apply"})
    json.dump(m, open(os.path.join(V, "MANIFEST.json"), "w"), indent=1)

if __name__ == "__main__":
    main()
