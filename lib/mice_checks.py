"""C14, C15: MI content encoding against tla/MiceCore.tla (abstract MC_Mice, concrete Trace_Mice)."""
import json, os, random
import vlib
from vlib import Report, tlc, vh_to_file, trace_validate, workdir, log, Infra


def _mc(rep, pid, name, hw, maxrs, maxars, maxlen, data, fills, want_vec):
    cfg = ("SPECIFICATION Spec\nCONSTANTS\n EmitVec = %s\n HW = %d\n MaxRS = %d\n MaxARS = %d\n MaxLen = %d\n Data = %s\n MaxFills = %d\n"
           "INVARIANTS Authenticated CleanEof RefusedEarly HonestDecodes\nVIEW View\nCHECK_DEADLOCK FALSE\n" % (
               "TRUE" if want_vec else "FALSE", hw, maxrs, maxars, maxlen, "{" + ",".join(map(str, data)) + "}", fills))
    r = tlc("MC_Mice", cfg, pid + "/" + name, tags=("VEC",) if want_vec else ())
    rep.add_tlc("MC_Mice:" + name, r)
    return [o for t, o in r.lines]


def _shape(v):
    def tk(t):
        return t["k"] + str(t["i"])
    return (v["draft"], v["hrs"], len(v["payload"]), v["res"], v["ndel"], len(v["stream"]), tuple(tk(t) for t in v["stream"][:8]))


def _replay(rep, pid, vecs, limit, name):
    """replay TLC behaviours of MC_Mice on the real decoder; compare the abstract prediction, then
    let Trace_Mice (real SHA-256) judge the recorded runs"""
    rnd = random.Random(vlib.seed())
    by = {}
    for v in vecs:
        by.setdefault(_shape(v), []).append(v)
    chosen = []
    shapes = list(by.values())
    rnd.shuffle(shapes)
    per = max(1, limit // max(1, len(shapes)))
    for group in shapes:
        rnd.shuffle(group)
        chosen += group[:per]
    chosen = chosen[:limit] if len(chosen) > limit else chosen
    wd = workdir(pid)
    vp = os.path.join(wd, "vec-%s.txt" % name)
    with open(vp, "w") as f:
        for v in chosen:
            f.write(json.dumps(v) + "\n")
    outp = os.path.join(wd, "replay-%s.ndjson" % name)
    vh_to_file(["mice-replay"], outp, stdin_path=vp)
    n = 0
    for line, v in zip(open(outp), chosen):
        d = json.loads(line)
        n += 1
        _, res, nd = d["note"].split(":")
        if d.get("panic"):
            real, got = "panic", 0
        elif d["newerr"]:
            real, got = "refused", 0
        else:
            # the machine is compared up to the first error; what later reads hand out is judged by Trace_Mice
            upto = d["reads"]
            for i, r in enumerate(upto):
                if r["res"] == "err":
                    upto = upto[:i + 1]
                    break
            got = sum(len(r["data"]) for r in upto)
            last = upto[-1]["res"] if upto else "nil"
            real = {"eof": "eof", "err": "err"}.get(last, "open")
        if real != res or got != int(nd):
            rep.violation("replay:%s:%s->%s" % (d["draft"], res, real),
                          "MI decoder diverges from the MiDec machine on a TLC-generated adversarial stream: model %s after %s bytes, real %s after %d bytes (draft %s, stream %d bytes)" % (
                              res, nd, real, got, d["draft"], len(d["stream"])),
                          {"component": "mice", "event": d})
    rep.add("replay:" + name, tlc_behaviours=len(vecs), shapes=len(by), replayed=n)
    rep.sample({"tlc_behaviour": {k: chosen[0][k] for k in ("draft", "payload", "hrs", "res", "ndel")}, "stream_tokens": len(chosen[0]["stream"])})
    return outp, n


def _judge(rep, pid, paths, shards, label):
    wd = workdir(pid)
    allp = os.path.join(wd, "trace-%s.ndjson" % label)
    cases = {}
    with open(allp, "w") as f:
        for p in paths:
            for line in open(p):
                d = json.loads(line)
                cases[d["case"]] = d
                f.write(line if line.endswith("\n") else line + "\n")
    n, rejects, states = trace_validate("Trace_Mice", pid + "/" + label, allp, overrides=True, shards=shards)
    rep.cov["states"] += states
    rep.cov["transitions"] += states
    rep.cov["traces_validated_against_impl"] += n
    rep.cov["evaluations"] += n
    for rj in rejects:
        d = cases[rj["case"]]
        if d["kind"] == "enc":
            rep.violation("enc:%s:rs%d:len%d" % (d["draft"], d["rs"], len(d["payload"])),
                          "mice.Encode(draft %s, rs %d, %d-byte payload) differs from the draft's definition (stream %d bytes, digest %s)" % (
                              d["draft"], d["rs"], len(d["payload"]), len(d["stream"]), bytes(d["digest"]).decode("latin1")),
                          {"component": "mice", "event": d})
        else:
            got = sum(len(r["data"]) for r in d["reads"])
            rep.violation("dec:%s:%s:%s" % (d["draft"], d["note"].split(":")[0], rj["why"]),
                          "MI decoder %s (%s, draft %s, stream of %d bytes, max %d): delivered %d bytes, results %s, NewDecoder error=%s%s" % (
                              rj["why"], d["note"], d["draft"], len(d["stream"]), int.from_bytes(bytes(d["max"]), "big"), got,
                              [r["res"] for r in d["reads"]][-3:], d["newerr"], " PANIC" if d.get("panic") else ""),
                          {"component": "mice", "event": d})
    return cases


def _neg_control(rep, pid, cases):
    good = [c for c in cases.values() if c["case"] not in rep.rejected_ids and c["kind"] == "dec" and not c["newerr"] and c["reads"] and len(c["reads"][0]["data"]) > 0 and c["honest"]][0]
    b1 = json.loads(json.dumps(good)); b1["case"] = "neg1"; b1["reads"][0]["data"][0] ^= 1
    b2 = json.loads(json.dumps(good)); b2["case"] = "neg2"; b2["reads"] = b2["reads"][:1] + [{"n": 1, "data": [], "res": "eof"}]
    b2["orig"] = b2["orig"] + [7]     # "clean EOF" before the whole payload
    enc = [c for c in cases.values() if c["kind"] == "enc" and len(c["stream"]) > 9]
    lines = [good, b1, b2]
    expect = ["neg1", "neg2"]
    if enc:
        b3 = json.loads(json.dumps(enc[0])); b3["case"] = "neg3"; b3["stream"][9] ^= 1
        lines.append(b3); expect.append("neg3")
    p = os.path.join(workdir(pid), "neg.ndjson")
    open(p, "w").write("\n".join(json.dumps(x) for x in lines) + "\n")
    _, rj, _ = trace_validate("Trace_Mice", pid + "/neg", p, overrides=True, shards=1)
    if sorted(x["case"] for x in rj) != sorted(expect):
        raise Infra("negative control failed for Trace_Mice: %s" % rj)
    rep.add("negative_control", corrupted_records_rejected=len(expect))


def check_c14(tier):
    rep = Report("C14", tier)
    rep.cov["rule"] = ("design level: MC_Mice invariant HonestDecodes (encode then decode yields the payload, clean end) for every payload over {0,1} of "
                       "length <= MaxLen, every record size, both drafts; binding: mice.Encode run for payload lengths 0..3rs+2 exhaustively for small "
                       "record sizes, boundary sizes up to 16384 and random cases; stream and digest text must equal byte for byte the draft's recursive "
                       "definition evaluated by TLC with the JDK's SHA-256, and the real decoder's Read sequence on that stream must be the MiDec run. "
                       "distinct_nontrivial = distinct (draft, record size, payload length) triples with a non-empty payload")
    _mc(rep, "C14", "hw2", 2, 2, 2, 4 if tier == "quick" else 5, [0, 1], 4, False)
    wd = workdir("C14")
    g = os.path.join(wd, "grid.ndjson")
    vh_to_file(["mice-grid", tier], g)
    cases = _judge(rep, "C14", [g], 8 if tier == "quick" else 16, "grid")
    _neg_control(rep, "C14", cases)
    rep.cov["distinct_nontrivial"] = len(set((c["draft"], c["rs"], len(c["payload"])) for c in cases.values() if c["kind"] == "enc" and c["payload"]))
    for c in list(cases.values())[:2]:
        if c["kind"] == "enc":
            rep.sample({"encode": {"draft": c["draft"], "rs": c["rs"], "payload_len": len(c["payload"]), "digest": bytes(c["digest"]).decode("latin1"), "stream_len": len(c["stream"])}})
    rep.assumptions = ["record size >= 1 (the property's own bound)", "SHA-256 as implemented by the JDK is the reference hash"]
    # decoders / encoders of DIFFERENT streams running in parallel do not interfere (Trace_Purity, race detector)
    from purity_checks import parallel_cold
    parallel_cold(rep, "C14", "mice")
    # a valid stream decodes to the payload however the source delivers it (ReaderFaults.tla)
    from rf_checks import reader_faults
    reader_faults(rep, "C14", ["mice"], tier)
    # instances of tens of MiB (thresholds in buffering / chunking code): Trace_Huge
    from huge_checks import huge
    huge(rep, "C14", "mice")
    return rep.finish()


def check_c15(tier):
    rep = Report("C15", tier)
    rep.cov["rule"] = ("design level: TLC explores MiDec under an adversary supplying every chunk (any sequence of known symbols up to rs+HW long) and "
                       "the size field, invariants Authenticated / CleanEof / RefusedEarly; two configurations (hash width 2 narrow sizes, hash width 1 "
                       "with announced sizes up to rs+HW so that a non-final chunk can be presented as a final record). Binding A: exported adversarial "
                       "behaviours concretised with real SHA-256 and replayed on the real decoder (verdict and delivered length must equal the model's). "
                       "Binding B: honest real streams under every bit flip (one bit per byte in quick), every truncation length, suffixes, record swaps, "
                       "size-field and digest edits, arbitrary streams; each recorded Read sequence judged by Trace_Mice. distinct_nontrivial = distinct "
                       "(draft, mutation kind, stream length, result) tuples of decoder runs")
    _mc(rep, "C15", "hw2", 2, 2, 2, 4 if tier == "quick" else 5, [0, 1] if tier == "quick" else [0, 1, 2], 4, False)
    vecs = _mc(rep, "C15", "hw1", 1, 2, 3, 3 if tier == "quick" else 4, [0, 1], 4, True)
    rp, _ = _replay(rep, "C15", vecs, 6000 if tier == "quick" else 60000, "hw1")
    wd = workdir("C15")
    m = os.path.join(wd, "mut.ndjson")
    vh_to_file(["mice-mut", tier], m)
    cases = _judge(rep, "C15", [rp, m], 12 if tier == "quick" else 16, "all")
    _neg_control(rep, "C15", cases)
    rep.cov["distinct_nontrivial"] = len(set((c["draft"], c["note"].split(":")[0], len(c["stream"]), c["newerr"], tuple(r["res"] for r in c["reads"][-1:]))
                                             for c in cases.values() if c["kind"] == "dec"))
    kinds = {}
    for c in cases.values():
        k = c["note"].split(":")[0]
        kinds[k] = kinds.get(k, 0) + 1
    rep.add("mutations", by_kind=kinds)
    for c in list(cases.values())[-2:]:
        rep.sample({"decode": {"draft": c["draft"], "note": c["note"], "stream_len": len(c["stream"]), "newerr": c["newerr"], "results": [r["res"] for r in c["reads"]][-3:]}})
    rep.assumptions = ["the caller's record-size limit is below 2^31", "the decoder machine is compared up to the first error; up to 3 further reads are made and must still hand out only authenticated bytes",
                       "digest texts with CR/LF or non-zero unused base64 bits may be refused or decoded (property is about the decoded proof)"]
    # 'any byte stream whatsoever' includes how the stream is delivered and a source that fails (ReaderFaults.tla)
    from rf_checks import reader_faults
    reader_faults(rep, "C15", ["mice"], tier)
    # decoders / encoders of DIFFERENT streams running in parallel do not interfere (Trace_Purity, race detector)
    from purity_checks import parallel_cold
    parallel_cold(rep, "C15", "mice")
    return rep.finish()


def _replay_generic(pid, path):
    case = json.load(open(path))["case"]
    ev = case["event"]
    # re-run the same input on the current tree
    from vlib import vh
    if ev["kind"] == "enc":
        res = vh(["mice-one"], stdin=json.dumps({"kind": "enc", "draft": ev["draft"], "rs": ev["rs"], "payload": ev["payload"]}) + "\n")
    else:
        res = vh(["mice-one"], stdin=json.dumps({k: ev[k] for k in ("kind", "draft", "digest", "stream", "max", "mode", "orig", "honest", "note")} | {"dst": ev["reads"][0]["n"] if ev["reads"] else 16}) + "\n")
    p = os.path.join(workdir(pid), "replay.ndjson")
    open(p, "w").write(json.dumps(res[0]) + "\n")
    _, rej, _ = trace_validate("Trace_Mice", pid + "/replay", p, overrides=True, shards=1)
    log("replay: %s" % ("VIOLATION " + json.dumps(rej) if rej else "conforms"))
    if rej:
        log("VIOLATION property=%s replay=%s" % (pid, path))
        return 1
    return 0


def replay_c14(path):
    return _replay_generic("C14", path)


def replay_c15(path):
    return _replay_generic("C15", path)
