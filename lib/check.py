import importlib, os, sys, traceback
sys.path.insert(0, os.path.dirname(os.path.abspath(__file__)))
import vlib

MODULES = {
    "C11": "cbor_checks", "C12": "cbor_checks", "C13": "cbor_checks",
    "C14": "mice_checks", "C15": "mice_checks", "C16": "sh_checks", "C20": "cli_checks", "C10": "total_checks", "C18": "purity_checks", "C19": "wf_checks", "C07": "ib_checks", "C06": "bsig_checks", "C03": "bundle_checks", "C04": "bundle_checks", "C05": "bundle_checks", "C17": "cert_checks", "C01": "sxg_checks", "C02": "sxg_checks", "C08": "sxg_checks", "C09": "sxg_checks",
}


def main():
    if len(sys.argv) < 2:
        print("usage: check <id> [quick|thorough] [--replay path]")
        return 2
    pid = sys.argv[1]
    tier = os.environ.get("VERIF_TIER") or (sys.argv[2] if len(sys.argv) > 2 and not sys.argv[2].startswith("--") else "quick")
    replay = None
    if "--replay" in sys.argv:
        replay = sys.argv[sys.argv.index("--replay") + 1]
    if pid not in MODULES:
        print("no check for", pid)
        return 2
    mod = importlib.import_module(MODULES[pid])
    try:
        if replay:
            return getattr(mod, "replay_" + pid.lower())(replay)
        return getattr(mod, "check_" + pid.lower())(tier)
    except vlib.Infra as e:
        rep = vlib.CURRENT_REPORT
        if rep is not None and rep.violations:
            # violations already established from real behaviour stay reported; the later infrastructure problem
            # (typically a negative control whose "good" sample is itself one of the violating cases) is only noted
            print("note: infrastructure problem after violations were found: %s" % str(e)[:300])
            return rep.finish()
        print("INFRASTRUCTURE (exit 2, not a verdict): %s" % e)
        return 2
    except Exception:
        traceback.print_exc()
        print("INFRASTRUCTURE (exit 2, not a verdict): unexpected exception")
        return 2


if __name__ == "__main__":
    sys.exit(main())
