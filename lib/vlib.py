"""Shared plumbing for the /verif checks: building the Go harness from /repo's working tree,
running TLC (exhaustive configs and trace validation), evidence files, exit codes.

Exit codes of every check: 0 = property held on everything explored; 1 = a reproduced
violation (a line `VIOLATION property=<id> replay=<path>` is printed); 2 = infrastructure
problem (TLC crash, build failure, timeout, spec-level invariant failure) - never a verdict.
"""
import json, os, re, shutil, subprocess, sys, time, hashlib, tempfile

VERIF = os.path.dirname(os.path.dirname(os.path.abspath(__file__)))
REPO = os.environ.get("VERIF_REPO", "/repo")
# VERIF_REPO=<path> runs the checks against another checkout (a scratch worktree holding a seeded change) without
# touching /repo: separate work directory, separate harness copy, evidence written under that work directory.
ALT = REPO != "/repo"
WORK = os.path.join(VERIF, ".work") if not ALT else os.path.join(VERIF, ".work", "alt-" + hashlib.md5(REPO.encode()).hexdigest()[:8])
EVIDENCE_DIR = os.path.join(VERIF, "evidence") if not ALT else os.path.join(WORK, "evidence")
TLA = os.path.join(VERIF, "tla")
JAR = "/opt/veriftools/tla/tla2tools.jar"
CM = "/opt/veriftools/tla/CommunityModules-deps.jar"
OVR = os.path.join(WORK, "overrides")

GOENV = dict(os.environ, GOFLAGS="-mod=mod", GOPROXY="off", GOSUMDB="off", GOTOOLCHAIN="local",
             CGO_ENABLED=os.environ.get("CGO_ENABLED", "0"))


class Infra(Exception):
    """infrastructure failure -> exit 2"""


def log(*a):
    print(*a, flush=True)


def seed():
    try:
        return int(os.environ.get("VERIF_SEED", "1"))
    except ValueError:
        return 1


def workdir(pid):
    d = os.path.join(WORK, pid)
    os.makedirs(d, exist_ok=True)
    return d


def fresh(path):
    shutil.rmtree(path, ignore_errors=True)
    os.makedirs(path, exist_ok=True)
    return path


# ----------------------------------------------------------------------------- Go harness

_built = {}


def build_harness(race=False):
    """(Re)build the harness binary against /repo's current working tree, hooks on."""
    key = "vh-race" if race else "vh"
    if key in _built:
        return _built[key]
    os.makedirs(os.path.join(WORK, "bin"), exist_ok=True)
    outp = os.path.join(WORK, "bin", key)
    env = dict(GOENV)
    cmd = ["go", "build", "-tags", "verif", "-o", outp]
    if os.environ.get("VERIF_COVER") and not race:
        # authoring aid (tools/coverage.sh): which functions of /repo does the harness reach? needs GOCOVERDIR in the environment
        cmd[2:2] = ["-cover", "-coverpkg=./...,github.com/WICG/webpackage/go/..."]
    if race:
        env["CGO_ENABLED"] = "1"
        cmd.insert(2, "-race")
    cmd.append("./cmd/vh")
    # go.sum follows /repo
    try:
        shutil.copyfile(os.path.join(REPO, "go.sum"), os.path.join(VERIF, "harness", "go.sum.repo"))
    except OSError:
        pass
    hdir = os.path.join(VERIF, "harness")
    if ALT:
        hdir = os.path.join(WORK, "harness")
        shutil.rmtree(hdir, ignore_errors=True)
        shutil.copytree(os.path.join(VERIF, "harness"), hdir)
        gm = open(os.path.join(hdir, "go.mod")).read().replace("=> /repo", "=> " + REPO)
        open(os.path.join(hdir, "go.mod"), "w").write(gm)
        shutil.copyfile(os.path.join(REPO, "go.sum"), os.path.join(hdir, "go.sum"))
    p = subprocess.run(cmd, cwd=hdir, env=env, capture_output=True, text=True)
    if p.returncode != 0:
        raise Infra("harness build failed (does /repo still compile with -tags verif?):\n" + p.stdout + p.stderr)
    _built[key] = outp
    return outp


def vh(args, stdin=None, race=False, timeout=3600, env=None, check=True):
    """Run a harness subcommand, return stdout lines parsed as JSON."""
    exe = build_harness(race)
    e = dict(os.environ)
    e["VERIF_SEED"] = str(seed())
    if env:
        e.update(env)
    try:
        p = subprocess.run([exe] + args, input=stdin, capture_output=True, text=True, timeout=timeout, env=e)
    except subprocess.TimeoutExpired:
        raise Infra("harness timed out: vh " + " ".join(args)[:200])
    if check and p.returncode != 0:
        raise Infra("harness failed (%d): vh %s\n%s" % (p.returncode, " ".join(args)[:200], p.stderr[-4000:]))
    res = []
    for line in p.stdout.splitlines():
        line = line.strip()
        if line.startswith("{") or line.startswith("["):
            res.append(json.loads(line))
    return res


def vh_to_file(args, outpath, stdin_path=None, race=False, timeout=3600, env=None):
    exe = build_harness(race)
    e = dict(os.environ)
    e["VERIF_SEED"] = str(seed())
    if env:
        e.update(env)
    with open(outpath, "w") as fo:
        fi = open(stdin_path) if stdin_path else None
        try:
            p = subprocess.run([exe] + args, stdin=fi, stdout=fo, stderr=subprocess.PIPE, text=True, timeout=timeout, env=e)
        except subprocess.TimeoutExpired:
            raise Infra("harness timed out: vh " + " ".join(args)[:200])
        finally:
            if fi:
                fi.close()
    if p.returncode != 0:
        raise Infra("harness failed (%d): vh %s\n%s" % (p.returncode, " ".join(args)[:200], p.stderr[-4000:]))
    return outpath


def vh_resilient(args, outpath, stdin_path=None, timeout=3600, env=None, max_crashes=40):
    """Like vh_to_file for harness commands that announce each risky call ({"begin": n}): if the process dies (fatal
    runtime error inside the code under test), the call that killed it is identified from the last announcement,
    confirmed by a second run dying at the same place, and reported by the harness as outcome "crash" on the next
    run (VERIF_SKIP).  Returns the list of crashed call numbers."""
    skips = []
    exe = build_harness()
    while True:
        e = dict(os.environ)
        e["VERIF_SEED"] = str(seed())
        e["VERIF_SKIP"] = ",".join(map(str, skips))
        if env:
            e.update(env)
        with open(outpath, "w") as fo:
            fi = open(stdin_path) if stdin_path else subprocess.DEVNULL
            try:
                p = subprocess.run([exe] + args, stdin=fi, stdout=fo, stderr=subprocess.PIPE, text=True, timeout=timeout, env=e)
            except subprocess.TimeoutExpired:
                raise Infra("harness timed out: vh " + " ".join(args)[:200])
            finally:
                if stdin_path:
                    fi.close()
        if p.returncode == 0:
            # drop the announcements
            lines = [l for l in open(outpath) if not l.startswith('{"begin"')]
            open(outpath, "w").writelines(lines)
            return skips
        last = None
        for l in open(outpath):
            if l.startswith('{"begin"'):
                try:
                    last = json.loads(l)["begin"]
                except ValueError:
                    pass
        if last is None or last in skips or len(skips) >= max_crashes or not re.search(r"fatal error|panic|out of memory|signal", p.stderr):
            raise Infra("harness failed (%d): vh %s\n%s" % (p.returncode, " ".join(args)[:200], p.stderr[-3000:]))
        log("harness died during call #%d (%s); re-running with that call reported as a crash" % (last, (re.findall(r"fatal error: [^\n]*|panic: [^\n]*", p.stderr) or ["?"])[0]))
        skips.append(last)


# ----------------------------------------------------------------------------- TLC

import threading
_ovr_lock = threading.Lock()


def build_overrides():
    """Compile the TLC module overrides (JDK crypto etc.) if sources are newer than classes."""
    with _ovr_lock:
        return _build_overrides()


def _build_overrides():
    src = os.path.join(TLA, "overrides")
    if not os.path.isdir(src):
        return None
    srcs = [os.path.join(src, f) for f in os.listdir(src) if f.endswith(".java")]
    if not srcs:
        return None
    stamp = os.path.join(OVR, ".stamp")
    newest = max(os.path.getmtime(s) for s in srcs)
    if os.path.exists(stamp) and os.path.getmtime(stamp) >= newest:
        return OVR
    fresh(OVR)
    p = subprocess.run(["javac", "-nowarn", "-cp", JAR + ":" + CM, "-d", OVR] + srcs, capture_output=True, text=True)
    if p.returncode != 0:
        raise Infra("javac failed:\n" + p.stdout + p.stderr)
    open(stamp, "w").write("ok")
    return OVR


class TlcResult:
    def __init__(self):
        self.generated = 0
        self.distinct = 0
        self.depth = 0
        self.lines = []       # decoded payloads of PrintT("TAG ...") lines: (tag, obj)
        self.raw_tail = ""
        self.ok = False
        self.wall = 0.0


_PRINT = re.compile(r'^"([A-Z]+) (.*)"$')


def tlc(module, cfg, pid, workers=16, env=None, timeout=3600, tags=("VEC",), simulate=None, extra=None,
        overrides=False, heap=None, keep_raw=False):
    """Run TLC on /verif/tla/<module>.tla with <cfg> (path or text) in a scratch copy.
    Returns TlcResult.  Raises Infra on TLC errors, invariant violations included (a spec
    invariant failing is a defect of the model, not a verdict about the code)."""
    wd = fresh(os.path.join(workdir(pid), "tlc-" + module + "-" + hashlib.md5((str(cfg) + str(env) + str(extra)).encode()).hexdigest()[:8]))
    for f in os.listdir(TLA):
        if f.endswith(".tla"):
            shutil.copyfile(os.path.join(TLA, f), os.path.join(wd, f))
    if os.path.exists(str(cfg)):
        cfgpath = os.path.join(wd, os.path.basename(cfg))
        shutil.copyfile(cfg, cfgpath)
    else:
        cfgpath = os.path.join(wd, module + ".cfg")
        open(cfgpath, "w").write(cfg)
    cp = JAR + ":" + CM
    java = ["java", "-XX:+UseParallelGC", "-Xss512m"]
    if heap:
        java.append("-Xmx" + heap)
    if overrides:
        o = build_overrides()
        cp += ":" + o
        java.append("-Dtlc2.overrides.TLCOverrides=tlc2.overrides.TLCOverrides:VerifOverrides")
    cmd = java + ["-cp", cp, "tlc2.TLC", "-workers", str(workers), "-metadir", os.path.join(wd, "meta"),
                  "-config", os.path.basename(cfgpath)]
    if simulate:
        cmd += ["-simulate", simulate]
    if extra:
        cmd += extra
    cmd.append(module + ".tla")
    e = dict(os.environ)
    e["VERIF_SEED"] = str(seed())
    if env:
        e.update({k: str(v) for k, v in env.items()})
    t0 = time.time()
    outpath = os.path.join(wd, "tlc.out")
    with open(outpath, "w") as fo:
        try:
            p = subprocess.run(cmd, cwd=wd, env=e, stdout=fo, stderr=subprocess.STDOUT, timeout=timeout)
        except subprocess.TimeoutExpired:
            subprocess.run(["pkill", "-f", wd], capture_output=True)
            raise Infra("TLC timed out on %s" % module)
    r = TlcResult()
    r.wall = time.time() - t0
    r.outpath = outpath
    tail = []
    with open(outpath, errors="replace") as fi:
        for line in fi:
            line = line.rstrip("\n")
            m = _PRINT.match(line)
            if m and m.group(1) in tags:
                try:
                    payload = json.loads('"' + m.group(2) + '"')
                    try:
                        obj = json.loads(payload)
                    except ValueError:
                        obj = payload
                    r.lines.append((m.group(1), obj))
                except ValueError:
                    r.lines.append((m.group(1), m.group(2)))
                continue
            if m:
                continue
            tail.append(line)
            if len(tail) > 400:
                tail = tail[-200:]
            g = re.search(r"^(\d+) states generated, (\d+) distinct states found", line)
            if g:
                r.generated, r.distinct = int(g.group(1)), int(g.group(2))
            g = re.search(r"depth of the complete state graph search is (\d+)", line)
            if g:
                r.depth = int(g.group(1))
            if "Model checking completed. No error has been found" in line or "Finished in" in line and simulate:
                r.ok = True
    r.raw_tail = "\n".join(tail[-60:])
    if simulate and p.returncode == 0:
        r.ok = True
    if not r.ok or p.returncode != 0:
        raise Infra("TLC failed on %s (exit %d); see %s\n%s" % (module, p.returncode, outpath, r.raw_tail))
    if not keep_raw:
        shutil.rmtree(os.path.join(wd, "meta"), ignore_errors=True)
    return r


def trace_validate(module, pid, ndjson_path, cfg=None, overrides=False, shards=8, timeout=3600, env=None):
    """Validate the NDJSON trace file with Trace spec `module`: every line is one event (or one
    self-contained case); the trace spec prints `REJECT <json>` for each line it cannot explain
    and `DONE <n>` with the number of lines it consumed.  The file is split into shards, one TLC
    JVM each.  Returns (n_lines, rejects list)."""
    lines = open(ndjson_path).read().splitlines()
    lines = [l for l in lines if l.strip()]
    n = len(lines)
    if n == 0:
        return 0, [], 0
    wd = fresh(os.path.join(workdir(pid), "tv-" + module))
    if cfg is None:
        cfg = "SPECIFICATION TraceSpec\nCHECK_DEADLOCK FALSE\n"
    from concurrent.futures import ThreadPoolExecutor
    # one TLC JVM per part; a part holds at most n/shards lines and at most PART_BYTES of NDJSON, so that the
    # deserialised trace fits a fixed heap whatever the size of the trace file (the JVM default would be 25% of
    # RAM per JVM: 16 of them were killed by the kernel on a 444 MB trace)
    PART_BYTES = 6 << 20
    per = (n + max(1, min(shards, n)) - 1) // max(1, min(shards, n))
    parts, chunk, size = [], [], 0
    def flush():
        if chunk:
            pth = os.path.join(wd, "part%d.ndjson" % len(parts))
            open(pth, "w").write("\n".join(chunk) + "\n")
            parts.append((len(parts), pth, len(chunk)))
    for l in lines:
        if chunk and (len(chunk) >= per or size + len(l) > PART_BYTES):
            flush()
            chunk, size = [], 0
        chunk.append(l)
        size += len(l) + 1
    flush()
    try:
        avail = int([x for x in open("/proc/meminfo") if x.startswith("MemAvailable")][0].split()[1]) >> 20
    except Exception:
        avail = 16
    pool = max(2, min(16, len(parts), avail // 4))

    def run(part):
        i, pth, cnt = part
        e = {"VERIF_TRACE": pth}
        if env:
            e.update(env)
        r = tlc(module, cfg, pid + "/tvs%d" % i, workers=1, env=e, tags=("REJECT", "DONE"), overrides=overrides, timeout=timeout, heap="3g")
        if i >= 16:
            shutil.rmtree(os.path.dirname(r.outpath), ignore_errors=True)
        done = [o for t, o in r.lines if t == "DONE"]
        if not done or int(done[-1]) != cnt:
            raise Infra("trace spec %s consumed %s of %d lines (shard %d); see %s" % (module, done, cnt, i, r.outpath))
        return [o for t, o in r.lines if t == "REJECT"], r

    rejects = []
    states = 0
    with ThreadPoolExecutor(max_workers=pool) as ex:
        for rej, r in ex.map(run, parts):
            rejects += rej
            states += r.distinct
    if CURRENT_REPORT is not None:
        # negative controls pick their "good" sample among the cases no trace spec rejected
        for rj in rejects:
            if isinstance(rj, dict) and "case" in rj:
                CURRENT_REPORT.rejected_ids.add(rj["case"])
    return n, rejects, states


# ----------------------------------------------------------------------------- findings / evidence

def known_findings():
    p = os.path.join(VERIF, "known_findings.json")
    if not os.path.exists(p):
        return []
    return json.load(open(p)).get("findings", [])


def is_known(pid, key):
    for f in known_findings():
        if f.get("property") == pid and f.get("status") == "open" and f.get("key") == key:
            return f
    return None


CURRENT_REPORT = None


class Report:
    def __init__(self, pid, tier, level="model_checking"):
        global CURRENT_REPORT
        CURRENT_REPORT = self
        self.pid, self.tier, self.level = pid, tier, level
        self.t0 = time.time()
        self.cov = {"states": 0, "transitions": 0, "traces_validated_against_impl": 0, "evaluations": 0,
                    "distinct_nontrivial": 0, "samples": [], "rule": "", "parts": {}}
        self.assumptions = []
        self.violations = []     # (key, description, replay dict)
        self.rejected_ids = set()
        self.known = []

    def add_tlc(self, name, r):
        self.cov["states"] += r.distinct
        self.cov["transitions"] += r.generated
        self.cov["parts"][name] = {"distinct_states": r.distinct, "states_generated": r.generated, "depth": r.depth, "wall_s": round(r.wall, 1)}

    def add(self, name, **kw):
        self.cov["parts"].setdefault(name, {}).update(kw)

    def sample(self, s):
        if len(self.cov["samples"]) < 12:
            self.cov["samples"].append(s)

    def violation(self, key, desc, case):
        """Record a violation candidate; suppressed only if listed (open) in known_findings.json."""
        k = is_known(self.pid, key)
        if k:
            if key not in [x[0] for x in self.known]:
                self.known.append((key, k.get("what", desc)))
            return
        self.violations.append((key, desc, case))

    def finish(self):
        wd = workdir(self.pid)
        ev = {"property_id": self.pid, "tier": self.tier, "seed": seed(), "level": self.level,
              "coverage": self.cov, "assumptions": self.assumptions, "wall_s": round(time.time() - self.t0, 2),
              "violations": len(self.violations)}
        if self.known:
            ev["known_findings_hit"] = [k for k, _ in self.known]
        os.makedirs(EVIDENCE_DIR, exist_ok=True)
        with open(os.path.join(EVIDENCE_DIR, self.pid + ".json"), "w") as f:
            json.dump(ev, f, indent=1, sort_keys=True)
        for key, what in self.known:
            log("KNOWN-FINDING: property=%s %s" % (self.pid, what))
        vdir = os.path.join(wd, "violations")
        shutil.rmtree(vdir, ignore_errors=True)
        if self.violations:
            os.makedirs(vdir, exist_ok=True)
            seen = set()
            for i, (key, desc, case) in enumerate(self.violations[:400]):
                path = os.path.join(vdir, "v%03d.json" % i)
                json.dump({"property": self.pid, "key": key, "desc": desc, "case": case}, open(path, "w"), indent=1)
                if key in seen:
                    continue
                seen.add(key)
                log("VIOLATION property=%s replay=%s" % (self.pid, path))
                log("  " + desc[:1000])
            log("%s: %d violation(s) (%d distinct keys)" % (self.pid, len(self.violations), len(seen)))
            return 1
        log("%s %s: held on everything explored (%d states, %d transitions, %d traces/cases against the implementation, %.1fs)" % (
            self.pid, self.tier, self.cov["states"], self.cov["transitions"], self.cov["traces_validated_against_impl"], time.time() - self.t0))
        return 0
