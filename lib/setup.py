#!/usr/bin/env python3
"""setup_cmd: build everything the checks need from files on disk (offline)."""
import os, sys, subprocess
sys.path.insert(0, os.path.dirname(os.path.abspath(__file__)))
import vlib
try:
    vlib.build_harness()
    vlib.build_overrides()
    # syntax-check all modules
    import glob, shutil, tempfile
    d = tempfile.mkdtemp(prefix="sany", dir=vlib.WORK)
    for f in glob.glob(os.path.join(vlib.TLA, "*.tla")):
        shutil.copy(f, d)
    bad = 0
    for f in sorted(glob.glob(os.path.join(d, "*.tla"))):
        p = subprocess.run(["java", "-cp", vlib.JAR + ":" + vlib.CM, "tla2sany.SANY", os.path.basename(f)], cwd=d, capture_output=True, text=True)
        if p.returncode != 0 or "rror" in p.stdout.replace("Semantic errors:\n\n", ""):
            if "*** Errors" in p.stdout or "Fatal" in p.stdout or p.returncode != 0:
                print("SANY failed on", f, p.stdout[-800:]); bad += 1
    shutil.rmtree(d, ignore_errors=True)
    print("setup ok" if not bad else "setup: %d modules failed SANY" % bad)
    sys.exit(1 if bad else 0)
except vlib.Infra as e:
    print("setup failed:", e)
    sys.exit(1)
