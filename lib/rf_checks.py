"""Reader faults (tla/ReaderFaults.tla, MC_ReaderFaults, Trace_ReaderFaults): shared by the checks whose
property quantifies over every byte stream - the stream reaches a parser only through Read calls."""
import json, os
import vlib
from vlib import tlc, vh_to_file, trace_validate, workdir, Infra

CFG = "SPECIFICATION Spec\nCONSTANTS N = %d\nLoop = %s\nFrags = {0, 1, 2, 3, 99}\nMaxPat = %d\nRetry = FALSE\nINVARIANTS ScheduleIndependent FailsIffObserved RetryTransparent\nPROPERTIES Terminates\nCHECK_DEADLOCK FALSE\n"


def reader_faults(rep, pid, parsers, tier):
    """Adds to report `rep`: MC_ReaderFaults (+ its negative control), replay of every exported schedule on the
    real parsers, Trace_ReaderFaults verdicts.  Violations are keyed rf:<parser>:<end>:<why>."""
    n, mp = (5, 3) if tier == "quick" else (6, 3)
    r = tlc("MC_ReaderFaults", CFG % (n, "TRUE", mp), pid + "/rfmc", timeout=3000)
    rep.add_tlc("MC_ReaderFaults", r)
    # a caller that repeats a request which failed without consuming anything never notices a passing failure between requests
    r2 = tlc("MC_ReaderFaults", (CFG % (n, "TRUE", 2)).replace("Retry = FALSE", "Retry = TRUE"), pid + "/rfretry", timeout=3000)
    rep.add_tlc("MC_ReaderFaults:retry", r2)
    # the model must refute a consumer that issues a single Read per request
    try:
        tlc("MC_ReaderFaults", (CFG % (4, "FALSE", 2)).replace("PROPERTIES Terminates\n", ""), pid + "/rfneg", timeout=3000, tags=())
        raise Infra("negative control of MC_ReaderFaults: the single-Read consumer was not refuted")
    except Infra as e:
        if "Invariant ScheduleIndependent is violated" not in str(e):
            raise
    seen, scheds = set(), []
    for t, o in r.lines:
        key = (tuple(o["pat"]), o["end"])
        if key not in seen:
            seen.add(key)
            scheds.append({"pat": o["pat"], "end": o["end"], "k": 0})
    wd = workdir(pid)
    sp = os.path.join(wd, "rf-sched.txt")
    with open(sp, "w") as f:
        for s in scheds:
            f.write(json.dumps(s) + "\n")
    out = os.path.join(wd, "rf.ndjson")
    vh_to_file(["rf-run", tier] + parsers, out, stdin_path=sp, timeout=3000)
    cases = {}
    for line in open(out):
        d = json.loads(line)
        cases[d["case"]] = d
    nl, rejects, states = trace_validate("Trace_ReaderFaults", pid + "/rf", out, shards=16)
    rep.cov["states"] += states
    rep.cov["transitions"] += states
    rep.cov["traces_validated_against_impl"] += nl
    for rj in rejects:
        c = cases[rj["case"]]
        rep.violation("rf:%s:%s:%s" % (c["parser"], c["sch"]["end"], rj["why"][:40]),
                      "%s on input %s (%d bytes) delivered with fragments %s, end %s after %d bytes: %s (contiguous outcome %s, this outcome %s)" % (
                          c["parser"], c["input"], c["L"], c["sch"]["pat"], c["sch"]["end"], c["sch"]["k"], rj["why"], c["contig"], c["sched"]),
                      {"component": "rf", "event": c})
    by = {}
    for c in cases.values():
        k = "%s/%s" % (c["parser"], c["sch"]["end"])
        by[k] = by.get(k, 0) + 1
    rep.add("reader_faults", schedules=len(scheds), runs=len(cases), by_parser_and_end=by,
            observed_failures=sum(1 for c in cases.values() if c["sched"] == "err" and c["contig"] != "err"))
    # negative control of the binding: a run whose outcome is replaced must be rejected
    ok = [c for c in cases.values() if c["parser"] != "cbor" and c["sch"]["end"] == "eofdata" and c["contig"] != "err"]
    if ok:
        bad = dict(ok[0], sched="err", case="neg")
        p = os.path.join(wd, "rf-neg.ndjson")
        open(p, "w").write(json.dumps(bad) + "\n")
        _, rj, _ = trace_validate("Trace_ReaderFaults", pid + "/rfnegtrace", p, shards=1)
        if not rj:
            raise Infra("negative control: Trace_ReaderFaults accepted a fabricated spurious error")
        rep.add("reader_faults_negative_control", rejected=True)
    return cases
