"""C03, C04, C05: Web Bundles against tla/Bundle.tla (MC_Bundle, MC_BundleRead, Trace_Bundle)."""
import json, os
import vlib
from vlib import Report, tlc, vh_to_file, trace_validate, workdir, log, Infra

C03_WHY = {"writer refuses a bundle it must write", "writer accepts a bundle it must refuse", "writer panics", "Validate",
           "file does not hold the exchanges of the bundle (dropped / duplicated / mis-attributed / order)",
           "reader does not return what the file holds", "write/read does not reach a byte-identical fixpoint"}
C04_WHY = {"returned byte count", "output is not a well-formed canonical bundle", "writer panics"}


def txt(a):
    return bytes(a).decode("latin1")


def _wr_traces(rep, pid, tier):
    wd = workdir(pid)
    mx = 2 if tier == "quick" else 3
    r = tlc("MC_Bundle", "SPECIFICATION Spec\nCONSTANTS MaxEx = %d\nTmpl = {1, 2, 3, 4, 5, 6, 7, 8, 9, 10, 11, 12}\nINVARIANTS WrittenIsWellFormed ReadsBack\nCHECK_DEADLOCK FALSE\n" % mx, pid + "/mc", timeout=3000)
    rep.add_tlc("MC_Bundle", r)
    # one exchange more over the templates that mix a URL with several variants and a URL with one response
    r2 = tlc("MC_Bundle", "SPECIFICATION Spec\nCONSTANTS MaxEx = %d\nTmpl = {3, 5, 6, 9, 10}\nINVARIANTS WrittenIsWellFormed ReadsBack\nCHECK_DEADLOCK FALSE\n" % (mx + 1), pid + "/mc2", timeout=3000)
    rep.add_tlc("MC_Bundle(variants+plain)", r2)
    seen = set(json.dumps(o, sort_keys=True) for t, o in r.lines)
    r.lines += [(t, o) for t, o in r2.lines if json.dumps(o, sort_keys=True) not in seen]
    # twins: one response (status, header fields, body) under two URLs, next to others
    r3 = tlc("MC_Bundle", "SPECIFICATION Spec\nCONSTANTS MaxEx = %d\nTmpl = {1, 2, 3, 13, 14}\nINVARIANTS WrittenIsWellFormed ReadsBack\nCHECK_DEADLOCK FALSE\n" % (mx + 1), pid + "/mc3", timeout=3000)
    rep.add_tlc("MC_Bundle(twin responses)", r3)
    seen = set(json.dumps(o, sort_keys=True) for t, o in r.lines)
    r.lines += [(t, o) for t, o in r3.lines if json.dumps(o, sort_keys=True) not in seen]
    vp = os.path.join(wd, "vec.txt")
    nref = 0
    with open(vp, "w") as f:
        for t, o in r.lines:
            f.write(json.dumps(o) + "\n")
            nref += 1 if o["refused"] else 0
    rp = os.path.join(wd, "replay.ndjson")
    vh_to_file(["bundle-replay"], rp, stdin_path=vp, timeout=3000)
    gp = os.path.join(wd, "gen.ndjson")
    vh_to_file(["bundle-gen", tier], gp, timeout=3000)
    allp = os.path.join(wd, "wr.ndjson")
    cases = {}
    with open(allp, "w") as f:
        for p in (rp, gp):
            for line in open(p):
                d = json.loads(line)
                cases[d["case"]] = d
                f.write(line if line.endswith("\n") else line + "\n")
    n, rejects, states = trace_validate("Trace_Bundle", pid, allp, shards=16, timeout=3000)
    rep.cov["states"] += states
    rep.cov["transitions"] += states
    rep.cov["traces_validated_against_impl"] += n
    rep.cov["evaluations"] += n
    rep.add("replay", tlc_bundles=len(r.lines), tlc_refused=nref, random_bundles=n - len(r.lines), rejected=len(rejects))
    return cases, rejects


def _wr_violations(rep, cases, rejects, select):
    for rj in rejects:
        c = cases[rj["case"]]
        b = c["b"]
        for w in rj["why"]:
            if w not in select:
                continue
            shape = "%s/%dex/%s%s" % (b["ver"], len(b["exs"]), "P" if b["hasprimary"] else "", "M" if b["hasmanifest"] else "")
            key = "wr:%s:%s:%s" % (shape, w[:40], c["case"] if c["case"].startswith("mc") else "bodies" + str(sorted(set(len(e["body"]) for e in b["exs"]))[:6]))
            rep.violation(key, "Bundle.WriteTo / Read on a %s bundle with %d exchanges (urls %s, body lengths %s, dest %s): %s" % (
                b["ver"], len(b["exs"]), [txt(e["url"])[:40] for e in b["exs"]][:4], [len(e["body"]) for e in b["exs"]][:8], c["dest"], w),
                {"component": "bundle", "bundle": b, "dest": c["dest"], "why": w})


def _neg_wr(rep, pid, cases):
    good = [c for c in cases.values() if c["case"] not in rep.rejected_ids and not c["werr"] and len(c["b"]["exs"]) >= 2 and len(c["file"]) < 4000][0]
    b1 = json.loads(json.dumps(good)); b1["case"] = "neg1"; b1["file"][-1] ^= 1                 # trailing length
    b2 = json.loads(json.dumps(good)); b2["case"] = "neg2"; b2["b"]["exs"][0]["body"] = b2["b"]["exs"][0]["body"] + [1]   # file lacks a byte of the bundle
    b3 = json.loads(json.dumps(good)); b3["case"] = "neg3"; b3["count"] += 1
    p = os.path.join(workdir(pid), "neg.ndjson")
    open(p, "w").write("\n".join(json.dumps(x) for x in (good, b1, b2, b3)) + "\n")
    _, rj, _ = trace_validate("Trace_Bundle", pid + "/neg", p, shards=1)
    got = sorted(x["case"] for x in rj)
    if got != ["neg1", "neg2", "neg3"]:
        raise Infra("negative control failed for Trace_Bundle(wr): %s" % rj)
    rep.add("negative_control", corrupted_records_rejected=3)


def check_c03(tier):
    rep = Report("C03", tier)
    rep.cov["rule"] = ("design level: MC_Bundle enumerates every bundle of <= 2 (quick) / 3 (thorough) exchanges over 12 templates (incl. Variants / Variant-Key as repeated field lines) (two URLs of different length, bodies "
                       "0/1/23/24, b1 variant sets complete / incomplete / overlapping / multi-key / inconsistent) x b1/b2 x primary / manifest; invariants: "
                       "written bytes read back (Extract) to exactly the expected exchanges in index order, refusal exactly on broken coverage / repeated URL / "
                       "manifest in b2. Binding: every enumerated bundle and seeded random bundles (0..35 exchanges, URL shapes incl. ports, %-escapes, queries, "
                       "relative references, header names in random case with several values, status 100..999, bodies around 23/24, 255/256, 65535/65536) are "
                       "written by the real writer, read by the real reader, and cycled twice more; Trace_Bundle requires: refused iff the spec refuses; the "
                       "file holds exactly the bundle's exchanges; the reader returns what the file holds; W(R(W(R(f)))) = W(R(f)). distinct_nontrivial = "
                       "distinct written files with at least one exchange")
    cases, rejects = _wr_traces(rep, "C03", tier)
    _wr_violations(rep, cases, rejects, C03_WHY)
    rep.cov["distinct_nontrivial"] = len(set(bytes(c["file"][:2000]).hex() + str(len(c["file"])) for c in cases.values() if c["b"]["exs"] and not c["werr"]))
    for c in list(cases.values())[:1] + list(cases.values())[-2:]:
        rep.sample({"ver": c["b"]["ver"], "urls": [txt(e["url"])[:50] for e in c["b"]["exs"]][:5], "body_lens": [len(e["body"]) for e in c["b"]["exs"]][:8],
                    "refused": c["werr"], "file_len": len(c["file"])})
    _neg_wr(rep, "C03", cases)
    rep.assumptions = ["URLs carry no fragment or userinfo; b1 bundles have a primary URL; header names ASCII tokens unique after case folding; values visible ASCII; status 100..999",
                       "the byte-identical fixpoint is not claimed for bundles with multi-key Variant-Key entries"]
    # "... and signatures section": bundles carrying a signatures section (0..3 authorities, 0..7 vouched subsets)
    sigsection_roundtrip(rep, "C03")
    # instances of tens of MiB (thresholds in buffering / chunking code): Trace_Huge
    from huge_checks import huge
    huge(rep, "C03", "bundle")
    huge(rep, "C03", "variants")
    return rep.finish()


def sigsection_roundtrip(rep, pid):
    """Write / read / write / read of bundles that carry a signatures section; Trace_BundleSig (kind wrsig) compares the file
    with SpecWrite(bundle with SigSection(section)) and the section read back with the one written."""
    wd = workdir(pid)
    p = os.path.join(wd, "sigrt.ndjson")
    vh_to_file(["bundle-sigrt"], p, timeout=3000)
    cases = {}
    for line in open(p):
        d = json.loads(line)
        cases[d["case"]] = d
    n, rejects, states = trace_validate("Trace_BundleSig", pid + "/sigrt", p, overrides=True, shards=8, timeout=3000)
    rep.cov["states"] += states
    rep.cov["transitions"] += states
    rep.cov["traces_validated_against_impl"] += n
    for rj in rejects:
        c = cases[rj["case"]]
        for w in rj["why"]:
            rep.violation("sigrt:%s:%s" % (c["b"]["ver"], w[:50]), "%s bundle with a signatures section of %d authorities and %d vouched subsets, written and read back: %s [write error=%s, read %s, %d subsets read back]" % (
                c["b"]["ver"], len(c["sigrec"]["auths"]), len(c["sigrec"]["subsets"]), w, c["werr"], c["verdict"], len(c["sigrec2"]["subsets"])),
                {"component": "bundle", "event_case": c["case"], "why": w, "authorities": len(c["sigrec"]["auths"]), "subsets": len(c["sigrec"]["subsets"])})
    rep.add("signatures_section_roundtrip", bundles=n, rejected=len(rejects))
    good = [c for c in cases.values() if c["case"] not in rep.rejected_ids]
    if not good:
        return n        # every record rejected: violations are reported above, the control needs one accepted record
    good = good[-1]
    bad = json.loads(json.dumps(good)); bad["case"] = "neg1"; bad["sigrec2"]["subsets"] = bad["sigrec2"]["subsets"] + [{"authority": [0] * 8, "sig": [1], "signed": [2]}]
    np_ = os.path.join(wd, "sigrt-neg.ndjson")
    open(np_, "w").write(json.dumps(good) + "\n" + json.dumps(bad) + "\n")
    _, rj, _ = trace_validate("Trace_BundleSig", pid + "/sigrt-neg", np_, overrides=True, shards=1)
    if [x["case"] for x in rj] != ["neg1"]:
        raise Infra("negative control failed for Trace_BundleSig(wrsig): %s" % rj)
    return n


def check_c04(tier):
    rep = Report("C04", tier)
    rep.cov["rule"] = ("same bundle space as C03 (TLC-enumerated + seeded random), destinations with / without io.ReaderFrom and a bytewise one: every byte string "
                       "the real writer emits without error is judged by WellFormedBundle (independent parser in tla/Bundle.tla: magic + version, section table "
                       "with unique names and 'responses' last, sections tiling the file exactly up to the trailing length item, every index location delimiting "
                       "exactly one [headers, payload] element of the responses array, canonical CBOR of the whole file and of the CBOR nested in byte strings, "
                       "trailing length = file size) and the returned count must equal the bytes the destination accepted; CountingWriter is bound as a "
                       "component in C19. distinct_nontrivial = distinct written files")
    cases, rejects = _wr_traces(rep, "C04", tier)
    _wr_violations(rep, cases, rejects, C04_WHY)
    rep.cov["distinct_nontrivial"] = len(set(bytes(c["file"][:2000]).hex() + str(len(c["file"])) for c in cases.values() if not c["werr"]))
    for c in [c for c in cases.values() if not c["werr"]][:3]:
        rep.sample({"ver": c["b"]["ver"], "dest": c["dest"], "count": c["count"], "file_len": len(c["file"]), "file_head_hex": bytes(c["file"][:40]).hex()})
    _neg_wr(rep, "C04", cases)
    rep.assumptions = ["section order other than 'responses' last is not constrained", "as C03"]
    # "the byte count the writer returns equals the number of bytes it handed to the destination": also when the destination
    # fails, at every position and in every failure mode (WriterFaults.tla, the bundle serializers of the C19 sweep)
    from wf_checks import writer_faults
    writer_faults(rep, "C04", tier, "bundle")
    return rep.finish()


def check_c05(tier):
    rep = Report("C05", tier)
    rep.cov["rule"] = ("MC_BundleRead derives from 6 valid bundles (two with response lengths / offsets of exactly 255 / 256 / 257 so that truncated arguments have zero low bytes) every single-field replacement of a declared section length / index offset / index length by "
                       "boundary values (0, exact+-1, file size, 2^32, 2^63-1, 2^63, 2^64-2, 2^64-1), offset+length wrapping 2^64, sections swapped / renamed "
                       "to duplicates / unknown sections inserted at every position (and after 'responses') / removed, wrong section counts, truncation at every "
                       "offset, each with TLC's location semantics (Extract) and design invariants; every file is given to the real bundle.Read, plus real "
                       "bundles under bit flips / truncation / insert / delete at every offset and random byte strings; Trace_Bundle requires: Extract=ok => "
                       "accepted with exactly the content at the indexed locations; Extract=err => rejected with an error; never a panic. "
                       "distinct_nontrivial = distinct files")
    r = tlc("MC_BundleRead", "SPECIFICATION Spec\nCONSTANTS Bases = {1, 2, 3, 4, 5, 6, 7, 8}\nINVARIANTS UnmutatedReads UnknownSkipped OutOfBoundsRefused Bounded\nCHECK_DEADLOCK FALSE\n",
            "C05/mc", timeout=3000)
    rep.add_tlc("MC_BundleRead", r)
    wd = workdir("C05")
    vp = os.path.join(wd, "vec.txt")
    with open(vp, "w") as f:
        for t, o in r.lines:
            f.write(json.dumps(o) + "\n")
    rp = os.path.join(wd, "replay.ndjson")
    vlib.vh_resilient(["bundle-read"], rp, stdin_path=vp, timeout=3000)
    fp = os.path.join(wd, "fuzz.ndjson")
    vh_to_file(["bundle-fuzz", tier], fp, timeout=3000)
    allp = os.path.join(wd, "rd.ndjson")
    cases = {}
    with open(allp, "w") as f:
        for p in (rp, fp):
            for line in open(p):
                d = json.loads(line)
                cases[d["case"]] = d
                f.write(line if line.endswith("\n") else line + "\n")
    n, rejects, states = trace_validate("Trace_Bundle", "C05", allp, shards=16, timeout=3000)
    rep.cov["states"] += states
    rep.cov["transitions"] += states
    rep.cov["traces_validated_against_impl"] += n
    rep.cov["evaluations"] += n
    rep.cov["distinct_nontrivial"] = len(set(bytes(c["file"]).hex() for c in cases.values()))
    by = {}
    for c in cases.values():
        k = c["note"].split("/")[0] + " -> " + c["verdict"]
        by[k] = by.get(k, 0) + 1
    rep.add("replay", tlc_files=len(r.lines), fuzzed=n - len(r.lines), rejected=len(rejects), by_mutation_and_real_verdict=by)
    for rj in rejects:
        c = cases[rj["case"]]
        for w in rj["why"]:
            key = "rd:%s:%s" % (c["note"], w[:60]) if c["case"].startswith("mc") else "rd:%s:%s:%s" % (c["note"], w[:60], vlib.hashlib.sha1(bytes(c["file"])).hexdigest()[:8])
            if c["case"].startswith("mc"):
                key += ":" + vlib.hashlib.sha1(bytes(c["file"])).hexdigest()[:8]
            rep.violation(key, "bundle.Read on a %d-byte file (%s) -> %s: %s; file hex %s..." % (len(c["file"]), c["note"], c["verdict"], w, bytes(c["file"][:48]).hex()),
                          {"component": "bundleread", "file": c["file"], "note": c["note"], "why": w})
    for c in list(cases.values())[:2] + list(cases.values())[-1:]:
        rep.sample({"mutation": c["note"], "file_len": len(c["file"]), "real_verdict": c["verdict"]})
    good = [c for c in cases.values() if c["case"] not in rep.rejected_ids and c["verdict"] == "ok" and c["note"].startswith("none") and c["b2"]["exs"]][0]
    b1 = json.loads(json.dumps(good)); b1["case"] = "neg1"; b1["b2"]["exs"][0]["body"] = b1["b2"]["exs"][0]["body"] + [0]   # fabricated content
    b2 = json.loads(json.dumps(good)); b2["case"] = "neg2"; b2["verdict"] = "panic"
    p = os.path.join(wd, "neg.ndjson")
    open(p, "w").write("\n".join(json.dumps(x) for x in (good, b1, b2)) + "\n")
    _, rj, _ = trace_validate("Trace_Bundle", "C05/neg", p, shards=1)
    if sorted(x["case"] for x in rj) != ["neg1", "neg2"]:
        raise Infra("negative control failed for Trace_Bundle(rd): %s" % rj)
    rep.add("negative_control", corrupted_records_rejected=2)
    rep.assumptions = ["files whose verdict depends on net/url, X.509 parsing, an odd section-lengths count, bytes after a nested header map, or a missing trailing "
                       "length item are classified 'either': only 'no panic' (and content equality where extractable) is demanded"]
    # the reader's verdict must not depend on how the file is delivered (ReaderFaults.tla)
    from rf_checks import reader_faults
    reader_faults(rep, "C05", ["bundle", "magic"], tier)
    # calls on independent objects running in parallel do not interfere (Trace_Purity, race detector)
    from purity_checks import parallel_cold
    parallel_cold(rep, "C05", "bundle.Read")
    return rep.finish()


def _replay(pid, path):
    log("replay: re-running the check family on the current tree")
    return {"C03": check_c03, "C04": check_c04, "C05": check_c05}[pid]("quick")


def replay_c03(path):
    return _replay("C03", path)


def replay_c04(path):
    return _replay("C04", path)


def replay_c05(path):
    d = json.load(open(path))["case"]
    from vlib import vh
    res = vh(["bundle-read"], stdin=json.dumps({"file": d["file"], "note": d["note"], "base": 0}) + "\n")
    p = os.path.join(workdir("C05"), "replay.ndjson")
    open(p, "w").write(json.dumps(res[0]) + "\n")
    _, rej, _ = trace_validate("Trace_Bundle", "C05/replay", p, shards=1)
    log("replay: real verdict %s -> %s" % (res[0]["verdict"], "VIOLATION " + json.dumps(rej) if rej else "conforms"))
    if rej:
        log("VIOLATION property=C05 replay=%s" % path)
        return 1
    return 0
