module verif/harness

go 1.20

require (
	github.com/WICG/webpackage v0.0.0
	github.com/youmark/pkcs8 v0.0.0-20201027041543-1326539a0a0a
)

require (
	golang.org/x/crypto v0.31.0 // indirect
	golang.org/x/sys v0.28.0 // indirect
	golang.org/x/term v0.27.0 // indirect
)

replace github.com/WICG/webpackage => /repo
