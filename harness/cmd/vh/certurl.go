package main

import (
	"bytes"
	"crypto/x509"
	"encoding/json"
	"math/rand"
	"strconv"

	"github.com/WICG/webpackage/go/signedexchange/certurl"
	"github.com/WICG/webpackage/go/verifapi"
)

type ccert struct {
	Cert    []int `json:"cert"`
	HasOcsp bool  `json:"hasocsp"`
	Ocsp    []int `json:"ocsp"`
	HasSct  bool  `json:"hassct"`
	Sct     []int `json:"sct"`
}

func chainOut(ch certurl.CertChain) []ccert {
	r := []ccert{}
	for _, ac := range ch {
		c := ccert{Cert: []int{}, Ocsp: []int{}, Sct: []int{}}
		if ac.Cert != nil {
			c.Cert = ints(ac.Cert.Raw)
		}
		if ac.OCSPResponse != nil {
			c.HasOcsp, c.Ocsp = true, ints(ac.OCSPResponse)
		}
		if ac.SCTList != nil {
			c.HasSct, c.Sct = true, ints(ac.SCTList)
		}
		r = append(r, c)
	}
	return r
}

func blob(r *rand.Rand, n int) []byte {
	if n < 0 {
		return nil
	}
	b := make([]byte, n) // non-nil even when empty
	r.Read(b)
	return b
}

func certReadEvent(id string, b []byte, note string) {
	ev := map[string]interface{}{"case": id, "kind": "read", "bytes": ints(b), "note": note, "exact": note != "bitflip", "panic": false, "err": true, "chain": []ccert{}}
	func() {
		defer func() {
			if rec := recover(); rec != nil {
				ev["panic"] = true
			}
		}()
		ch, err := certurl.ReadCertChain(bytes.NewReader(b))
		ev["err"] = err != nil
		if err == nil {
			ev["chain"] = chainOut(ch)
		}
	}()
	emit(ev)
}

// cert-run <tier>: stdin = presence/size patterns (TLC behaviours of MC_CertChain, one JSON array per
// line, elements {ocsp, sct} = length or -1); plus the size grid, damaged encodings and SCT lists.
func certRun(args []string) error {
	thorough := len(args) > 0 && args[0] == "thorough"
	r := rand.New(rand.NewSource(seed()))
	certs := []*x509.Certificate{newKeyCert("p256", []string{"a.example"}, 0).certs[0], newKeyCert("p384", []string{"b.example"}, 120).certs[0],
		newKeyCert("p256", []string{"c.example"}, 600).certs[0]}
	id := 0
	var runChain func(ch certurl.CertChain, tag string)
	runPattern := func(pat []struct{ Ocsp, Sct int }, tag string) {
		ch := certurl.CertChain{}
		for i, p := range pat {
			ch = append(ch, &certurl.AugmentedCertificate{Cert: certs[i%3], OCSPResponse: blob(r, p.Ocsp), SCTList: blob(r, p.Sct)})
		}
		runChain(ch, tag)
	}
	runChain = func(ch certurl.CertChain, tag string) {
		id++
		var buf bytes.Buffer
		err := ch.Write(&buf)
		out := []int{}
		if err == nil {
			out = ints(buf.Bytes())
		}
		emit(map[string]interface{}{"case": tag + strconv.Itoa(id) + "w", "kind": "write", "chain": chainOut(ch), "err": err != nil, "out": out})
		// the same chain encoded element by element, bypassing the writer's validation, for the reader
		var raw bytes.Buffer
		enc := verifapi.NewCborEncoder(&raw)
		enc.EncodeArrayHeader(len(ch) + 1)
		enc.EncodeTextString("\U0001F4DC⛓")
		for _, ac := range ch {
			ac.EncodeTo(enc)
		}
		certReadEvent(tag+strconv.Itoa(id)+"r", raw.Bytes(), "pattern")
	}
	if err := eachLine(func(line []byte) error {
		var pat []struct{ Ocsp, Sct int }
		if err := json.Unmarshal(line, &pat); err != nil {
			return err
		}
		runPattern(pat, "mc")
		return nil
	}); err != nil {
		return err
	}
	// long chains (paths that depend on the NUMBER of certificates): 300 certificates, and 1100 with an OCSP response
	// far down the chain (which makes the chain invalid)
	{
		long := make([]struct{ Ocsp, Sct int }, 300)
		for i := range long {
			long[i].Ocsp, long[i].Sct = -1, -1
		}
		long[0].Ocsp = 4
		runPattern(long, "long")
		longer := make([]struct{ Ocsp, Sct int }, 1100)
		for i := range longer {
			longer[i].Ocsp, longer[i].Sct = -1, -1
		}
		longer[0].Ocsp = 4
		runPattern(longer, "long")
		longer[1050].Ocsp = 3
		runPattern(longer, "long")
	}
	// aliased elements: the SAME element object at several positions of the chain (a self-signed certificate listed as its
	// own issuer, a leaf repeated at the end), elements sharing one certificate or one byte slice; the rule is positional
	{
		mk := func(c int, ocsp, sct int) *certurl.AugmentedCertificate {
			return &certurl.AugmentedCertificate{Cert: certs[c], OCSPResponse: blob(r, ocsp), SCTList: blob(r, sct)}
		}
		a, a0, b, c := mk(0, 4, -1), mk(0, 0, 3), mk(1, -1, -1), mk(2, -1, 2)
		n := mk(0, -1, -1)
		for _, ch := range []certurl.CertChain{{a, a}, {a, b, a}, {a, b, b}, {a, b, c, b}, {a, b, c, a}, {a0, a0}, {a0, b, a0}, {n, n}, {n, a}, {b, a, b}, {a, a, a},
			{a, b, &certurl.AugmentedCertificate{Cert: a.Cert, OCSPResponse: a.OCSPResponse, SCTList: a.SCTList}},
			{a, &certurl.AugmentedCertificate{Cert: a.Cert}, &certurl.AugmentedCertificate{Cert: a.Cert, SCTList: c.SCTList}}} {
			runChain(ch, "alias")
		}
	}
	sizes := []int{0, 1, 23, 24, 255, 256, 511, 512, 513, 4095, 4096, 4097}
	if thorough {
		sizes = append(sizes, 65535, 65536)
	}
	for _, o := range sizes {
		for _, s := range append([]int{-1}, sizes...) {
			runPattern([]struct{ Ocsp, Sct int }{{o, s}}, "g")
			runPattern([]struct{ Ocsp, Sct int }{{o, -1}, {-1, s}}, "g")
		}
	}
	runPattern([]struct{ Ocsp, Sct int }{{65535, 65536}, {-1, 65535}, {-1, -1}}, "g")
	// damaged encodings of a valid two-certificate chain
	var good bytes.Buffer
	ch, _ := certurl.NewCertChain(certs[:2], []byte("ocsp"), []byte("sct"))
	ch.Write(&good)
	g := good.Bytes()
	certReadEvent("d-good", g, "valid")
	for i := 0; i < len(g); i++ {
		if thorough || i < 40 || i%7 == 0 {
			m := append([]byte{}, g...)
			m[i] ^= 1 << uint(r.Intn(8))
			certReadEvent("d-flip"+strconv.Itoa(i), m, "bitflip")
		}
		if thorough || i < 40 || i%11 == 0 {
			certReadEvent("d-trunc"+strconv.Itoa(i), g[:i], "truncate")
		}
	}
	own := func(note string, top *cnode) {
		certReadEvent("d-"+note, encodeOwn(top, nil), note)
	}
	tx := func(s string) *cnode { return &cnode{mt: 3, data: []byte(s)} }
	bs := func(b []byte) *cnode { return &cnode{mt: 2, data: b} }
	der := certs[0].Raw
	magic := tx("\U0001F4DC⛓")
	own("only magic", &cnode{mt: 4, kids: []*cnode{magic}})
	own("wrong magic", &cnode{mt: 4, kids: []*cnode{tx("magic"), {mt: 5, kids: []*cnode{tx("cert"), bs(der), tx("ocsp"), bs([]byte("o"))}}}})
	own("no ocsp", &cnode{mt: 4, kids: []*cnode{magic, {mt: 5, kids: []*cnode{tx("cert"), bs(der)}}}})
	own("unknown key", &cnode{mt: 4, kids: []*cnode{magic, {mt: 5, kids: []*cnode{tx("cert"), bs(der), tx("ocsp"), bs([]byte("o")), tx("zzz"), bs([]byte("?"))}}}})
	own("no cert", &cnode{mt: 4, kids: []*cnode{magic, {mt: 5, kids: []*cnode{tx("ocsp"), bs([]byte("o"))}}}})
	own("bad der", &cnode{mt: 4, kids: []*cnode{magic, {mt: 5, kids: []*cnode{tx("cert"), bs(der[:len(der)-3]), tx("ocsp"), bs([]byte("o"))}}}})
	own("ocsp on second", &cnode{mt: 4, kids: []*cnode{magic, {mt: 5, kids: []*cnode{tx("cert"), bs(der), tx("ocsp"), bs([]byte("o"))}},
		{mt: 5, kids: []*cnode{tx("cert"), bs(certs[1].Raw), tx("ocsp"), bs([]byte{})}}}})
	own("bytes key", &cnode{mt: 4, kids: []*cnode{magic, {mt: 5, kids: []*cnode{bs([]byte("cert")), bs(der), tx("ocsp"), bs([]byte("o"))}}}})
	own("text value", &cnode{mt: 4, kids: []*cnode{magic, {mt: 5, kids: []*cnode{tx("cert"), bs(der), tx("ocsp"), tx("o")}}}})
	// SCT lists
	var late []func()
	sctCase := func(lens []int) {
		id++
		var scts [][]byte
		js := [][]int{}
		for _, l := range lens {
			b := blob(r, l)
			scts = append(scts, b)
			js = append(js, ints(b))
		}
		out, err := certurl.SerializeSCTList(scts)
		// observed LATE: the returned slice is kept as returned and looked at only after all later calls (a result must
		// not be backed by storage that a later call reuses)
		cid := "sct" + strconv.Itoa(id)
		late = append(late, func() {
			emit(map[string]interface{}{"case": cid, "kind": "sct", "scts": js, "err": err != nil, "out": ints(out)})
		})
	}
	sctCase([]int{})
	for _, a := range []int{0, 1, 100} {
		sctCase([]int{a})
		for _, b := range []int{0, 1, 33} {
			sctCase([]int{a, b})
			sctCase([]int{a, b, 5})
		}
	}
	for _, l := range [][]int{{65533}, {65534}, {65535}, {65536}, {65531, 0}, {65530, 1}, {65531, 1}, {32766, 32765}, {32766, 32766}, {30000, 30000, 5529}, {30000, 30000, 5530}, {70000}, {1, 70000}} {
		sctCase(l)
	}
	// decreasing sizes (a later, shorter result fits into whatever an earlier one used)
	for _, l := range [][]int{{300, 20}, {100}, {40, 1}, {7}, {}} {
		sctCase(l)
	}
	for _, f := range late {
		f()
	}
	return nil
}

func init() { register("cert-run", certRun) }
