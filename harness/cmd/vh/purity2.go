package main

// Family (D) of the purity histories: INDEPENDENT objects used in parallel, cold.
// K fresh objects (values this process has not seen before) are worked on by K goroutines released
// together, BEFORE anything has been computed sequentially; the expected outputs are established
// afterwards (or known from construction).  Nothing is shared by the caller: whatever the goroutines
// share is the library's own (package-level caches, scratch state), which must not be observable.
// Covers parsers / decoders / verifiers as well as serializers (C18's discipline applied to every
// entry point: calls on distinct objects do not interfere).

import (
	"bytes"
	"encoding/json"
	"fmt"
	"io/ioutil"
	"math/rand"
	"net/http"
	"net/url"
	"strings"
	"sync"
	"time"

	"github.com/WICG/webpackage/go/bundle"
	"github.com/WICG/webpackage/go/bundle/signature"
	bversion "github.com/WICG/webpackage/go/bundle/version"
	sxg "github.com/WICG/webpackage/go/signedexchange"
	"github.com/WICG/webpackage/go/signedexchange/certurl"
	"github.com/WICG/webpackage/go/signedexchange/mice"
	sh "github.com/WICG/webpackage/go/signedexchange/structuredheader"
	"github.com/WICG/webpackage/go/signedexchange/version"
	"github.com/WICG/webpackage/go/verifapi"
)

type coldJob struct {
	run  func() []byte // the call under observation
	ref  func() []byte // expected output: known from construction, or the same call repeated sequentially afterwards
	snap func() string // optional: a deep rendering of the call's INPUTS (compared before / after: inputs are read-only)
}

// deepBundle renders everything a caller can see in a bundle value, field lines of headers kept apart.
func deepBundle(b *bundle.Bundle) string {
	type ex struct {
		URL    string
		Status int
		Header map[string][]string
		Body   []byte
	}
	var o struct {
		Ver, Primary, Manifest string
		Exs                    []ex
		Sigs                   interface{}
	}
	o.Ver = string(b.Version)
	if b.PrimaryURL != nil {
		o.Primary = b.PrimaryURL.String()
	}
	if b.ManifestURL != nil {
		o.Manifest = b.ManifestURL.String()
	}
	for _, e := range b.Exchanges {
		o.Exs = append(o.Exs, ex{e.Request.URL.String(), e.Response.Status, e.Response.Header, e.Response.Body})
	}
	if b.Signatures != nil {
		o.Sigs = sigsOf(b.Signatures)
	}
	j, _ := json.Marshal(o)
	return string(j)
}

// par-run <substring>: family (D) alone, restricted to the entry points whose name contains the substring
func parRun(args []string) error {
	r := rand.New(rand.NewSource(seed()))
	id := 0
	parallelColdFiltered(r, args[0], func(ser string, ref []byte, out []byte, g int) {
		id++
		mut := g == 0 && !bytes.Equal(ref, out) // g = 0: the deep rendering of the inputs before (ref) and after (out) the calls
		if g == 0 {
			ref, out = nil, nil
		}
		emit(map[string]interface{}{"case": fmt.Sprintf("q%d", id), "kind": "hist", "ser": ser, "mode": "parallel-cold", "sched": []int{g}, "ref": ints(ref),
			"calls": []map[string]interface{}{{"g": g, "out": ints(out)}}, "mutated": mut, "sharedcap": false})
	})
	return nil
}

func init() { register("par-run", parRun) }

func parallelCold(r *rand.Rand, emitHist func(ser string, ref []byte, out []byte, g int)) {
	parallelColdFiltered(r, "", emitHist)
}

func parallelColdFiltered(r *rand.Rand, only string, emitHist func(ser string, ref []byte, out []byte, g int)) {
	const K = 8
	round := 0
	uniq := func() string { round++; return fmt.Sprintf("%d-%d", seed(), round) }
	kc := newKeyCert("p256", []string{"a.example"}, 0)
	families := map[string]func(i int) coldJob{
		"Bundle.WriteTo (b1, fresh Variants value)": func(i int) coldJob {
			tag := uniq()
			b := &bundle.Bundle{Version: bversion.VersionB1}
			pu, _ := url.Parse("https://a.example/")
			b.PrimaryURL = pu
			for _, k := range []string{"x" + tag, "y" + tag} {
				u, _ := url.Parse("https://a.example/v")
				b.Exchanges = append(b.Exchanges, &bundle.Exchange{Request: bundle.Request{URL: u}, Response: bundle.Response{Status: 200,
					Header: http.Header{"Variants": {"Ax" + tag + ";x" + tag + ";y" + tag}, "Variant-Key": {k}}, Body: []byte("body " + k)}})
			}
			f := func() []byte {
				var buf bytes.Buffer
				if _, err := b.WriteTo(&buf); err != nil {
					return []byte("error: " + err.Error())
				}
				return buf.Bytes()
			}
			return coldJob{run: f, ref: f}
		},
		// (E) ONE fresh object shared by all goroutines, used for the first time concurrently ("shared: " families): whatever a
		// serializer computes lazily on first use must not be written into the caller's value
		"shared: Bundle.WriteTo / HeaderSha256 (fresh bundle, several field lines per header)": func(i int) coldJob {
			tag := uniq()
			b := &bundle.Bundle{Version: []bversion.Version{bversion.VersionB2, bversion.VersionB1}[round%2]}
			pu, _ := url.Parse("https://a.example/")
			b.PrimaryURL = pu
			for j := 0; j < 3; j++ {
				u, _ := url.Parse(fmt.Sprintf("https://a.example/%d-%s", j, tag))
				h := http.Header{}
				h.Add("Content-Type", "text/html")
				h.Add("Vary", "Accept-Encoding")
				h.Add("Vary", "Accept-Language")
				h.Add("X-"+tag, "1")
				h.Add("X-"+tag, "")
				h.Add("X-"+tag, "3")
				b.Exchanges = append(b.Exchanges, &bundle.Exchange{Request: bundle.Request{URL: u}, Response: bundle.Response{Status: 200, Header: h, Body: []byte("body " + tag)}})
			}
			f := func() []byte {
				var buf bytes.Buffer
				if _, err := b.WriteTo(&buf); err != nil {
					return []byte("error: " + err.Error())
				}
				hs, err := b.Exchanges[1].Response.HeaderSha256()
				if err != nil {
					return []byte("error: " + err.Error())
				}
				return append(buf.Bytes(), hs...)
			}
			return coldJob{run: f, ref: f, snap: func() string { return deepBundle(b) }}
		},
		"shared: Exchange.Write + DumpExchangeHeaders (fresh exchange, several field lines per header)": func(i int) coldJob {
			sp := baseSpec(r, version.AllVersions[round%3])
			sp.resph.Add("Vary", "Accept-Encoding")
			sp.resph.Add("Vary", "Accept-Language")
			sp.reqh.Add("Accept", "text/html")
			se := buildSigned(sp, kc)
			f := func() []byte {
				var buf bytes.Buffer
				if err := se.e.Write(&buf); err != nil {
					return []byte("error: " + err.Error())
				}
				se.e.DumpExchangeHeaders(&buf)
				return buf.Bytes()
			}
			return coldJob{run: f, ref: f, snap: func() string {
				j, _ := json.Marshal([]interface{}{se.e.RequestURI, se.e.RequestHeaders, se.e.ResponseHeaders, se.e.ResponseStatus, se.e.Payload, se.e.SignatureHeaderValue})
				return string(j)
			}}
		},
		"shared: signatures Verifier.VerifyExchange (fresh signed bundle, several field lines per header)": func(i int) coldJob {
			b := &bundle.Bundle{Version: []bversion.Version{bversion.VersionB2, bversion.VersionB1}[round%2]}
			u, _ := url.Parse("https://a.example/s" + uniq())
			b.PrimaryURL = u
			body := randBytes(r, 70)
			h := http.Header{}
			h.Add("Content-Type", "text/plain")
			h.Add("Vary", "Accept-Encoding")
			h.Add("Vary", "Accept-Language")
			b.Exchanges = []*bundle.Exchange{{Request: bundle.Request{URL: u}, Response: bundle.Response{Status: 200, Header: h, Body: append([]byte{}, body...)}}}
			var signed []map[string]interface{}
			nb, err := signStep(b, &bsigner{"p", []*keyCert{kc}, map[string]bool{"a.example": true}}, time.Unix(1600000000, 0), time.Hour, 16, &signed)
			if err != nil {
				return coldJob{run: func() []byte { return []byte("setup") }, ref: func() []byte { return []byte("setup") }}
			}
			// the signed bundle as a reader delivers it, and with the field lines of "Vary" kept apart as the caller had them
			nb.Exchanges[0].Response.Header["Vary"] = []string{"Accept-Encoding", "Accept-Language"}
			v, err := signature.NewVerifier(nb.Signatures, time.Unix(1600000100, 0), nb.Version)
			if err != nil {
				return coldJob{run: func() []byte { return []byte("setup") }, ref: func() []byte { return []byte("setup") }}
			}
			return coldJob{run: func() []byte {
				res, err := v.VerifyExchange(nb.Exchanges[0])
				if err != nil || res == nil {
					return []byte(fmt.Sprintf("not verified: %v", err))
				}
				return res.VerifiedPayload
			}, ref: func() []byte { return body }, snap: func() string { return deepBundle(nb) }}
		},
		"mice decode (own stream)": func(i int) coldJob {
			payload := randBytes(r, 200+i*37)
			var st bytes.Buffer
			dg, _ := mice.Draft03Encoding.Encode(&st, payload, 16)
			stream := st.Bytes()
			return coldJob{run: func() []byte {
				d, err := mice.Draft03Encoding.NewDecoder(bytes.NewReader(stream), dg, 16384)
				if err != nil {
					return []byte("error: " + err.Error())
				}
				out, err := ioutil.ReadAll(d)
				if err != nil {
					return append([]byte("error after "), out...)
				}
				return out
			}, ref: func() []byte { return payload }}
		},
		"mice encode (own payload)": func(i int) coldJob {
			payload := randBytes(r, 100+i*29)
			f := func() []byte {
				var st bytes.Buffer
				dg, err := mice.Draft03Encoding.Encode(&st, payload, 7)
				if err != nil {
					return []byte("error")
				}
				return append(st.Bytes(), dg...)
			}
			return coldJob{run: f, ref: f}
		},
		"Exchange sign + Verify (own exchange)": func(i int) coldJob {
			sp := baseSpec(r, version.AllVersions[i%3])
			sp.payload = randBytes(r, 50+i)
			want := append([]byte{}, sp.payload...)
			return coldJob{run: func() []byte {
				se := buildSigned(sp, kc)
				if se.err != "" {
					return []byte("error: " + se.err)
				}
				ret, ok := se.e.Verify(time.Unix(sp.date+1, 0), func(string) ([]byte, error) { return kc.chain, nil }, quiet)
				if !ok {
					return []byte("not verified")
				}
				return ret
			}, ref: func() []byte { return want }}
		},
		"bundle.Read (own file)": func(i int) coldJob {
			b := &bundle.Bundle{Version: []bversion.Version{bversion.VersionB1, bversion.VersionB2}[i%2]}
			pu, _ := url.Parse("https://a.example/")
			b.PrimaryURL = pu
			for j := 0; j <= i%3; j++ {
				u, _ := url.Parse(fmt.Sprintf("https://a.example/r%d-%s", j, uniq()))
				b.Exchanges = append(b.Exchanges, &bundle.Exchange{Request: bundle.Request{URL: u}, Response: bundle.Response{Status: 200, Header: http.Header{"Content-Type": {"text/plain"}}, Body: randBytes(r, 30+j)}})
			}
			file, _, _, _ := writeBundle(b, "plain")
			f := func() []byte {
				rb, err := bundle.Read(bytes.NewReader(file))
				if err != nil {
					return []byte("error: " + err.Error())
				}
				return []byte(digestOf(brecOf(rb)))
			}
			return coldJob{run: f, ref: f}
		},
		"signatures: NewVerifier + VerifyExchange (own bundle)": func(i int) coldJob {
			b := &bundle.Bundle{Version: bversion.VersionB2}
			u, _ := url.Parse("https://a.example/s" + uniq())
			b.PrimaryURL = u
			body := randBytes(r, 40+i)
			b.Exchanges = []*bundle.Exchange{{Request: bundle.Request{URL: u}, Response: bundle.Response{Status: 200, Header: http.Header{"Content-Type": {"text/plain"}}, Body: append([]byte{}, body...)}}}
			var signed []map[string]interface{}
			nb, err := signStep(b, &bsigner{"p", []*keyCert{kc}, map[string]bool{"a.example": true}}, time.Unix(1600000000, 0), time.Hour, 16, &signed)
			if err != nil {
				return coldJob{run: func() []byte { return []byte("setup") }, ref: func() []byte { return []byte("setup") }}
			}
			return coldJob{run: func() []byte {
				v, err := signature.NewVerifier(nb.Signatures, time.Unix(1600000100, 0), nb.Version)
				if err != nil {
					return []byte("error: " + err.Error())
				}
				res, err := v.VerifyExchange(nb.Exchanges[0])
				if err != nil || res == nil {
					return []byte("not verified")
				}
				return res.VerifiedPayload
			}, ref: func() []byte { return body }}
		},
		"certurl.ReadCertChain (own chain)": func(i int) coldJob {
			ch, _ := certurl.NewCertChain(newKeyCert("p256", nil, i).certs, []byte("ocsp-"+uniq()), nil)
			var buf bytes.Buffer
			ch.Write(&buf)
			file := buf.Bytes()
			f := func() []byte {
				c, err := certurl.ReadCertChain(bytes.NewReader(file))
				if err != nil {
					return []byte("error: " + err.Error())
				}
				return []byte(digestOf(chainOut(c)))
			}
			return coldJob{run: f, ref: f}
		},
		"structuredheader parse + serialise (own value)": func(i int) coldJob {
			txt := fmt.Sprintf("l%s;a=%d;b=\"s%d\";c=*AAAA*, m;z", uniq(), i, i)
			return coldJob{run: func() []byte {
				pl, err := sh.ParseParameterisedList(txt)
				if err != nil {
					return []byte("error: " + err.Error())
				}
				s, err := pl.String()
				if err != nil {
					return []byte("error: " + err.Error())
				}
				return []byte(s)
			}, ref: func() []byte { return []byte(txt) }}
		},
		"cbor.Deterministic + decoder (own item)": func(i int) coldJob {
			var buf bytes.Buffer
			e := verifapi.NewCborEncoder(&buf)
			e.EncodeArrayHeader(2)
			e.EncodeTextString("k" + uniq())
			e.EncodeByteString(randBytes(r, 20+i))
			item := buf.Bytes()
			f := func() []byte {
				if err := verifapi.CborDeterministic(append([]byte{}, item...)); err != nil {
					return []byte("error: " + err.Error())
				}
				d := verifapi.NewCborDecoder(bytes.NewReader(item))
				n, _ := d.DecodeArrayHeader()
				s, _ := d.DecodeTextString()
				bs, _ := d.DecodeByteString()
				return []byte(fmt.Sprintf("%d %s %x", n, s, bs))
			}
			return coldJob{run: f, ref: f}
		},
	}
	names := []string{}
	for n := range families {
		names = append(names, n)
	}
	sortStrings(names)
	for _, name := range names {
		if only != "" && !strings.Contains(name, only) {
			continue
		}
		mk := families[name]
		for rep := 0; rep < 3; rep++ {
			jobs := make([]coldJob, K)
			for i := range jobs {
				if i > 0 && strings.HasPrefix(name, "shared: ") {
					jobs[i] = jobs[0]
					continue
				}
				jobs[i] = mk(i)
			}
			before := ""
			if jobs[0].snap != nil {
				before = jobs[0].snap()
			}
			outs := make([][]byte, K)
			var wg sync.WaitGroup
			start := make(chan struct{})
			for g := 0; g < K; g++ {
				wg.Add(1)
				go func(g int) {
					defer wg.Done()
					defer func() {
						if rec := recover(); rec != nil {
							outs[g] = []byte(fmt.Sprintf("panic: %v", rec))
						}
					}()
					<-start
					outs[g] = jobs[g].run()
				}(g)
			}
			close(start)
			wg.Wait()
			for g := 0; g < K; g++ {
				emitHist(name, jobs[g].ref(), outs[g], g+1)
			}
			if jobs[0].snap != nil {
				// the inputs after the calls (rendered deeply) against the inputs before them
				emitHist(name+" [inputs unchanged]", []byte(before), []byte(jobs[0].snap()), 0)
			}
		}
	}
}

func sortStrings(a []string) {
	for i := 1; i < len(a); i++ {
		for j := i; j > 0 && a[j] < a[j-1]; j-- {
			a[j], a[j-1] = a[j-1], a[j]
		}
	}
}

var _ = sxg.NewExchange
