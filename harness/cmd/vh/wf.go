package main

import (
	"syscall"
	"bytes"
	"errors"
	"fmt"
	"io"
	"math/rand"
	"net/http"
	"net/url"
	"strings"
	"time"

	"github.com/WICG/webpackage/go/bundle"
	bversion "github.com/WICG/webpackage/go/bundle/version"
	"github.com/WICG/webpackage/go/signedexchange/certurl"
	"github.com/WICG/webpackage/go/signedexchange/mice"
	"github.com/WICG/webpackage/go/signedexchange/version"
	"github.com/WICG/webpackage/go/verifapi"
)

var errInjected = errors.New("verif: injected write failure")

type wlog struct {
	Len int  `json:"len"`
	N   int  `json:"n"`
	Err bool `json:"err"`
}

// faultyWriter accepts k bytes, then fails stickily (two delivery modes) and logs every Write.
// the error VALUE a failing destination returns is its own business (a pipe closed with io.EOF, a short write, ...)
// tempErr: what a non-blocking or deadline-bound destination returns (net.Error style: Temporary() / Timeout() true);
// syscall.EAGAIN is the errno form of the same thing
type tempErr struct{}

func (tempErr) Error() string   { return "resource temporarily unavailable (injected)" }
func (tempErr) Temporary() bool { return true }
func (tempErr) Timeout() bool   { return true }

var faultErrs = []error{errInjected, io.EOF, io.ErrShortWrite, io.ErrUnexpectedEOF, io.ErrClosedPipe, tempErr{}, syscall.EAGAIN}

type faultyWriter struct {
	errv   error
	k      int
	mode   string
	acc    bytes.Buffer
	failed bool
	log    []wlog
}

func (w *faultyWriter) err() error {
	if w.errv != nil {
		return w.errv
	}
	return errInjected
}

func (w *faultyWriter) Write(p []byte) (int, error) {
	if w.mode == "budget" {
		// never latches: a call fails exactly when it does not fit
		if w.acc.Len()+len(p) <= w.k {
			w.acc.Write(p)
			w.log = append(w.log, wlog{len(p), len(p), false})
			return len(p), nil
		}
		w.failed = true
		w.log = append(w.log, wlog{len(p), 0, true})
		return 0, w.err()
	}
	if w.failed && (w.mode == "transientErr" || w.mode == "transientShort" || w.mode == "transientFull") {
		// the destination has recovered: one call failed, everything afterwards is taken
		w.acc.Write(p)
		w.log = append(w.log, wlog{len(p), len(p), false})
		return len(p), nil
	}
	if w.failed {
		w.log = append(w.log, wlog{len(p), 0, true})
		return 0, w.err()
	}
	if w.acc.Len()+len(p) <= w.k {
		w.acc.Write(p)
		w.log = append(w.log, wlog{len(p), len(p), false})
		return len(p), nil
	}
	w.failed = true
	n := 0
	if w.mode == "fullErr" || w.mode == "transientFull" {
		// the offending call is taken completely and reported as failed all the same (n == len(p) with an error)
		w.acc.Write(p)
		w.log = append(w.log, wlog{len(p), len(p), true})
		return len(p), w.err()
	}
	if w.mode == "shortWrite" || w.mode == "transientShort" {
		n = w.k - w.acc.Len()
		w.acc.Write(p[:n])
	}
	w.log = append(w.log, wlog{len(p), n, true})
	return n, w.err()
}

// faultyRF additionally implements io.ReaderFrom (by reading in pieces and calling Write).
type faultyRF struct{ faultyWriter }

func (w *faultyRF) ReadFrom(r io.Reader) (int64, error) {
	buf := make([]byte, 37)
	var total int64
	for {
		n, err := r.Read(buf)
		if n > 0 {
			m, werr := w.Write(buf[:n])
			total += int64(m)
			if werr != nil {
				return total, werr
			}
		}
		if err == io.EOF {
			return total, nil
		}
		if err != nil {
			return total, err
		}
	}
}

type serializer struct {
	name string
	run  func(w io.Writer) (int64, bool, error) // count (if any), hasCount, err
}

func wfSerializers(r *rand.Rand) []serializer {
	var ss []serializer
	// bundles
	mkBundle := func(ver bversion.Version, withSigs, variants bool) *bundle.Bundle {
		b := &bundle.Bundle{Version: ver}
		pu, _ := url.Parse("https://a.example/")
		b.PrimaryURL = pu
		for i, us := range []string{"https://a.example/", "https://a.example/style.css"} {
			u, _ := url.Parse(us)
			h := http.Header{}
			h.Add("Content-Type", "text/html")
			h.Add("X-N", fmt.Sprint(i))
			b.Exchanges = append(b.Exchanges, &bundle.Exchange{Request: bundle.Request{URL: u}, Response: bundle.Response{Status: 200, Header: h, Body: randBytes(r, 30+i*200)}})
		}
		if variants && ver == bversion.VersionB1 {
			u, _ := url.Parse("https://a.example/v")
			for _, l := range []string{"en", "fr"} {
				h := http.Header{}
				h.Add("Variants", "Accept-Language;en;fr")
				h.Add("Variant-Key", l)
				b.Exchanges = append(b.Exchanges, &bundle.Exchange{Request: bundle.Request{URL: u}, Response: bundle.Response{Status: 200, Header: h, Body: []byte("hello " + l)}})
			}
			mu, _ := url.Parse("https://a.example/manifest.json")
			b.ManifestURL = mu
		}
		if withSigs {
			s := &bsigner{"s1", []*keyCert{newKeyCert("p256", []string{"a.example"}, 0)}, map[string]bool{"a.example": true}}
			var signed []map[string]interface{}
			nb, err := signStep(b, s, time.Unix(1600000000, 0), time.Hour, 16, &signed)
			if err != nil {
				panic(err)
			}
			b = nb
		}
		return b
	}
	for _, bb := range []struct {
		name string
		b    *bundle.Bundle
	}{{"bundle b2", mkBundle(bversion.VersionB2, false, false)}, {"bundle b1 variants manifest", mkBundle(bversion.VersionB1, false, true)}, {"bundle b2 signatures", mkBundle(bversion.VersionB2, true, false)},
		// the optional parts absent (what gen-bundle writes without -primaryURL): failure paths must not rely on them
		{"bundle b2 bare", func() *bundle.Bundle {
			b := mkBundle(bversion.VersionB2, false, false)
			b.PrimaryURL, b.ManifestURL, b.Signatures = nil, nil, nil
			return b
		}()},
		{"bundle b2 empty", &bundle.Bundle{Version: bversion.VersionB2}}} {
		b := bb.b
		ss = append(ss, serializer{bb.name, func(w io.Writer) (int64, bool, error) { n, err := b.WriteTo(w); return n, true, err }})
	}
	// signed exchanges
	kc := newKeyCert("p256", nil, 0)
	for _, ver := range version.AllVersions {
		sp := baseSpec(r, ver)
		se := buildSigned(sp, kc)
		e, signer := se.e, se.signer
		ss = append(ss, serializer{"Exchange.Write " + string(ver), func(w io.Writer) (int64, bool, error) { return 0, false, e.Write(w) }})
		ss = append(ss, serializer{"DumpExchangeHeaders " + string(ver), func(w io.Writer) (int64, bool, error) { return 0, false, e.DumpExchangeHeaders(w) }})
		ss = append(ss, serializer{"DumpSignedMessage " + string(ver), func(w io.Writer) (int64, bool, error) { return 0, false, e.DumpSignedMessage(w, signer) }})
		// the degenerate artefact of the family: no payload bytes at all (not even an MI header), no request headers
		sp0 := baseSpec(r, ver)
		sp0.payload, sp0.skipMI, sp0.reqh = nil, true, http.Header{}
		e0 := buildSigned(sp0, kc).e
		ss = append(ss, serializer{"Exchange.Write bodiless " + string(ver), func(w io.Writer) (int64, bool, error) { return 0, false, e0.Write(w) }})
	}
	// cert chain
	s3 := &bsigner{"s3", []*keyCert{newKeyCert("p256", nil, 0), newKeyCert("p384", nil, 40)}, nil}
	ch := s3.chain()
	ch[0].SCTList = []byte("sct-list")
	ss = append(ss, serializer{"CertChain.Write", func(w io.Writer) (int64, bool, error) { return 0, false, certurl.CertChain(ch).Write(w) }})
	// MI
	payload := randBytes(r, 70)
	for _, enc := range []mice.Encoding{mice.Draft02Encoding, mice.Draft03Encoding} {
		enc := enc
		ss = append(ss, serializer{"mice.Encode " + string(enc), func(w io.Writer) (int64, bool, error) { _, err := enc.Encode(w, payload, 16); return 0, false, err }})
	}
	// many records: code paths that depend on the NUMBER of records (buffering, batching) are taken only by large bodies
	manyRec := randBytes(r, 520)
	ss = append(ss, serializer{"mice.Encode 520 records", func(w io.Writer) (int64, bool, error) {
		_, err := mice.Draft03Encoding.Encode(w, manyRec, 1)
		return 0, false, err
	}})
	ss = append(ss, serializer{"mice.Encode empty draft2", func(w io.Writer) (int64, bool, error) {
		_, err := mice.Draft02Encoding.Encode(w, nil, 16)
		return 0, false, err
	}})
	// CBOR encoder methods
	big := randBytes(r, 300)
	ss = append(ss, serializer{"cbor.EncodeUint", func(w io.Writer) (int64, bool, error) {
		return 0, false, verifapi.NewCborEncoder(w).EncodeUint(1 << 40)
	}})
	ss = append(ss, serializer{"cbor.EncodeInt", func(w io.Writer) (int64, bool, error) { return 0, false, verifapi.NewCborEncoder(w).EncodeInt(-70000) }})
	ss = append(ss, serializer{"cbor.EncodeByteString", func(w io.Writer) (int64, bool, error) {
		return 0, false, verifapi.NewCborEncoder(w).EncodeByteString(big)
	}})
	ss = append(ss, serializer{"cbor.EncodeTextString", func(w io.Writer) (int64, bool, error) {
		return 0, false, verifapi.NewCborEncoder(w).EncodeTextString("hello, world: a text string longer than 23 bytes")
	}})
	ss = append(ss, serializer{"cbor.EncodeArrayHeader", func(w io.Writer) (int64, bool, error) {
		return 0, false, verifapi.NewCborEncoder(w).EncodeArrayHeader(70000)
	}})
	ss = append(ss, serializer{"cbor.EncodeBool", func(w io.Writer) (int64, bool, error) { return 0, false, verifapi.NewCborEncoder(w).EncodeBool(true) }})
	ss = append(ss, serializer{"cbor.EncodeMap", func(w io.Writer) (int64, bool, error) {
		var mes []*verifapi.CborMapEntryEncoder
		for _, k := range []string{"zeta", "a", "mm"} {
			k := k
			mes = append(mes, verifapi.GenerateCborMapEntry(func(ke, ve *verifapi.CborEncoder) {
				ke.EncodeTextString(k)
				ve.EncodeByteString([]byte("value-" + k))
			}))
		}
		return 0, false, verifapi.NewCborEncoder(w).EncodeMap(mes)
	}})
	return ss
}

// wf-run <tier>: C19. Every failure position x 2 delivery modes x destination kinds for every serializer.
func wfRun(args []string) error {
	thorough := len(args) > 0 && args[0] == "thorough"
	r := rand.New(rand.NewSource(seed()))
	id := 0
	only := ""
	if len(args) > 1 {
		only = args[1]
	}
	for _, s := range wfSerializers(r) {
		if only != "" && !strings.Contains(s.name, only) {
			continue
		}
		var ctl bytes.Buffer
		if _, _, err := s.run(&ctl); err != nil {
			return fmt.Errorf("control run of %s failed: %v", s.name, err)
		}
		O := ctl.Bytes()
		for k := 0; k <= len(O); k++ {
			if !thorough && len(O) > 1500 && k > 64 && k < len(O)-64 && k%3 != 0 {
				continue
			}
			if len(O) > 8000 && k > 16 && k < len(O)-16 && k%(len(O)/24) != 0 && !(thorough && k%97 == 0) {
				continue // large outputs: both ends and evenly spaced positions
			}
			// which error value the destination returns: one (rotating) in the middle, every kind near both ends of the output
			errIdx := []int{(k + len(O)) % len(faultErrs)}
			if k <= 12 || k >= len(O)-12 {
				errIdx = []int{0, 1, 2, 3, 4, 5, 6}
			}
			for _, mode := range []string{"errAtCall", "shortWrite", "transientErr", "transientShort", "budget", "fullErr", "transientFull"} {
				for _, destE := range []string{"norf", "rf", "cw"} {
					for _, ei := range errIdx {
						dest := destE
						if mode != "errAtCall" && mode != "shortWrite" && ei != errIdx[0] && !(ei >= 5 && (mode == "transientShort" || mode == "transientErr")) {
							continue // (the temporary kinds matter most where the destination does recover)
						}
						if dest == "rf" && !(len(s.name) > 6 && s.name[:6] == "bundle") && k%4 != 0 {
							continue // io.ReaderFrom only matters where CountingWriter may take that path
						}
						if dest == "cw" && (!(len(s.name) > 6 && s.name[:6] == "bundle") || (k%3 != 0 && k > 12 && k < len(O)-12)) {
							continue // a byte meter of the caller's only concerns the serializer that returns a count
						}
						id++
						var fw *faultyWriter
						var w io.Writer
						if dest == "cw" {
							// the caller's own byte meter (a *bundle.CountingWriter that has already counted a prefix written
							// through it, e.g. an integrity block in front of the bundle) handed to the serializer
							fw = &faultyWriter{k: 1 << 30, mode: mode, errv: faultErrs[ei]}
							cw := bundle.NewCountingWriter(fw)
							cw.Write([]byte("57 bytes that went through the same meter before the bundle"))
							fw.acc.Reset()
							fw.log, fw.k = nil, k
							w = cw
						} else if dest == "rf" {
							rf := &faultyRF{faultyWriter{k: k, mode: mode, errv: faultErrs[ei]}}
							fw, w = &rf.faultyWriter, rf
						} else {
							fw = &faultyWriter{k: k, mode: mode, errv: faultErrs[ei]}
							w = fw
						}
						ev := map[string]interface{}{"case": fmt.Sprintf("w%d", id), "kind": "run", "ser": s.name, "k": k, "mode": mode, "dest": dest, "O": ints(O), "panic": false}
						var count int64 = -1
						var rerr error
						func() {
							defer func() {
								if rec := recover(); rec != nil {
									ev["panic"] = true
									rerr = errors.New("panic")
								}
							}()
							c, has, err := s.run(w)
							rerr = err
							if has {
								count = c
							}
						}()
						if fw.log == nil {
							fw.log = []wlog{}
						}
						ev["writes"], ev["accepted"], ev["reterr"], ev["count"] = fw.log, ints(fw.acc.Bytes()), rerr != nil, count
						emit(ev)
					}
				}
			}
		}
	}
	if only != "" {
		return nil
	}
	// CountingWriter as a component
	type src struct {
		name string
		mk   func(b []byte) io.Reader
	}
	srcs := []src{{"bytes.Reader (WriterTo)", func(b []byte) io.Reader { return bytes.NewReader(b) }},
		{"plain reader", func(b []byte) io.Reader { return &countingSrc{b: b, mode: "rand", r: r} }}}
	for _, destKind := range []string{"norf", "rf"} {
		for _, sc := range srcs {
			for _, n := range []int{0, 1, 100, 32767, 32768, 32769, 40000, 65536, 100000} { // around the 32 KiB copy buffer
				id++
				var fw *faultyWriter
				var w io.Writer
				if destKind == "rf" {
					rf := &faultyRF{faultyWriter{k: 1 << 30, mode: "errAtCall"}}
					fw, w = &rf.faultyWriter, rf
				} else {
					fw = &faultyWriter{k: 1 << 30, mode: "errAtCall"}
					w = fw
				}
				cw := bundle.NewCountingWriter(w)
				calls := []map[string]interface{}{}
				d1 := randBytes(r, 10)
				before := fw.acc.Len()
				nw, err := cw.Write(d1)
				calls = append(calls, map[string]interface{}{"op": "write", "data": ints(d1), "n": nw, "err": err != nil, "written": cw.Written, "accepted": fw.acc.Len() - before, "desterr": false})
				d2 := randBytes(r, n)
				before = fw.acc.Len()
				nr, err := cw.ReadFrom(sc.mk(d2))
				calls = append(calls, map[string]interface{}{"op": "readfrom", "data": ints(d2), "n": nr, "err": err != nil, "written": cw.Written, "accepted": fw.acc.Len() - before, "desterr": false})
				d3 := randBytes(r, 5)
				before = fw.acc.Len()
				nw, err = cw.Write(d3)
				calls = append(calls, map[string]interface{}{"op": "write", "data": ints(d3), "n": nw, "err": err != nil, "written": cw.Written, "accepted": fw.acc.Len() - before, "desterr": false})
				emit(map[string]interface{}{"case": fmt.Sprintf("cw%d", id), "kind": "cw", "dest": destKind, "src": sc.name, "calls": calls})
			}
		}
	}
	return nil
}

func init() { register("wf-run", wfRun) }
