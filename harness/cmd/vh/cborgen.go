package main

import (
	"bytes"
	"math/rand"
	"sort"
	"strconv"
	"time"

	"github.com/WICG/webpackage/go/verifapi"
)

// A CBOR value tree in the subset {uint, bstr, tstr, array, map} used to generate
// test inputs. Encoding valid trees is done by the REAL encoder; the harness-side
// encoder below exists only to produce deliberately damaged encodings (it is a
// generator, never an oracle: verdicts on its output come from the TLA+ spec).
type cnode struct {
	mt   int // 0,2,3,4,5
	n    uint64
	data []byte
	kids []*cnode // map: k0,v0,k1,v1...
}

var boundaryU64 = []uint64{0, 1, 23, 24, 255, 256, 65535, 65536, 1<<32 - 1, 1 << 32, 1<<63 - 1, 1 << 63, 1<<64 - 1}

func genNode(r *rand.Rand, depth int) *cnode {
	k := r.Intn(10)
	if depth <= 0 && k >= 6 {
		k = r.Intn(6)
	}
	switch {
	case k < 2:
		if r.Intn(2) == 0 {
			return &cnode{mt: 0, n: boundaryU64[r.Intn(len(boundaryU64))]}
		}
		return &cnode{mt: 0, n: r.Uint64() >> uint(r.Intn(64))}
	case k < 4:
		return &cnode{mt: 2, data: randBytes(r, []int{0, 1, 2, 23, 24, 30}[r.Intn(6)])}
	case k < 6:
		l := []int{0, 1, 3, 23, 24}[r.Intn(5)]
		b := make([]byte, l)
		for i := range b {
			b[i] = byte('a' + r.Intn(26))
		}
		return &cnode{mt: 3, data: b}
	case k < 8:
		n := r.Intn(4)
		nd := &cnode{mt: 4}
		for i := 0; i < n; i++ {
			nd.kids = append(nd.kids, genNode(r, depth-1))
		}
		return nd
	default:
		n := r.Intn(4)
		nd := &cnode{mt: 5}
		seen := map[string]bool{}
		for i := 0; i < n; i++ {
			k := genNode(r, depth-2)
			kb := string(encodeOwn(k, nil))
			if seen[kb] {
				continue
			}
			seen[kb] = true
			nd.kids = append(nd.kids, k, genNode(r, depth-1))
		}
		return nd
	}
}

func randBytes(r *rand.Rand, n int) []byte {
	b := make([]byte, n)
	r.Read(b)
	return b
}

// encodeReal serialises the tree with the repository's encoder.
func encodeReal(e *verifapi.CborEncoder, nd *cnode) error {
	switch nd.mt {
	case 0:
		return e.EncodeUint(nd.n)
	case 2:
		return e.EncodeByteString(nd.data)
	case 3:
		return e.EncodeTextString(string(nd.data))
	case 4:
		if err := e.EncodeArrayHeader(len(nd.kids)); err != nil {
			return err
		}
		for _, k := range nd.kids {
			if err := encodeReal(e, k); err != nil {
				return err
			}
		}
		return nil
	default:
		var mes []*verifapi.CborMapEntryEncoder
		var ferr error
		for i := 0; i+1 < len(nd.kids); i += 2 {
			k, v := nd.kids[i], nd.kids[i+1]
			mes = append(mes, verifapi.GenerateCborMapEntry(func(ke, ve *verifapi.CborEncoder) {
				if err := encodeReal(ke, k); err != nil {
					ferr = err
				}
				if err := encodeReal(ve, v); err != nil {
					ferr = err
				}
			}))
		}
		if ferr != nil {
			return ferr
		}
		return e.EncodeMap(mes)
	}
}

// mutation instructions for the harness-side encoder
type cmut struct {
	kind   string // "", lengthen, len, swap, dup
	target int    // index of the head (pre-order) or of the map
	width  int    // lengthen: follow-byte count 1,2,4,8
	val    uint64 // len: declared value
	hcount int
	mcount int
	hit    bool
}

func ownHead(mt int, n uint64, width int) []byte {
	if width == 0 {
		switch {
		case n < 24:
			return []byte{byte(mt<<5) | byte(n)}
		case n < 1<<8:
			width = 1
		case n < 1<<16:
			width = 2
		case n < 1<<32:
			width = 4
		default:
			width = 8
		}
	}
	b := make([]byte, 1+width)
	b[0] = byte(mt<<5) | map[int]byte{1: 24, 2: 25, 4: 26, 8: 27}[width]
	for i := width; i >= 1; i-- {
		b[i] = byte(n)
		n >>= 8
	}
	return b
}

func encodeOwn(nd *cnode, m *cmut) []byte {
	head := func(mt int, n uint64) []byte {
		w := 0
		if m != nil {
			idx := m.hcount
			m.hcount++
			if idx == m.target {
				switch m.kind {
				case "lengthen":
					// only if the wider form can hold it and is really longer
					need := 0
					switch {
					case n < 24:
						need = 0
					case n < 1<<8:
						need = 1
					case n < 1<<16:
						need = 2
					case n < 1<<32:
						need = 4
					default:
						need = 8
					}
					if m.width > need {
						w = m.width
						m.hit = true
					}
				case "len":
					if m.val != n {
						n = m.val
						m.hit = true
					}
				}
			}
		}
		return ownHead(mt, n, w)
	}
	switch nd.mt {
	case 0:
		return head(0, nd.n)
	case 2, 3:
		return append(head(nd.mt, uint64(len(nd.data))), nd.data...)
	case 4:
		b := head(4, uint64(len(nd.kids)))
		for _, k := range nd.kids {
			b = append(b, encodeOwn(k, m)...)
		}
		return b
	default:
		b := head(5, uint64(len(nd.kids)/2))
		type ent struct{ k, v []byte }
		var es []ent
		for i := 0; i+1 < len(nd.kids); i += 2 {
			es = append(es, ent{encodeOwn(nd.kids[i], m), encodeOwn(nd.kids[i+1], m)})
		}
		sort.SliceStable(es, func(i, j int) bool { return bytes.Compare(es[i].k, es[j].k) < 0 })
		if m != nil {
			idx := m.mcount
			m.mcount++
			if idx == m.target && len(es) >= 1 {
				switch m.kind {
				case "swap":
					if len(es) >= 2 {
						i := int(m.val) % (len(es) - 1)
						es[i], es[i+1] = es[i+1], es[i]
						m.hit = true
					}
				case "dup":
					i := int(m.val) % len(es)
					es[(i+1)%len(es)] = es[i]
					if len(es) >= 2 {
						m.hit = true
					}
				}
			}
		}
		for _, e := range es {
			b = append(b, e.k...)
			b = append(b, e.v...)
		}
		return b
	}
}

// cbordet-gen N: N random nested items, each encoded by the real encoder (valid) and in
// several damaged variants; prints {"case","in","verdict","mut","valid"} lines.
func cbordetGen(args []string) error {
	n, _ := strconv.Atoi(args[0])
	r := rand.New(rand.NewSource(seed()))
	id := 0
	put := func(in []byte, mut string, fromEncoder bool) {
		id++
		emit(map[string]interface{}{"case": id, "in": ints(in), "verdict": detVerdict(in, 3*time.Second), "mut": mut, "enc": fromEncoder})
	}
	// deep nesting (the subset has no depth limit): d arrays / one-pair maps around a leaf, also mixed, also a bad leaf
	for _, d := range []int{1, 2, 15, 16, 17, 31, 32, 33, 63, 64, 65, 66, 127, 128, 129, 300} {
		for _, shape := range []string{"arr", "map", "mixed"} {
			var b []byte
			for k := 0; k < d; k++ {
				if shape == "arr" || (shape == "mixed" && k%2 == 0) {
					b = append(b, 0x81)
				} else {
					b = append(b, 0xa1, 0x00)
				}
			}
			put(append(append([]byte{}, b...), 0x00), "deep/"+shape, false)
			put(append(append([]byte{}, b...), 0x18, 0x05), "deep/"+shape+"/badleaf", false)
		}
	}
	// keys a cheap fingerprint cannot tell apart (twins.go): two distinct keys stay two keys, in order, wherever they occur
	for _, tw := range fingerprintTwins() {
		for _, mt := range []int{2, 3} {
			k := func(s string) []byte { return append(ownHead(mt, uint64(len(s)), 0), s...) }
			lo, hi := tw.A, tw.B
			if lo > hi {
				lo, hi = hi, lo
			}
			cat := func(parts ...[]byte) []byte {
				var o []byte
				for _, p := range parts {
					o = append(o, p...)
				}
				return o
			}
			m2 := cat([]byte{0xa2}, k(lo), []byte{0x00}, k(hi), []byte{0x01})
			put(m2, "twins/"+tw.Kind+"/map", false)
			put(cat([]byte{0xa2}, k(hi), []byte{0x00}, k(lo), []byte{0x01}), "twins/"+tw.Kind+"/map reversed", false)
			put(cat([]byte{0xa2}, k(lo), []byte{0x00}, k(lo), []byte{0x01}), "twins/"+tw.Kind+"/real duplicate", false)
			put(cat([]byte{0xa3, 0x00, 0x00}, k(lo), []byte{0x00}, k(hi), []byte{0x01}), "twins/"+tw.Kind+"/map3", false)
			put(cat([]byte{0x82}, m2, m2), "twins/"+tw.Kind+"/two maps in an array", false)
			put(cat([]byte{0xa1, 0x00}, m2, []byte{0x82}, k(lo), k(hi)), "twins/"+tw.Kind+"/nested, then a sequence item", false)
			// through the real encoder as well
			var buf bytes.Buffer
			e := verifapi.NewCborEncoder(&buf)
			nd := &cnode{mt: 5, kids: []*cnode{{mt: mt, data: []byte(tw.A)}, {mt: 0, n: 0}, {mt: mt, data: []byte(tw.B)}, {mt: 0, n: 1}}}
			if err := encodeReal(e, nd); err == nil {
				put(buf.Bytes(), "twins/"+tw.Kind+"/encoder", true)
			} else {
				put([]byte{}, "twins/"+tw.Kind+"/encoder refused: "+err.Error(), false)
			}
		}
	}
	for i := 0; i < n; i++ {
		// a CBOR sequence of 1..2 items
		var seq []*cnode
		for j := 0; j <= r.Intn(2); j++ {
			seq = append(seq, genNode(r, 3))
		}
		var buf bytes.Buffer
		e := verifapi.NewCborEncoder(&buf)
		ok := true
		for _, nd := range seq {
			if err := encodeReal(e, nd); err != nil {
				ok = false
			}
		}
		if ok {
			put(buf.Bytes(), "none", true)
		}
		top := &cnode{mt: 4, kids: seq} // wrapper to reuse encodeOwn; strip its head afterwards
		full := encodeOwn(top, nil)
		hl := len(ownHead(4, uint64(len(seq)), 0))
		base := full[hl:]
		// count heads and maps
		cnt := &cmut{target: -1}
		encodeOwn(top, cnt)
		for _, kind := range []string{"lengthen", "len", "swap", "dup"} {
			for rep := 0; rep < 2; rep++ {
				m := &cmut{kind: kind}
				switch kind {
				case "lengthen":
					m.target = 1 + r.Intn(cnt.hcount-1)
					m.width = []int{1, 2, 4, 8}[r.Intn(4)]
				case "len":
					m.target = 1 + r.Intn(cnt.hcount-1)
					m.val = []uint64{0, 1, 2, 23, 24, 255, 256, 1 << 31, 1<<32 - 1, 1 << 32, 1 << 62, 1<<63 - 1, 1 << 63, 1<<63 + 1, 1<<64 - 9, 1<<64 - 2, 1<<64 - 1}[r.Intn(17)]
				default:
					if cnt.mcount == 0 {
						continue
					}
					m.target = r.Intn(cnt.mcount)
					m.val = uint64(r.Intn(8))
				}
				b := encodeOwn(top, m)
				if !m.hit {
					continue
				}
				put(b[hl:], kind, false)
			}
		}
		// truncation
		if len(base) > 1 {
			put(base[:1+r.Intn(len(base)-1)], "trunc", false)
		}
	}
	return nil
}

func init() { register("cbordet-gen", cbordetGen) }
