package main

// Pairs of distinct, equally long printable strings that a cheap fingerprint cannot tell apart (CRC-32 in three
// polynomials, Adler-32, FNV-1 / FNV-1a 32, byte sum, byte xor, equal first / last four bytes).  Code that
// indexes, deduplicates or compares keys through such a fingerprint instead of through the bytes treats them as
// one key; the generators use them as map keys, header names and attribute names wherever keys occur.

import (
	"fmt"
	"hash/adler32"
	"hash/crc32"
	"hash/fnv"
	"sync"
)

type twin struct {
	Kind string
	A, B string
}

var (
	twinsOnce sync.Once
	twinsList []twin
)

func fingerprintTwins() []twin {
	twinsOnce.Do(func() {
		fns := []struct {
			name string
			f    func([]byte) uint32
		}{
			{"crc32-ieee", crc32.ChecksumIEEE},
			{"crc32-castagnoli", func(b []byte) uint32 { return crc32.Checksum(b, crc32.MakeTable(crc32.Castagnoli)) }},
			{"crc32-koopman", func(b []byte) uint32 { return crc32.Checksum(b, crc32.MakeTable(crc32.Koopman)) }},
			{"adler32", adler32.Checksum},
			{"fnv32", func(b []byte) uint32 { h := fnv.New32(); h.Write(b); return h.Sum32() }},
			{"fnv32a", func(b []byte) uint32 { h := fnv.New32a(); h.Write(b); return h.Sum32() }},
			{"java-hashcode", func(b []byte) uint32 {
				var h uint32
				for _, c := range b {
					h = 31*h + uint32(c)
				}
				return h
			}},
		}
		for _, fn := range fns {
			seen := map[uint32]string{}
			found := 0
			for i := 0; i < 3000000 && found < 2; i++ {
				s := fmt.Sprintf("k%07x", i*2654435+17)
				s = s[:8]
				h := fn.f([]byte(s))
				if o, ok := seen[h]; ok && o != s {
					twinsList = append(twinsList, twin{fn.name, o, s})
					found++
					continue
				}
				seen[h] = s
			}
		}
		twinsList = append(twinsList,
			twin{"crc32-ieee", "buckeroo", "plumless"},
			twin{"byte-sum", "abcdefgh", "abcdefhg"}, twin{"byte-xor", "aabbccdd", "eeffgghh"},
			twin{"first-4", "sameAAAA", "sameBBBB"}, twin{"last-4", "AAAAsame", "BBBBsame"}, twin{"ends", "aXXXXXXz", "aYYYYYYz"})
	})
	return twinsList
}

func twinsCmd(args []string) error {
	for _, t := range fingerprintTwins() {
		emit(map[string]interface{}{"kind": t.Kind, "a": t.A, "b": t.B})
	}
	return nil
}

func init() { register("twins", twinsCmd) }
