package main

import (
	"bufio"
	"os"
	"strconv"
	"strings"
)

func eachLine(f func(line []byte) error) error {
	sc := bufio.NewScanner(os.Stdin)
	sc.Buffer(make([]byte, 1<<20), 1<<30)
	for sc.Scan() {
		if len(sc.Bytes()) == 0 {
			continue
		}
		if err := f(sc.Bytes()); err != nil {
			return err
		}
	}
	return sc.Err()
}

// Crash isolation: before a risky call the harness announces its running number (flushed). If the process dies
// (a fatal runtime error such as out-of-memory cannot be recovered), the driver re-runs with VERIF_SKIP listing the
// numbers that killed it; those calls are then not made but reported as "crash".
var skipSet map[int]bool

func announce(n int) bool {
	if skipSet == nil {
		skipSet = map[int]bool{}
		for _, f := range strings.Split(os.Getenv("VERIF_SKIP"), ",") {
			if v, err := strconv.Atoi(strings.TrimSpace(f)); err == nil {
				skipSet[v] = true
			}
		}
	}
	if skipSet[n] {
		return false
	}
	out.WriteString("{\"begin\":" + strconv.Itoa(n) + "}\n")
	out.Flush()
	return true
}
