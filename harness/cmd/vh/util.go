package main

import (
	"bufio"
	"os"
)

func eachLine(f func(line []byte) error) error {
	sc := bufio.NewScanner(os.Stdin)
	sc.Buffer(make([]byte, 1<<20), 1<<30)
	for sc.Scan() {
		if len(sc.Bytes()) == 0 {
			continue
		}
		if err := f(sc.Bytes()); err != nil {
			return err
		}
	}
	return sc.Err()
}
