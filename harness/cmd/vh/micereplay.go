package main

import (
	"crypto/sha256"
	"encoding/json"
	"math/rand"
	"strconv"
)

// Abstract token of tla/MC_Mice.tla.
type mtok struct {
	I int               `json:"i"`
	K string            `json:"k"`
	V []json.RawMessage `json:"v"`
}

type miceVec struct {
	Draft   string `json:"draft"`
	Payload []int  `json:"payload"`
	Hrs     int    `json:"hrs"`
	Stream  []mtok `json:"stream"`
	Res     string `json:"res"`
	Ndel    int    `json:"ndel"`
	HW      int    `json:"hw"`
	Max     int    `json:"max"`
}

func block(n, k int) []byte {
	b := make([]byte, k)
	for i := range b {
		b[i] = byte(n)
	}
	return b
}

// concTok turns an abstract token into bytes (Appendix C of DESIGN.md): data symbol n -> K bytes
// of value n (so flag-valued payload bytes stay flag-valued), size field n -> BE8(n*K), hash slice
// j of preimage p -> bytes [(j-1)K, jK) of SHA-256(conc(p)), where the last symbol of a preimage
// is the one-byte flag.
func concTok(t mtok, k int) []byte {
	switch t.K {
	case "d":
		var n int
		json.Unmarshal(t.V[0], &n)
		return block(n, k)
	case "z":
		var n int
		json.Unmarshal(t.V[0], &n)
		return u64bytes(uint64(n * k))
	default:
		var pre []byte
		for i, raw := range t.V {
			var pt mtok
			if err := json.Unmarshal(raw, &pt); err != nil {
				panic(err)
			}
			if i == len(t.V)-1 {
				var n int
				json.Unmarshal(pt.V[0], &n)
				pre = append(pre, byte(n))
			} else {
				pre = append(pre, concTok(pt, k)...)
			}
		}
		h := sha256.Sum256(pre)
		return h[(t.I-1)*k : t.I*k]
	}
}

// mice-replay: stdin = VEC lines of MC_Mice; runs the real decoder on the concretised stream
// against the digest of the concretised honest payload; logs a "dec" event extended with the
// abstract prediction.
func miceReplay(args []string) error {
	r := rand.New(rand.NewSource(seed()))
	id := 0
	modes := []string{"whole", "one", "rand"}
	return eachLine(func(line []byte) error {
		var v miceVec
		if err := json.Unmarshal(line, &v); err != nil {
			return err
		}
		id++
		k := 32 / v.HW
		var payload []byte
		for _, n := range v.Payload {
			payload = append(payload, block(n, k)...)
		}
		rs := v.Hrs * k
		// honest top-level proof by the drafts' definition
		var top [32]byte
		if len(payload) == 0 {
			top = sha256.Sum256([]byte{0})
		} else {
			nrec := (len(payload) + rs - 1) / rs
			var next []byte
			for i := nrec - 1; i >= 0; i-- {
				hi := (i + 1) * rs
				if hi > len(payload) {
					hi = len(payload)
				}
				pre := append([]byte{}, payload[i*rs:hi]...)
				if i == nrec-1 {
					pre = append(pre, 0)
				} else {
					pre = append(append(pre, next...), 1)
				}
				top = sha256.Sum256(pre)
				next = top[:]
			}
		}
		var stream []byte
		for _, t := range v.Stream {
			stream = append(stream, concTok(t, k)...)
		}
		cid := "mc" + strconv.Itoa(id)
		note := "abstract:" + v.Res + ":" + strconv.Itoa(v.Ndel*k)
		miDecEvent(cid, v.Draft, stdDigest(v.Draft, top[:]), stream, uint64(v.Max*k), modes[id%3], []int{1, k, 4096}[id%3], r, payload, true, note)
		return nil
	})
}

func init() { register("mice-replay", miceReplay) }
