package main

// Unrelated calls that FAIL, for the sequential histories of C18: serializations that are refused half-way (a request
// URL beyond the length field, a Signature header beyond its limit, header names that collide once lower-cased, a map
// with a repeated key, a chain that may not be written) or whose destination fails at some position.  What a failed
// call leaves behind in the process (pooled buffers, cached encodings, scratch state) must not show in the bytes of any
// later serialization.

import (
	"bytes"
	"math/rand"
	"strings"

	"github.com/WICG/webpackage/go/bundle"
	"github.com/WICG/webpackage/go/signedexchange/certurl"
	"github.com/WICG/webpackage/go/signedexchange/mice"
	"github.com/WICG/webpackage/go/signedexchange/version"
)

func failingCalls(r *rand.Rand) []func() {
	kc := newKeyCert("p256", []string{"example.com"}, 0)
	quiet := func(f func()) func() {
		return func() {
			defer func() { recover() }()
			f()
		}
	}
	var calls []func()
	for _, ver := range version.AllVersions {
		ver := ver
		mk := func(edit func(sp *sxSpec)) *signedEx {
			sp := baseSpec(r, ver)
			sp.resph.Set("Content-Type", "application/x-other")
			sp.resph.Set("X-Left-Behind", strings.Repeat("stale", 20))
			edit(sp)
			se := prepareEx(sp)
			if se.err == "" {
				signEx(se, sp, kc, nil)
			}
			return se
		}
		longURL := mk(func(sp *sxSpec) { sp.uri = "https://example.com/" + strings.Repeat("a", 70000) })
		calls = append(calls, quiet(func() { var b bytes.Buffer; longURL.e.Write(&b) }))
		longSig := mk(func(sp *sxSpec) {})
		longSig.e.SignatureHeaderValue = "l;sig=*" + strings.Repeat("A", 20000) + "*"
		calls = append(calls, quiet(func() { var b bytes.Buffer; longSig.e.Write(&b) }))
		collide := mk(func(sp *sxSpec) {})
		collide.e.ResponseHeaders["x-a"] = []string{"lower"}
		collide.e.ResponseHeaders["X-a"] = []string{"mixed"}
		calls = append(calls, quiet(func() { var b bytes.Buffer; collide.e.Write(&b) }), quiet(func() { var b bytes.Buffer; collide.e.DumpExchangeHeaders(&b) }))
		plain := mk(func(sp *sxSpec) {})
		for _, k := range []int{0, 3, 40, 120, 300} {
			for _, mode := range []string{"errAtCall", "shortWrite", "fullErr"} {
				k, mode := k, mode
				calls = append(calls, quiet(func() { plain.e.Write(&faultyWriter{k: k, mode: mode}) }))
			}
		}
	}
	// bundles: a repeated URL (refused), a destination failing inside every part
	for _, ver := range []string{"b1", "b2"} {
		in := emptyB()
		in.Ver = ver
		in.HasPrimary, in.Primary = true, ints([]byte("https://a.test/"))
		in.Exs = append(in.Exs, bex{URL: ints([]byte("https://a.test/")), Status: 200, Hdrs: []hent{{N: ints([]byte("x-left-behind")), Vs: [][]int{ints([]byte("stale"))}}}, Body: ints([]byte("one"))},
			bex{URL: ints([]byte("https://a.test/")), Status: 404, Hdrs: []hent{}, Body: ints([]byte("two"))})
		if dup, err := bundleOf(&in); err == nil {
			calls = append(calls, quiet(func() { var b bytes.Buffer; dup.WriteTo(&b) }))
		}
		in.Exs[1].URL = ints([]byte("https://a.test/second"))
		if ok, err := bundleOf(&in); err == nil {
			ok.Signatures = &bundle.Signatures{VouchedSubsets: []*bundle.VouchedSubset{{Authority: 0, Sig: []byte("stale sig"), Signed: []byte("stale signed")}}}
			for _, k := range []int{0, 9, 30, 60, 100, 150} {
				k := k
				calls = append(calls, quiet(func() { ok.WriteTo(&faultyWriter{k: k, mode: "errAtCall"}) }), quiet(func() { ok.WriteTo(&faultyWriter{k: k, mode: "transientErr"}) }))
			}
		}
	}
	// a chain that may not be written (no OCSP on the first element), and a good one into a failing destination
	bad := certurl.CertChain{&certurl.AugmentedCertificate{Cert: kc.certs[0]}}
	good := certurl.CertChain{&certurl.AugmentedCertificate{Cert: kc.certs[0], OCSPResponse: []byte("stale ocsp"), SCTList: []byte("stale sct")}}
	calls = append(calls, quiet(func() { var b bytes.Buffer; bad.Write(&b) }))
	for _, k := range []int{0, 5, 12, 100} {
		k := k
		calls = append(calls, quiet(func() { good.Write(&faultyWriter{k: k, mode: "errAtCall"}) }))
	}
	// MI encodings into a failing destination
	for _, enc := range []mice.Encoding{mice.Draft02Encoding, mice.Draft03Encoding} {
		enc := enc
		for _, k := range []int{0, 7, 8, 30, 60} {
			k := k
			calls = append(calls, quiet(func() { enc.Encode(&faultyWriter{k: k, mode: "errAtCall"}, bytes.Repeat([]byte("stale "), 20), 16) }))
		}
	}
	return calls
}
