// vh is the Go side of the /verif conformance harness. Each subcommand drives one
// component of /repo (built with -tags verif) and exchanges JSON lines with the
// Python driver / TLC trace specifications.
package main

import (
	_ "time/tzdata" // the checks run time-dependent families under several TZ values
	"bufio"
	"encoding/hex"
	"encoding/json"
	"fmt"
	"os"
	"strconv"
)

type cmdFn func(args []string) error

var commands = map[string]cmdFn{}

func register(name string, f cmdFn) { commands[name] = f }

var out *bufio.Writer

func emit(v interface{}) {
	b, err := json.Marshal(v)
	if err != nil {
		panic(err)
	}
	out.Write(b)
	out.WriteByte('\n')
}

// ints renders a byte string as a JSON array of numbers (what the TLA+ specs consume).
func ints(b []byte) []int {
	r := make([]int, len(b))
	for i, x := range b {
		r[i] = int(x)
	}
	return r
}

func unints(a []int) []byte {
	r := make([]byte, len(a))
	for i, x := range a {
		r[i] = byte(x)
	}
	return r
}

func hx(b []byte) string { return hex.EncodeToString(b) }
func unhx(s string) []byte {
	b, err := hex.DecodeString(s)
	if err != nil {
		panic(err)
	}
	return b
}

func seed() int64 {
	s, err := strconv.ParseInt(os.Getenv("VERIF_SEED"), 10, 64)
	if err != nil {
		return 1
	}
	return s
}

func main() {
	out = bufio.NewWriterSize(os.Stdout, 1<<20)
	defer out.Flush()
	if len(os.Args) < 2 {
		fmt.Fprintln(os.Stderr, "usage: vh <command> [args]")
		os.Exit(2)
	}
	f, ok := commands[os.Args[1]]
	if !ok {
		fmt.Fprintln(os.Stderr, "unknown command", os.Args[1])
		os.Exit(2)
	}
	if err := f(os.Args[2:]); err != nil {
		out.Flush()
		fmt.Fprintln(os.Stderr, "vh:", err)
		os.Exit(2)
	}
}
