package main

// huge-run <family>: instances of tens of MiB (tla/Trace_Huge.tla).  Facts are (want, got) pairs; `want`
// comes from the generated content and the formats' length arithmetic, never from the library.

import (
	"bytes"
	"crypto/sha256"
	"encoding/hex"
	"fmt"
	"io"
	"io/ioutil"
	"math/rand"
	"net/http"
	"net/url"
	"strings"

	"github.com/WICG/webpackage/go/bundle"
	bversion "github.com/WICG/webpackage/go/bundle/version"
	"github.com/WICG/webpackage/go/signedexchange/mice"
	"github.com/WICG/webpackage/go/verifapi"
)

type fact struct {
	Name string `json:"name"`
	Want string `json:"want"`
	Got  string `json:"got"`
}

func sha(b []byte) string { h := sha256.Sum256(b); return hex.EncodeToString(h[:]) }

func head8(mt int, n uint64) []byte { return ownHead(mt, n, 0) }

func hugeRun(args []string) error {
	fam := args[0]
	r := rand.New(rand.NewSource(seed()))
	id := 0
	out := func(what string, facts []fact) {
		id++
		emit(map[string]interface{}{"case": fmt.Sprintf("huge-%s-%d", fam, id), "what": what, "facts": facts})
	}
	f := func(name string, want, got interface{}) fact {
		return fact{name, fmt.Sprint(want), fmt.Sprint(got)}
	}
	sizes := []int{16<<20 - 1, 16 << 20, 16<<20 + 1, 17<<20 + 5}
	switch fam {
	case "cbordec":
		for _, mt := range []int{2, 3} {
			for _, n := range sizes {
				content := make([]byte, n)
				for i := range content {
					content[i] = byte('a' + (i*7+n)%26)
				}
				stream := append(append(head8(mt, uint64(n)), content...), 0x18, 0x2a) // followed by uint 42
				rd := bytes.NewReader(stream)
				d := verifapi.NewCborDecoder(rd)
				var v []byte
				var err error
				if mt == 2 {
					v, err = d.DecodeByteString()
				} else {
					var s string
					s, err = d.DecodeTextString()
					v = []byte(s)
				}
				nx, err2 := d.DecodeUint()
				out(fmt.Sprintf("decode a %d-byte string (major type %d) followed by uint 42", n, mt), []fact{f("error", false, err != nil), f("length", n, len(v)), f("content sha-256", sha(content), sha(v)),
					f("next item", "42 <nil>", fmt.Sprint(nx, err2)), f("bytes left", 0, rd.Len())})
				// the same head over half of the content: truncated
				rd2 := bytes.NewReader(stream[:len(stream)/2])
				d2 := verifapi.NewCborDecoder(rd2)
				if mt == 2 {
					_, err = d2.DecodeByteString()
				} else {
					_, err = d2.DecodeTextString()
				}
				out(fmt.Sprintf("decode a %d-byte string (major type %d) of which half is present", n, mt), []fact{f("error", true, err != nil)})
			}
		}
	case "cbordec2g":
		// the 32-bit boundary of a string length with all of the content really present: 2^31 bytes delivered by a source that
		// generates them on the fly (the input itself is never held in memory), followed by uint 42
		n := 1 << 31
		src := &patternSrc{head: append([]byte{0x5a, 0x80, 0x00, 0x00, 0x00}), n: n, tail: []byte{0x18, 0x2a}}
		d := verifapi.NewCborDecoder(src)
		v, err := d.DecodeByteString()
		nx, err2 := d.DecodeUint()
		want := sha256.New()
		for m := 0; m < n>>20; m++ {
			want.Write(patternBlocks[m%26])
		}
		got := sha256.Sum256(v)
		out("decode a 2^31-byte byte string (shortest head 5a 80 00 00 00) followed by uint 42", []fact{f("error", false, err != nil), f("length", n, len(v)),
			f("content sha-256", hex.EncodeToString(want.Sum(nil)), hex.EncodeToString(got[:])), f("next item", "42 <nil>", fmt.Sprint(nx, err2))})
	case "cborenc":
		for _, n := range sizes {
			content := randBytes(r, n)
			var buf bytes.Buffer
			e := verifapi.NewCborEncoder(&buf)
			err := e.EncodeByteString(content)
			err2 := e.EncodeUint(42)
			want := sha(append(append(head8(2, uint64(n)), content...), 0x18, 0x2a))
			out(fmt.Sprintf("encode a %d-byte byte string and uint 42", n), []fact{f("error", "<nil> <nil>", fmt.Sprint(err, err2)), f("output length", len(head8(2, uint64(n)))+n+2, buf.Len()), f("output sha-256", want, sha(buf.Bytes()))})
		}
	case "mice":
		for _, c := range [][2]int{{17<<20 + 5, 16384}, {5 << 20, 4096}, {3<<20 + 1, 100}} {
			payload := randBytes(r, c[0])
			for _, enc := range []mice.Encoding{mice.Draft02Encoding, mice.Draft03Encoding} {
				var st bytes.Buffer
				dg, err := enc.Encode(&st, payload, c[1])
				nrec := (c[0] + c[1] - 1) / c[1]
				dec, err2 := enc.NewDecoder(bytes.NewReader(st.Bytes()), dg, 16384)
				var got []byte
				var err3 error
				if err2 == nil {
					got, err3 = ioutil.ReadAll(dec)
				}
				out(fmt.Sprintf("MI %s: %d-byte payload in %d records of %d", enc, c[0], nrec, c[1]), []fact{f("encode error", false, err != nil),
					f("stream length", 8+c[0]+32*(nrec-1), st.Len()), f("decode errors", "<nil> <nil>", fmt.Sprint(err2, err3)), f("decoded length", c[0], len(got)), f("decoded sha-256", sha(payload), sha(got))})
			}
		}
	case "bundle", "bundlefault":
		for _, ver := range []bversion.Version{bversion.VersionB1, bversion.VersionB2} {
			for _, n := range []int{9<<20 + 123, 17<<20 + 5} {
				body := randBytes(r, n)
				b := &bundle.Bundle{Version: ver}
				u, _ := url.Parse("https://a.example/big")
				b.PrimaryURL = u
				u2, _ := url.Parse("https://a.example/small")
				b.Exchanges = []*bundle.Exchange{{Request: bundle.Request{URL: u}, Response: bundle.Response{Status: 200, Header: http.Header{"Content-Type": {"application/octet-stream"}}, Body: body}},
					{Request: bundle.Request{URL: u2}, Response: bundle.Response{Status: 200, Header: http.Header{"Content-Type": {"text/plain"}}, Body: []byte("small")}}}
				var ctl bytes.Buffer
				cnt, err := b.WriteTo(&ctl)
				O := ctl.Bytes()
				if fam == "bundle" {
					rb, rerr := bundle.Read(bytes.NewReader(O))
					facts := []fact{f("write error", false, err != nil), f("returned count", len(O), cnt), f("trailing length", len(O), int(beU64(O[len(O)-8:]))), f("read error", false, rerr != nil)}
					if rerr == nil {
						facts = append(facts, f("exchanges", 2, len(rb.Exchanges)))
						for _, e := range rb.Exchanges {
							if e.Request.URL.String() == u.String() {
								facts = append(facts, f("big body length", n, len(e.Response.Body)), f("big body sha-256", sha(body), sha(e.Response.Body)))
							}
						}
					}
					out(fmt.Sprintf("%s bundle with a %d-byte body: write, read", ver, n), facts)
					continue
				}
				// write faults inside the big section, at its 4 MiB marks, and at both ends
				for _, k := range []int{0, 1, 200, 4 << 20, 4<<20 + 1, 5 << 20, 8 << 20, 8<<20 + 109, len(O) - 9, len(O) - 1, len(O)} {
					for _, mode := range []string{"errAtCall", "shortWrite"} {
						fw := &faultyWriter{k: k, mode: mode}
						cnt, err := b.WriteTo(fw)
						acc := fw.acc.Bytes()
						pre := O
						if len(acc) <= len(O) {
							pre = O[:len(acc)]
						}
						out(fmt.Sprintf("%s bundle with a %d-byte body, destination fails after %d bytes (%s)", ver, n, k, mode), []fact{
							f("error returned", k < len(O), err != nil), f("accepted is a prefix of the output", sha(pre), sha(acc)), f("returned count = accepted", len(acc), cnt),
							f("complete when it fits", k < len(O) || len(acc) == len(O), true)})
					}
				}
			}
		}
	case "variants":
		// the cap on the number of possible keys of one URL's variant set (10000, inclusive) from both sides: 9999, 10000 and
		// 10001 possible keys, covered completely by ten representations that each list a tenth of the keys
		for _, sh := range [][2]int{{99, 101}, {100, 100}, {16, 625}, {73, 137}} {
			A, B := sh[0], sh[1]
			n := A * B
			var ax [2][]string
			for i := 0; i < A; i++ {
				ax[0] = append(ax[0], fmt.Sprintf("a%d", i))
			}
			for j := 0; j < B; j++ {
				ax[1] = append(ax[1], fmt.Sprintf("b%d", j))
			}
			variants := "Xa;" + strings.Join(ax[0], ";") + ", Xb;" + strings.Join(ax[1], ";")
			b := &bundle.Bundle{Version: bversion.VersionB1}
			u, _ := url.Parse("https://a.example/v")
			b.PrimaryURL = u
			bodies := map[string]bool{}
			reps := 10
			for e := 0; e < reps; e++ {
				var keys []string
				for i := e * A / reps; i < (e+1)*A/reps; i++ {
					for j := 0; j < B; j++ {
						keys = append(keys, ax[0][i]+";"+ax[1][j])
					}
				}
				if len(keys) == 0 {
					continue
				}
				body := fmt.Sprintf("representation %d of %dx%d", e, A, B)
				bodies[body] = true
				b.Exchanges = append(b.Exchanges, &bundle.Exchange{Request: bundle.Request{URL: u}, Response: bundle.Response{Status: 200,
					Header: http.Header{"Variants": {variants}, "Variant-Key": {strings.Join(keys, ", ")}}, Body: []byte(body)}})
			}
			var buf bytes.Buffer
			_, werr := func() (n int64, err error) {
				defer func() {
					if rec := recover(); rec != nil {
						err = fmt.Errorf("panic: %v", rec)
					}
				}()
				return b.WriteTo(&buf)
			}()
			facts := []fact{f("write refused", n > 10000, werr != nil)}
			if werr == nil {
				rb, rerr := bundle.Read(bytes.NewReader(buf.Bytes()))
				facts = append(facts, f("read error", false, rerr != nil))
				if rerr == nil {
					got := map[string]bool{}
					for _, e := range rb.Exchanges {
						got[string(e.Response.Body)] = true
					}
					miss := 0
					for k := range bodies {
						if !got[k] {
							miss++
						}
					}
					facts = append(facts, f("representations missing after read", 0, miss), f("foreign representations after read", 0, len(got)-(len(bodies)-miss)))
				}
			}
			out(fmt.Sprintf("b1 variant set with %d x %d = %d possible keys", A, B, n), facts)
		}
	default:
		return fmt.Errorf("unknown family %q", fam)
	}
	return nil
}

func beU64(b []byte) uint64 {
	var v uint64
	for _, c := range b {
		v = v<<8 | uint64(c)
	}
	return v
}

var _ = io.EOF

// the pattern: MiB number m holds block m % 26, block s = bytes 'a' + (j*7 + s) % 26
var patternBlocks = func() [][]byte {
	bs := make([][]byte, 26)
	for s := range bs {
		bs[s] = make([]byte, 1<<20)
		for j := range bs[s] {
			bs[s][j] = byte('a' + (j*7+s)%26)
		}
	}
	return bs
}()

// patternSrc delivers head, then n pattern bytes, then tail, generated on the fly
type patternSrc struct {
	head, tail []byte
	n, pos     int
}

func (s *patternSrc) Read(p []byte) (int, error) {
	total := len(s.head) + s.n + len(s.tail)
	if s.pos >= total {
		return 0, io.EOF
	}
	var k int
	switch {
	case s.pos < len(s.head):
		k = copy(p, s.head[s.pos:])
	case s.pos < len(s.head)+s.n:
		i := s.pos - len(s.head)
		blk := patternBlocks[(i>>20)%26][i&(1<<20-1):]
		if len(blk) > s.n-i {
			blk = blk[:s.n-i]
		}
		k = copy(p, blk)
	default:
		k = copy(p, s.tail[s.pos-len(s.head)-s.n:])
	}
	s.pos += k
	return k, nil
}

func init() { register("huge-run", hugeRun) }
