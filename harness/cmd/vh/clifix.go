package main

import (
	"crypto/ecdsa"
	"crypto/ed25519"
	"crypto/elliptic"
	"crypto/sha256"
	"crypto/x509"
	"crypto/x509/pkix"
	"encoding/asn1"
	"math/big"
	"net"
	"time"
	"encoding/pem"
	"io/ioutil"
	"os"
	"path/filepath"

	"github.com/youmark/pkcs8"
)

func writePEM(path, typ string, der []byte) error {
	return ioutil.WriteFile(path, pem.EncodeToMemory(&pem.Block{Type: typ, Bytes: der}), 0600)
}

// cli-fixtures <dir>: keys and certificates in every accepted PEM form, for the command-line pipelines of C20.
// Also logs (stdout) the DER of each leaf certificate and the raw Ed25519 public keys.
func cliFixtures(args []string) error {
	dir := args[0]
	if err := os.MkdirAll(dir, 0700); err != nil {
		return err
	}
	info := map[string]interface{}{}
	for _, curve := range []string{"p256", "p384"} {
		kc := newKeyCert(curve, []string{"example.com", "a.example"}, 0)
		ca := newKeyCert("p256", []string{"ca.example"}, 20)
		sec1, err := x509.MarshalECPrivateKey(kc.key)
		if err != nil {
			return err
		}
		p8, err := x509.MarshalPKCS8PrivateKey(kc.key)
		if err != nil {
			return err
		}
		writePEM(filepath.Join(dir, curve+"-sec1.key"), "EC PRIVATE KEY", sec1)
		writePEM(filepath.Join(dir, curve+"-pkcs8.key"), "PRIVATE KEY", p8)
		// the layout `openssl ecparam -name ... -genkey` produces (README): the curve OID as EC PARAMETERS, then the key
		oid := []byte{0x06, 0x08, 0x2a, 0x86, 0x48, 0xce, 0x3d, 0x03, 0x01, 0x07}
		if curve == "p384" {
			oid = []byte{0x06, 0x05, 0x2b, 0x81, 0x04, 0x00, 0x22}
		}
		two := append(pem.EncodeToMemory(&pem.Block{Type: "EC PARAMETERS", Bytes: oid}), pem.EncodeToMemory(&pem.Block{Type: "EC PRIVATE KEY", Bytes: sec1})...)
		ioutil.WriteFile(filepath.Join(dir, curve+"-sec1params.key"), two, 0600)
		certPEM := pem.EncodeToMemory(&pem.Block{Type: "CERTIFICATE", Bytes: kc.certs[0].Raw})
		ioutil.WriteFile(filepath.Join(dir, curve+"-cert1.pem"), certPEM, 0600)
		chainPEM := append(append([]byte{}, certPEM...), pem.EncodeToMemory(&pem.Block{Type: "CERTIFICATE", Bytes: ca.certs[0].Raw})...)
		ioutil.WriteFile(filepath.Join(dir, curve+"-cert2.pem"), chainPEM, 0600)
		info[curve+"-leaf"] = ints(kc.certs[0].Raw)
		info[curve+"-ca"] = ints(ca.certs[0].Raw)
	}
	// a leaf that carries an embedded SCT list (RFC 6962 extension 1.3.6.1.4.1.11129.2.4.2), as publicly trusted certificates do
	{
		key, err := ecdsa.GenerateKey(elliptic.P256(), crandReader())
		if err != nil {
			return err
		}
		sctList, _ := asn1.Marshal([]byte{0, 8, 0, 6, 's', 'c', 't', '-', 'i', 'n'})
		tmpl := &x509.Certificate{SerialNumber: big.NewInt(424242), Subject: pkix.Name{CommonName: "verif embedded sct"}, NotBefore: time.Unix(946684800, 0), NotAfter: time.Unix(4102444800, 0),
			DNSNames: []string{"example.com"}, KeyUsage: x509.KeyUsageDigitalSignature,
			ExtraExtensions: []pkix.Extension{{Id: asn1.ObjectIdentifier{1, 3, 6, 1, 4, 1, 11129, 2, 4, 2}, Value: sctList}}}
		der, err := x509.CreateCertificate(crandReader(), tmpl, tmpl, &key.PublicKey, key)
		if err != nil {
			return err
		}
		writePEM(filepath.Join(dir, "p256-sctleaf-cert1.pem"), "CERTIFICATE", der)
		ca := newKeyCert("p256", []string{"ca.example"}, 33)
		ioutil.WriteFile(filepath.Join(dir, "p256-sctleaf-cert2.pem"), append(pem.EncodeToMemory(&pem.Block{Type: "CERTIFICATE", Bytes: der}), pem.EncodeToMemory(&pem.Block{Type: "CERTIFICATE", Bytes: ca.certs[0].Raw})...), 0600)
		info["p256-sctleaf-leaf"] = ints(der)
		info["p256-sctleaf-ca"] = ints(ca.certs[0].Raw)
	}
	// network fixtures (only when the check has a loopback server): leaves that name an OCSP responder there, and a TLS
	// server certificate for 127.0.0.1 that a tool process can be told to trust (SSL_CERT_FILE)
	if len(args) > 1 && args[1] != "" {
		base := args[1]
		long := ""
		for i := 0; i < 200; i++ {
			long += "r"
		}
		for name, responder := range map[string]string{"p256-ocspleaf": base + "/ocsp", "p256-ocsplong": base + "/ocsp/" + long} {
			key, err := ecdsa.GenerateKey(elliptic.P256(), crandReader())
			if err != nil {
				return err
			}
			tmpl := &x509.Certificate{SerialNumber: big.NewInt(515151), Subject: pkix.Name{CommonName: "verif ocsp leaf"}, NotBefore: time.Unix(946684800, 0), NotAfter: time.Unix(4102444800, 0),
				DNSNames: []string{"example.com"}, KeyUsage: x509.KeyUsageDigitalSignature, OCSPServer: []string{responder}}
			der, err := x509.CreateCertificate(crandReader(), tmpl, tmpl, &key.PublicKey, key)
			if err != nil {
				return err
			}
			ca := newKeyCert("p256", []string{"ca.example"}, 11)
			ioutil.WriteFile(filepath.Join(dir, name+"-cert2.pem"), append(pem.EncodeToMemory(&pem.Block{Type: "CERTIFICATE", Bytes: der}), pem.EncodeToMemory(&pem.Block{Type: "CERTIFICATE", Bytes: ca.certs[0].Raw})...), 0600)
			info[name+"-leaf"] = ints(der)
			info[name+"-ca"] = ints(ca.certs[0].Raw)
			info[name+"-responder"] = ints([]byte(responder))
		}
		key, err := ecdsa.GenerateKey(elliptic.P256(), crandReader())
		if err != nil {
			return err
		}
		tmpl := &x509.Certificate{SerialNumber: big.NewInt(616161), Subject: pkix.Name{CommonName: "verif loopback tls"}, NotBefore: time.Unix(946684800, 0), NotAfter: time.Unix(4102444800, 0),
			DNSNames: []string{"localhost"}, IPAddresses: []net.IP{net.IPv4(127, 0, 0, 1)}, KeyUsage: x509.KeyUsageDigitalSignature | x509.KeyUsageCertSign,
			ExtKeyUsage: []x509.ExtKeyUsage{x509.ExtKeyUsageServerAuth}, IsCA: true, BasicConstraintsValid: true}
		der, err := x509.CreateCertificate(crandReader(), tmpl, tmpl, &key.PublicKey, key)
		if err != nil {
			return err
		}
		writePEM(filepath.Join(dir, "tls-cert.pem"), "CERTIFICATE", der)
		kd, err := x509.MarshalPKCS8PrivateKey(key)
		if err != nil {
			return err
		}
		writePEM(filepath.Join(dir, "tls-key.pem"), "PRIVATE KEY", kd)
	}
	pub, priv, _ := ed25519.GenerateKey(crandReader())
	p8, err := x509.MarshalPKCS8PrivateKey(priv)
	if err != nil {
		return err
	}
	writePEM(filepath.Join(dir, "ed25519-pkcs8.key"), "PRIVATE KEY", p8)
	enc, err := pkcs8.MarshalPrivateKey(priv, []byte("verif-passphrase"), nil)
	if err != nil {
		return err
	}
	writePEM(filepath.Join(dir, "ed25519-encrypted.key"), "ENCRYPTED PRIVATE KEY", enc)
	spki, err := x509.MarshalPKIXPublicKey(pub)
	if err != nil {
		return err
	}
	writePEM(filepath.Join(dir, "ed25519-pub.pem"), "PUBLIC KEY", spki)
	info["ed25519-pub"] = ints(pub)
	// the key the rotating strategy of sign-bundle's verif hook answers from its second GetPublicKey call on (seed = SHA-256 of the first key)
	rotSeed := sha256.Sum256(pub)
	info["ed25519-pub2"] = ints(ed25519.NewKeyFromSeed(rotSeed[:]).Public().(ed25519.PublicKey))
	ioutil.WriteFile(filepath.Join(dir, "ocsp.der"), []byte("not-a-real-ocsp-response"), 0600)
	os.MkdirAll(filepath.Join(dir, "scts"), 0700)
	ioutil.WriteFile(filepath.Join(dir, "scts", "a.sct"), []byte("sct-number-one"), 0600)
	ioutil.WriteFile(filepath.Join(dir, "scts", "b.sct"), []byte("sct-2"), 0600)
	var ecKey *ecdsa.PrivateKey
	_ = ecKey
	emit(info)
	return nil
}

func init() { register("cli-fixtures", cliFixtures) }
