package main

import (
	"strings"
	"bytes"
	"crypto/sha256"
	"encoding/base64"
	"encoding/binary"
	"encoding/json"
	"fmt"
	"io"
	"math/rand"
	"strconv"

	"github.com/WICG/webpackage/go/signedexchange/mice"
)

type miRead struct {
	N    int    `json:"n"`
	Data []int  `json:"data"`
	Res  string `json:"res"`
}

// countingSrc delivers a byte string in pieces of a chosen pattern and counts what it handed out.
type countingSrc struct {
	b    []byte
	pos  int
	mode string
	r    *rand.Rand
}

func (s *countingSrc) Read(p []byte) (int, error) {
	if s.pos >= len(s.b) {
		return 0, io.EOF
	}
	n := len(p)
	switch s.mode {
	case "one":
		n = 1
	case "rand":
		n = 1 + s.r.Intn(len(p))
	}
	if n > len(p) {
		n = len(p)
	}
	if n > len(s.b)-s.pos {
		n = len(s.b) - s.pos
	}
	copy(p, s.b[s.pos:s.pos+n])
	s.pos += n
	return n, nil
}

func draftOf(d string) mice.Encoding {
	if d == "02" {
		return mice.Draft02Encoding
	}
	return mice.Draft03Encoding
}

func miEncEvent(id string, draft string, rs int, payload []byte) (stream []byte, digest string) {
	var buf bytes.Buffer
	var dg string
	var err error
	func() {
		defer func() {
			if rec := recover(); rec != nil { // a panic is reported as a failed call (the judge demands success)
				err = fmt.Errorf("panic: %v", rec)
			}
		}()
		dg, err = draftOf(draft).Encode(&buf, payload, rs)
	}()
	emit(map[string]interface{}{"case": id, "kind": "enc", "draft": draft, "rs": rs, "payload": ints(payload),
		"err": err != nil, "stream": ints(buf.Bytes()), "digest": ints([]byte(dg))})
	return buf.Bytes(), dg
}

// miDecEvent runs the real decoder over stream with the given digest header and logs every Read
// up to and including the first non-nil result (plus one more Read after a clean EOF).
func miDecEvent(id string, draft string, digest string, stream []byte, max uint64, mode string, dst int, r *rand.Rand, orig []byte, honest bool, note string) {
	src := &countingSrc{b: stream, mode: mode, r: r}
	ev := map[string]interface{}{"case": id, "kind": "dec", "draft": draft, "digest": ints([]byte(digest)), "max": u64to(max),
		"stream": ints(stream), "orig": ints(orig), "honest": honest, "mode": mode, "note": note}
	reads := []miRead{}
	func() {
		defer func() {
			if rec := recover(); rec != nil {
				ev["panic"] = true
			}
		}()
		dec, err := draftOf(draft).NewDecoder(src, digest, max)
		ev["newerr"] = err != nil
		ev["newconsumed"] = src.pos
		if err != nil {
			return
		}
		buf := make([]byte, dst)
		eofs, errs := 0, 0
		if mode == "copy" || mode == "sniffcopy" {
			// a consumer that drains the decoder with io.Copy (which prefers an io.WriterTo if the decoder has one),
			// optionally after sniffing a few bytes with Read.  The drain is logged as ONE read of size -1.
			if mode == "sniffcopy" {
				n, err := dec.Read(buf)
				res := "nil"
				if err == io.EOF {
					res = "eof"
				} else if err != nil {
					res = "err"
				}
				reads = append(reads, miRead{N: dst, Data: ints(buf[:n]), Res: res})
				if res != "nil" {
					return
				}
			}
			var out bytes.Buffer
			_, err := io.Copy(&out, dec)
			res := "eof"
			if err != nil {
				res = "err"
			}
			reads = append(reads, miRead{N: -1, Data: ints(out.Bytes()), Res: res})
			return
		}
		for i := 0; i < len(stream)+8 && eofs < 2; i++ {
			n, err := dec.Read(buf)
			res := "nil"
			if err == io.EOF {
				res = "eof"
				eofs++
			} else if err != nil {
				res = "err"
			}
			reads = append(reads, miRead{N: dst, Data: ints(buf[:n]), Res: res})
			if mode == "zeros" && res == "nil" {
				// a zero-length Read between two ordinary ones (io.Reader allows it; it must be a no-op on the delivered bytes)
				n0, err0 := dec.Read(buf[:0])
				res0 := "nil"
				if err0 == io.EOF {
					res0 = "eof"
				} else if err0 != nil {
					res0 = "err"
				}
				reads = append(reads, miRead{N: 0, Data: ints(buf[:n0]), Res: res0})
				if res0 == "eof" {
					eofs++
				}
			}
			if res == "err" {
				// a consumer that keeps reading after an error must still never be handed unauthenticated bytes
				errs++
				if errs > 3 {
					break
				}
			}
		}
	}()
	if _, ok := ev["newerr"]; !ok {
		ev["newerr"] = true
		ev["newconsumed"] = src.pos
	}
	if _, ok := ev["panic"]; !ok {
		ev["panic"] = false
	}
	ev["reads"] = reads
	emit(ev)
}

func miPayload(r *rand.Rand, n int) []byte {
	b := make([]byte, n)
	for i := range b {
		switch r.Intn(4) {
		case 0:
			b[i] = byte(r.Intn(2)) // flag-valued bytes
		default:
			b[i] = byte(r.Intn(256))
		}
	}
	return b
}

// mice-grid <tier>: C14. Encode for every small length / record size and the boundary sizes; decode the
// honest stream with several buffer sizes and source delivery patterns.
func miceGrid(args []string) error {
	thorough := len(args) > 0 && args[0] == "thorough"
	r := rand.New(rand.NewSource(seed()))
	id := 0
	modes := []string{"whole", "one", "rand", "copy", "sniffcopy", "zeros"}
	for _, draft := range []string{"02", "03"} {
		small := []int{1, 2, 3, 7, 16}
		if thorough {
			small = append(small, 4, 5, 31, 32, 33)
		}
		for _, rs := range small {
			for l := 0; l <= 3*rs+2; l++ {
				id++
				p := miPayload(r, l)
				st, dg := miEncEvent("g"+strconv.Itoa(id), draft, rs, p)
				dst := []int{1, rs, rs + 1, 4096}[r.Intn(4)]
				miDecEvent("g"+strconv.Itoa(id)+"d", draft, dg, st, 16384, modes[id%6], dst, r, p, true, "honest")
			}
		}
		for _, rs := range []int{255, 256, 4096, 16383, 16384} {
			for _, l := range []int{0, 1, rs - 1, rs, rs + 1, 2 * rs, 2*rs + 1} {
				id++
				p := miPayload(r, l)
				st, dg := miEncEvent("b"+strconv.Itoa(id), draft, rs, p)
				miDecEvent("b"+strconv.Itoa(id)+"d", draft, dg, st, 16384, modes[id%6], []int{1000, rs, 70000}[r.Intn(3)], r, p, true, "honest")
			}
		}
		// record sizes ABOVE the signed-exchange cap, decoded by a caller that allows them (the limit is the caller's argument,
		// not a property of the encoding): 16385, 20000, 65536, under a limit equal to the size and under a generous one
		for _, rs := range []int{16385, 20000, 65536} {
			for _, l := range []int{1, rs - 1, rs, rs + 1} {
				for _, max := range []uint64{uint64(rs), 1 << 20} {
					id++
					p := miPayload(r, l)
					st, dg := miEncEvent("B"+strconv.Itoa(id), draft, rs, p)
					miDecEvent("B"+strconv.Itoa(id)+"d", draft, dg, st, max, modes[id%6], []int{1000, rs, 70000}[r.Intn(3)], r, p, true, "honest")
				}
			}
		}
		n := 60
		if thorough {
			n = 600
		}
		for i := 0; i < n; i++ {
			id++
			rs := 1 + r.Intn(40)
			if r.Intn(4) == 0 {
				rs = 1 + r.Intn(16384)
			}
			l := r.Intn(5*rs + 3)
			if l > 40000 {
				l = 40000
			}
			p := miPayload(r, l)
			st, dg := miEncEvent("r"+strconv.Itoa(id), draft, rs, p)
			miDecEvent("r"+strconv.Itoa(id)+"d", draft, dg, st, uint64(16384), modes[id%6], 1+l/64+r.Intn(2*rs+2), r, p, true, "honest")
		}
		// many records (paths that depend on the number of records): 600 and 1300 records of 1 and 2 bytes
		for _, c := range [][2]int{{600, 1}, {2600, 2}} {
			id++
			p := miPayload(r, c[0])
			st, dg := miEncEvent("n"+strconv.Itoa(id), draft, c[1], p)
			miDecEvent("n"+strconv.Itoa(id)+"d", draft, dg, st, uint64(16384), modes[id%6], 64, r, p, true, "honest")
			miDecEvent("n"+strconv.Itoa(id)+"c", draft, dg, st, uint64(16384), "sniffcopy", 3, r, p, true, "honest")
		}
	}
	return nil
}

func stdDigest(draft string, proof []byte) string {
	if draft == "02" {
		return "mi-sha256-draft2=" + base64.RawURLEncoding.EncodeToString(proof)
	}
	return "mi-sha256-03=" + base64.StdEncoding.EncodeToString(proof)
}

// mice-mut <tier>: C15. Honest streams under every bit flip / truncation / extension / record swap /
// size-field edit, digest edits, and arbitrary streams against arbitrary digests.
func miceMut(args []string) error {
	thorough := len(args) > 0 && args[0] == "thorough"
	r := rand.New(rand.NewSource(seed()))
	id := 0
	modes := []string{"whole", "one", "rand", "copy", "sniffcopy", "zeros"}
	next := func(p string) string { id++; return p + strconv.Itoa(id) }
	for _, draft := range []string{"02", "03"} {
		type hc struct{ rs, l int }
		var hcs []hc
		for _, rs := range []int{1, 2, 16} {
			for _, l := range []int{0, 1, rs, rs + 1, 2 * rs, 2*rs + 1, 3 * rs} {
				hcs = append(hcs, hc{rs, l})
			}
		}
		if thorough {
			for _, rs := range []int{3, 5, 33, 256} {
				for _, l := range []int{rs - 1, rs, 2 * rs, 3*rs + 1} {
					hcs = append(hcs, hc{rs, l})
				}
			}
		}
		hcs = append(hcs, hc{4096, 4096}, hc{16384, 16385})
		for _, h := range hcs {
			p := miPayload(r, h.l)
			var buf bytes.Buffer
			dg, err := draftOf(draft).Encode(&buf, p, h.rs)
			if err != nil {
				return err
			}
			st := buf.Bytes()
			dec := func(tag string, s []byte, digest string, max uint64, honest bool, note string) {
				dst := []int{1, h.rs, h.rs + 32, 4096}[r.Intn(4)]
				if dst < len(s)/64 { // keep the number of Read calls per case bounded
					dst = len(s)/64 + 1
				}
				miDecEvent(next(tag), draft, digest, s, max, modes[id%6], dst, r, p, honest, note)
			}
			big := len(st) > 400
			// every bit (thorough, small streams) / one bit per byte / sampled bytes (large streams)
			for i := 0; i < len(st); i++ {
				if big && i >= 16 && i < len(st)-40 && r.Intn(len(st)/16+1) != 0 {
					continue
				}
				bits := []int{r.Intn(8)}
				if thorough && !big {
					bits = []int{0, 1, 2, 3, 4, 5, 6, 7}
				}
				for _, b := range bits {
					m := append([]byte{}, st...)
					m[i] ^= 1 << uint(b)
					dec("f", m, dg, 16384, true, "bitflip")
				}
			}
			// every truncation length
			for i := 0; i < len(st); i++ {
				if big && i >= 16 && i < len(st)-40 && r.Intn(len(st)/16+1) != 0 {
					continue
				}
				dec("t", st[:i], dg, 16384, true, "truncate")
			}
			// suffixes
			for _, k := range []int{1, h.rs - 1, h.rs, h.rs + 1, h.rs + 31, h.rs + 32, h.rs + 33} {
				if k < 1 {
					continue
				}
				m := append(append([]byte{}, st...), miPayload(r, k)...)
				dec("s", m, dg, 16384, true, "suffix")
				m2 := append(append([]byte{}, st...), bytes.Repeat([]byte{0}, k)...)
				dec("s", m2, dg, 16384, true, "suffix0")
			}
			// record swaps (chunks of rs+32 after the size field)
			unit := h.rs + 32
			if len(st) >= 8+2*unit {
				m := append([]byte{}, st...)
				copy(m[8:8+unit], st[8+unit:8+2*unit])
				copy(m[8+unit:8+2*unit], st[8:8+unit])
				dec("w", m, dg, 16384, true, "swap")
			}
			// drop the last record and its proof (truncation at a record boundary is in the loop above);
			// duplicate the last chunk
			// size-field edits
			if len(st) >= 8 {
				for _, v := range []uint64{0, uint64(h.rs) - 1, uint64(h.rs) + 1, uint64(h.rs) + 32, 16384, 16385, 1 << 31, 1 << 32, 1 << 63, 1<<64 - 1} {
					m := append([]byte{}, st...)
					binary.BigEndian.PutUint64(m, v)
					dec("z", m, dg, 16384, true, "rsfield")
				}
				// caller's limit below / at the record size
				dec("m", st, dg, uint64(h.rs), true, "max=rs")
				if h.rs > 1 {
					dec("m", st, dg, uint64(h.rs-1), true, "max<rs")
				}
				dec("m", st, dg, 0, true, "max=0")
			}
			// digest edits: one bit of the proof; other draft's header; malformed texts
			top := sha256.Sum256(nil)
			_ = top
			pd := dg[len(draftOf(draft).ContentEncoding())+1:]
			var proof []byte
			if draft == "02" {
				proof, _ = base64.RawURLEncoding.DecodeString(pd)
			} else {
				proof, _ = base64.StdEncoding.DecodeString(pd)
			}
			for k := 0; k < 4; k++ {
				q := append([]byte{}, proof...)
				q[r.Intn(32)] ^= 1 << uint(r.Intn(8))
				dec("d", st, stdDigest(draft, q), 16384, false, "digestflip")
			}
			other := "03"
			if draft == "03" {
				other = "02"
			}
			dec("d", st, stdDigest(other, proof), 16384, false, "otherdraft")
			dec("d", st, pd, 16384, false, "noalg")
			dec("d", st, strings.ToUpper(dg[:len(draftOf(draft).ContentEncoding())])+dg[len(draftOf(draft).ContentEncoding()):], 16384, false, "uppertoken")
			dec("d", st, "sha-256="+pd, 16384, false, "sha-256 token")
			dec("d", st, "x=1,"+dg, 16384, false, "list: foreign first")
			dec("d", st, dg+","+dg, 16384, false, "list: twice")
			dec("d", st, " "+dg, 16384, false, "leading space")
			dec("d", st, stdDigest(draft, proof[:31]), 16384, false, "short")
			dec("d", st, stdDigest(draft, append(append([]byte{}, proof...), 0)), 16384, false, "long")
			dec("d", st, dg[:len(dg)-1]+"!", 16384, false, "badchar")
			dec("d", st, "", 16384, false, "empty")
			if draft == "03" {
				dec("d", st, dg[:len(dg)-1], 16384, false, "nopad")
			} else {
				dec("d", st, dg+"=", 16384, false, "pad")
			}
		}
		// legal streams in forms the encoder here never writes (another implementation may): the payload cut into full records
		// FOLLOWED BY AN EMPTY FINAL RECORD, and records of a size other than the one a caller of this encoder would get for the
		// same payload (a multi-record payload re-cut with a larger record size).  Built by the generator below (not an oracle:
		// Mice.tla decides what each stream is); each form as is, extended, truncated and with flipped bits
		for _, c := range []struct{ rs, k int }{{1, 1}, {2, 2}, {16, 1}, {16, 3}, {32, 1}} {
			p := miPayload(r, c.rs*c.k)
			for _, emptyFinal := range []bool{true, false} {
				st, proof := altStream(p, c.rs, emptyFinal)
				dg := stdDigest(draft, proof)
				form := "full records + empty final record"
				if !emptyFinal {
					form = "full records, last one full"
				}
				dec := func(tag string, sbytes []byte, note string) {
					dst := []int{1, c.rs, c.rs + 32, 4096}[id%4]
					miDecEvent(next(tag), draft, dg, sbytes, 16384, modes[id%6], dst, r, p, true, form+": "+note)
				}
				dec("e", st, "as is")
				for _, k := range []int{1, 4, c.rs, c.rs + 31, c.rs + 32, c.rs + 33, 3*(c.rs+32) + 1} {
					dec("e", append(append([]byte{}, st...), miPayload(r, k)...), "suffix")
					dec("e", append(append([]byte{}, st...), bytes.Repeat([]byte{0}, k)...), "suffix0")
				}
				for i := 0; i < len(st); i++ {
					if len(st) > 200 && i > 16 && i < len(st)-40 && i%7 != 0 {
						continue
					}
					dec("e", st[:i], "truncate")
					m := append([]byte{}, st...)
					m[i] ^= 1 << uint(r.Intn(8))
					dec("e", m, "bitflip")
				}
			}
		}
		// arbitrary streams against arbitrary digests; streams built to validate under a random digest chain
		n := 150
		if thorough {
			n = 3000
		}
		for i := 0; i < n; i++ {
			rs := 1 + r.Intn(4)
			var st []byte
			st = append(st, u64bytes(uint64(rs))...)
			st = append(st, miPayload(r, r.Intn(3*(rs+32)))...)
			pr := sha256.Sum256(append(append([]byte{}, st[8:]...), byte(r.Intn(2))))
			miDecEvent(next("a"), draft, stdDigest(draft, pr[:]), st, 16384, modes[i%6], 1+r.Intn(8), r, nil, false, "arbitrary")
		}
	}
	return nil
}

// altStream cuts payload (a multiple of rs bytes) into full records and chains the proofs as the MI drafts define them:
// proof(last) = SHA-256(last || 0x00), proof(i) = SHA-256(record_i || proof(i+1) || 0x01); with emptyFinal the last record
// is an additional EMPTY record.  Returns the stream (record size, records interleaved with the proofs of their successors)
// and the top proof.
func altStream(payload []byte, rs int, emptyFinal bool) ([]byte, []byte) {
	var recs [][]byte
	for i := 0; i < len(payload); i += rs {
		recs = append(recs, payload[i:i+rs])
	}
	if emptyFinal || len(recs) == 0 {
		recs = append(recs, []byte{})
	}
	proofs := make([][]byte, len(recs))
	for i := len(recs) - 1; i >= 0; i-- {
		h := sha256.New()
		h.Write(recs[i])
		if i == len(recs)-1 {
			h.Write([]byte{0})
		} else {
			h.Write(proofs[i+1])
			h.Write([]byte{1})
		}
		proofs[i] = h.Sum(nil)
	}
	st := u64bytes(uint64(rs))
	for i, rec := range recs {
		st = append(st, rec...)
		if i+1 < len(recs) {
			st = append(st, proofs[i+1]...)
		}
	}
	return st, proofs[0]
}

func u64bytes(n uint64) []byte {
	var b [8]byte
	binary.BigEndian.PutUint64(b[:], n)
	return b[:]
}

func init() {
	register("mice-grid", miceGrid)
	register("mice-mut", miceMut)
}

// mice-one: re-run one recorded case (stdin: the event's inputs) on the current tree.
func miceOne(args []string) error {
	return eachLine(func(line []byte) error {
		var v struct {
			Kind    string `json:"kind"`
			Draft   string `json:"draft"`
			Rs      int    `json:"rs"`
			Payload []int  `json:"payload"`
			Digest  []int  `json:"digest"`
			Stream  []int  `json:"stream"`
			Max     []int  `json:"max"`
			Mode    string `json:"mode"`
			Orig    []int  `json:"orig"`
			Honest  bool   `json:"honest"`
			Note    string `json:"note"`
			Dst     int    `json:"dst"`
		}
		if err := json.Unmarshal(line, &v); err != nil {
			return err
		}
		if v.Kind == "enc" {
			miEncEvent("replay", v.Draft, v.Rs, unints(v.Payload))
			return nil
		}
		r := rand.New(rand.NewSource(seed()))
		miDecEvent("replay", v.Draft, string(unints(v.Digest)), unints(v.Stream), u64of(v.Max), v.Mode, v.Dst, r, unints(v.Orig), v.Honest, v.Note)
		return nil
	})
}

func init() { register("mice-one", miceOne) }
