package main

// Reader faults (tla/ReaderFaults.tla): every parser that takes an io.Reader, over the schedules
// TLC exported from MC_ReaderFaults.  The harness only runs and projects; Trace_ReaderFaults judges.

import (
	"io/ioutil"
	"bufio"
	"bytes"
	"crypto/sha256"
	"encoding/hex"
	"encoding/json"
	"fmt"
	"io"
	"math/rand"
	"net/url"

	"github.com/WICG/webpackage/go/bundle"
	bversion "github.com/WICG/webpackage/go/bundle/version"
	sxg "github.com/WICG/webpackage/go/signedexchange"
	"github.com/WICG/webpackage/go/signedexchange/certurl"
	"github.com/WICG/webpackage/go/signedexchange/version"
	"github.com/WICG/webpackage/go/verifapi"
)

type rfSched struct {
	Pat []int  `json:"pat"`
	End string `json:"end"`
	K   int    `json:"k"`
}

// recvBuf: a bytes.Buffer refilled from pending segments when it runs empty (a connection's receive buffer)
type recvBuf struct {
	bytes.Buffer
	pending [][]byte
}

func (r *recvBuf) Read(p []byte) (int, error) {
	if r.Buffer.Len() == 0 && len(r.pending) > 0 {
		r.Buffer.Write(r.pending[0])
		r.pending = r.pending[1:]
	}
	return r.Buffer.Read(p)
}

func (r *recvBuf) left() int {
	n := r.Buffer.Len()
	for _, s := range r.pending {
		n += len(s)
	}
	return n
}

// schedSrc is SrcRead of ReaderFaults.tla.
type schedSrc struct {
	b      []byte
	sch    rfSched
	pos, i int
	probed bool // a call was made after the last byte had been handed out
	hit    bool // the one failing call of a transient / eofmore schedule has been made
}

func (s *schedSrc) passing() bool { return s.sch.End == "transient" || s.sch.End == "eofmore" }

func (s *schedSrc) limit() int {
	if s.passing() {
		if !s.hit && s.pos <= s.sch.K && s.sch.K < len(s.b) {
			return s.sch.K // no fragment crosses k before the failing call
		}
		return len(s.b)
	}
	if (s.sch.End == "err" || s.sch.End == "errdata") && s.sch.K < len(s.b) {
		return s.sch.K
	}
	return len(s.b)
}

func (s *schedSrc) Len() int { return len(s.b) - s.pos }

func (s *schedSrc) Read(p []byte) (int, error) {
	if len(p) == 0 {
		return 0, nil
	}
	if s.passing() && s.pos == s.sch.K && !s.hit {
		s.hit = true
		if s.sch.End == "transient" {
			return 0, errInjected
		}
		return 0, io.EOF
	}
	lim := s.limit()
	failing := s.sch.End == "err" || s.sch.End == "errdata"
	if s.pos >= lim {
		if s.pos >= len(s.b) {
			s.probed = true
		}
		if failing {
			return 0, errInjected
		}
		return 0, io.EOF
	}
	n := s.sch.Pat[s.i%len(s.sch.Pat)]
	s.i++
	if n > len(p) {
		n = len(p)
	}
	if n > lim-s.pos {
		n = lim - s.pos
	}
	copy(p, s.b[s.pos:s.pos+n])
	s.pos += n
	if n > 0 && s.pos == lim {
		switch s.sch.End {
		case "eofdata":
			return n, io.EOF
		case "errdata":
			return n, errInjected
		}
	}
	return n, nil
}

// posLen adapts a position function to the Len() interface the accessor driver uses (bytes left)
type posLen struct {
	pos func() int
	n   int
}

func (p posLen) Len() int { return p.n - p.pos() }

func digestOf(v interface{}) string {
	j, _ := json.Marshal(v)
	h := sha256.Sum256(j)
	return hex.EncodeToString(h[:8])
}

// a parser run: outcome summary ("err" for any error), and for streaming decoders the delivered bytes
type rfParser struct {
	name string
	run  func(in *rfInput, src io.Reader) (outcome string, delivered []byte)
	// accessor sequences (cbor): one outcome per call and the source position after each call
	seq func(in *rfInput, src io.Reader, pos func() int) (calls []string, ends []int)
}

type rfInput struct {
	name   string
	b      []byte
	ops    []string // cbor accessor sequence
	digest string   // mice
	draft  string
	max    uint64
	dst    int
}

func rfParsers() map[string]*rfParser {
	return map[string]*rfParser{
		"cbor": {name: "cbor", seq: func(in *rfInput, src io.Reader, pos func() int) ([]string, []int) {
			var outs []string
			var ends []int
			d := verifapi.NewCborDecoder(src)
			ss, _ := src.(*schedSrc)
			for _, op := range in.ops {
				p0, h0 := pos(), ss != nil && ss.hit
				c := decCalls(d, posLen{pos, len(in.b)}, []string{op})[0]
				if c.Pan {
					panic("decoder panic")
				}
				if c.Err && ss != nil && ss.hit && !h0 && pos() == p0 {
					// the call met the source's one passing failure and consumed nothing: the caller repeats it
					// (a decoder polled on a queue, a read retried after a time-out)
					c = decCalls(d, posLen{pos, len(in.b)}, []string{op})[0]
					if c.Pan {
						panic("decoder panic")
					}
				}
				if c.Err {
					outs = append(outs, "err")
				} else {
					outs = append(outs, digestOf(c))
				}
				ends = append(ends, pos())
			}
			return outs, ends
		}},
		"mice": {name: "mice", run: func(in *rfInput, src io.Reader) (string, []byte) {
			dec, err := draftOf(in.draft).NewDecoder(src, in.digest, in.max)
			if err != nil {
				return "err", nil
			}
			var out []byte
			buf := make([]byte, in.dst)
			for i := 0; i < len(in.b)+16; i++ {
				n, err := dec.Read(buf)
				out = append(out, buf[:n]...)
				if err == io.EOF {
					return "eof:" + digestOf(ints(out)), out
				}
				if err != nil {
					return "err", out
				}
			}
			return "open", out
		}},
		"sxg": {name: "sxg", run: func(in *rfInput, src io.Reader) (string, []byte) {
			e, err := sxg.ReadExchange(src)
			if err != nil {
				return "err", nil
			}
			return digestOf(xOf(e)), nil
		}},
		"cert": {name: "cert", run: func(in *rfInput, src io.Reader) (string, []byte) {
			ch, err := certurl.ReadCertChain(src)
			if err != nil {
				return "err", nil
			}
			return digestOf(chainOut(ch)), nil
		}},
		"bundle": {name: "bundle", run: func(in *rfInput, src io.Reader) (string, []byte) {
			b, err := bundle.Read(src)
			if err != nil {
				return "err", nil
			}
			return digestOf(brecOf(b)), nil
		}},
		"magic": {name: "magic", run: func(in *rfInput, src io.Reader) (string, []byte) {
			v, err := bversion.ParseMagicBytes(src)
			if err != nil {
				return "err", nil
			}
			return "ver:" + string(v), nil
		}},
		"readfrom": {name: "readfrom", run: func(in *rfInput, src io.Reader) (string, []byte) {
			var buf bytes.Buffer
			cw := bundle.NewCountingWriter(&buf)
			n, err := cw.ReadFrom(src)
			if err != nil {
				return "err", nil
			}
			return fmt.Sprintf("n=%d w=%d %s", n, cw.Written, digestOf(ints(buf.Bytes()))), nil
		}},
	}
}

func rfInputs(parser string, r *rand.Rand, thorough bool) []*rfInput {
	var ins []*rfInput
	add := func(name string, b []byte) { ins = append(ins, &rfInput{name: name, b: b}) }
	damaged := func(name string, b []byte) {
		add(name, b)
		if len(b) > 4 {
			add(name+"/trunc", b[:len(b)*2/3])
			// a few bytes missing at the end (fewer than a caller's preamble may have been long): what is missing is missing,
			// whatever a source's Size() / Len() / capacity suggests
			cuts := []int{13}
			if parser == "bundle" || thorough {
				cuts = []int{1, 13, 40}
			}
			for _, cut := range cuts {
				if len(b) > cut+4 {
					add(fmt.Sprintf("%s/trunc-%d", name, cut), b[:len(b)-cut])
				}
			}
			c := append([]byte{}, b...)
			c[len(c)/2] ^= 0x10
			add(name+"/flip", c)
		}
	}
	switch parser {
	case "cbor":
		n := 40
		if thorough {
			n = 200
		}
		for i := 0; i < n; i++ {
			in, ops := genDecCase(r, false)
			ins = append(ins, &rfInput{name: fmt.Sprintf("gen%d", i), b: in, ops: ops})
		}
		// strings cut short at every interesting place (whatever lies behind the data in memory is not part of the input)
		for _, mt := range []int{2, 3} {
			op := map[int]string{2: "bytes", 3: "text"}[mt]
			for _, l := range []int{1, 5, 24, 300} {
				full := append(ownHead(mt, uint64(l), 0), bytes.Repeat([]byte{'s'}, l)...)
				hl := len(full) - l
				for _, cut := range []int{len(full), len(full) - 1, hl + l/2, hl, hl - 1} {
					if cut < 0 || (cut == hl-1 && hl < 2) {
						continue
					}
					ins = append(ins, &rfInput{name: fmt.Sprintf("str%d/%d/cut%d", mt, l, cut), b: append([]byte{}, full[:cut]...), ops: []string{op, "byte"}})
				}
			}
		}
	case "mice":
		for _, draft := range []string{"02", "03"} {
			for _, c := range [][2]int{{0, 16}, {1, 1}, {5, 1}, {16, 16}, {17, 16}, {40, 7}, {48, 16}} {
				payload := miPayload(r, c[0])
				var buf bytes.Buffer
				dg, err := draftOf(draft).Encode(&buf, payload, c[1])
				if err != nil {
					continue
				}
				st := buf.Bytes()
				ins = append(ins, &rfInput{name: fmt.Sprintf("%s/%d/%d", draft, c[0], c[1]), b: st, digest: dg, draft: draft, max: 1 << 20, dst: 1 + r.Intn(20)})
				if len(st) > 12 {
					bad := append([]byte{}, st...)
					bad[len(bad)-1] ^= 1
					ins = append(ins, &rfInput{name: fmt.Sprintf("%s/%d/%d/lastflip", draft, c[0], c[1]), b: bad, digest: dg, draft: draft, max: 1 << 20, dst: 7})
					ins = append(ins, &rfInput{name: fmt.Sprintf("%s/%d/%d/trunc", draft, c[0], c[1]), b: st[:len(st)-1], digest: dg, draft: draft, max: 1 << 20, dst: 64})
				}
			}
		}
	case "sxg":
		kc := newKeyCert("p256", nil, 0)
		for _, ver := range version.AllVersions {
			sp := baseSpec(r, ver)
			se := buildSigned(sp, kc)
			var buf bytes.Buffer
			if err := se.e.Write(&buf); err != nil {
				continue
			}
			damaged("sxg/"+string(ver), buf.Bytes())
			sp2 := baseSpec(r, ver)
			sp2.payload = nil
			var buf2 bytes.Buffer
			buildSigned(sp2, kc).e.Write(&buf2)
			add("sxg/"+string(ver)+"/nopayload", buf2.Bytes())
		}
	case "cert":
		for _, n := range []int{1, 2} {
			kcs := []*keyCert{newKeyCert("p256", nil, 0)}
			if n == 2 {
				kcs = append(kcs, newKeyCert("p384", nil, 10))
			}
			ch := (&bsigner{"c", kcs, nil}).chain()
			ch[0].SCTList = []byte("sct")
			var buf bytes.Buffer
			ch.Write(&buf)
			damaged(fmt.Sprintf("chain%d", n), buf.Bytes())
		}
	case "bundle", "magic", "readfrom":
		for _, ver := range []bversion.Version{bversion.VersionB1, bversion.VersionB2} {
			b := &bundle.Bundle{Version: ver}
			pu, _ := url.Parse("https://a.example/")
			b.PrimaryURL = pu
			for _, us := range []string{"https://a.example/", "https://a.example/b"} {
				u, _ := url.Parse(us)
				b.Exchanges = append(b.Exchanges, &bundle.Exchange{Request: bundle.Request{URL: u},
					Response: bundle.Response{Status: 200, Header: map[string][]string{"Content-Type": {"text/html"}}, Body: []byte("body of " + us)}})
			}
			f, _, err, _ := writeBundle(b, "plain")
			if err != nil {
				continue
			}
			if parser == "magic" {
				add("magic/"+string(ver), f[:20])
				add("magic/"+string(ver)+"/short", f[:9])
			} else if parser == "readfrom" {
				add("readfrom/"+string(ver), f)
				add("readfrom/empty", nil)
			} else {
				damaged("bundle/"+string(ver), f)
			}
		}
	}
	return ins
}

// rf-run <tier> <parser>...: stdin = schedules exported by TLC (one JSON object per line: pat, end, k)
func rfRun(args []string) error {
	thorough := args[0] == "thorough"
	r := rand.New(rand.NewSource(seed()))
	var scheds []rfSched
	if err := eachLine(func(line []byte) error {
		var s rfSched
		if err := json.Unmarshal(line, &s); err != nil {
			return err
		}
		scheds = append(scheds, s)
		return nil
	}); err != nil {
		return err
	}
	var clean, failing []rfSched
	for _, s := range scheds {
		if s.End == "eofmore" {
			continue // an end reported early IS the end for a consumer that reads to the end; used with accessor sequences only (below)
		}
		if s.End == "eof" || s.End == "eofdata" {
			clean = append(clean, s)
		} else {
			failing = append(failing, s)
		}
	}
	ps := rfParsers()
	id := 0
	for _, pn := range args[1:] {
		p := ps[pn]
		if p == nil {
			return fmt.Errorf("unknown parser %s", pn)
		}
		for _, in := range rfInputs(pn, r, thorough) {
			var calls []string
			var ends []int
			one := func(sch rfSched) (string, []byte, *schedSrc, bool) {
				src := &schedSrc{b: in.b, sch: sch}
				var out string
				var del []byte
				pan := false
				calls, ends = []string{}, []int{}
				func() {
					defer func() {
						if rec := recover(); rec != nil {
							pan, out = true, "panic"
						}
					}()
					if p.seq != nil {
						calls, ends = p.seq(in, src, func() int { return src.pos })
						out = "seq"
					} else {
						out, del = p.run(in, src)
					}
				}()
				return out, del, src, pan
			}
			contig, cdel, csrc, cpan := one(rfSched{Pat: []int{99}, End: "eof"})
			ccalls, cends := calls, ends
			emitOne := func(sch rfSched) {
				out, del, _, pan := one(sch)
				id++
				pfx := cdel
				if len(del) <= len(cdel) {
					pfx = cdel[:len(del)]
				}
				emit(map[string]interface{}{"case": fmt.Sprintf("rf%d", id), "parser": pn, "input": in.name, "L": len(in.b), "sch": sch,
					"consumed": csrc.pos, "probed": csrc.probed, "contig": contig, "sched": out, "panic": pan || cpan,
					"deliv": digestOf(ints(del)), "cprefix": digestOf(ints(pfx)), "dl": len(del), "ccalls": ccalls, "cends": cends, "scalls": calls})
			}
			// other kinds of source the code may special-case (type switches, fast paths): the same bytes behind a *bytes.Buffer
			// whose backing array has spare capacity (filled with plausible continuation bytes), a *bytes.Reader, a *bufio.Reader
			// ... and a reader with a Size() method that has been PARTLY CONSUMED before the parser gets it (the caller read a
			// k-byte preamble of its own): Size() is the length of everything, not of what is left
			for _, kind := range []string{"bytes.Buffer+cap", "bytes.Buffer", "bytes.Reader", "bufio.Reader", "recvbuf16", "recvbuf100", "recvbuf1460",
				"bytes.Reader+consumed1", "bytes.Reader+consumed9", "bytes.Reader+consumed64", "io.SectionReader+consumed9"} {
				var rd io.Reader
				var pos func() int
				switch kind {
				case "bytes.Buffer+cap":
					big := make([]byte, len(in.b)+64)
					copy(big, in.b)
					for i := len(in.b); i < len(big); i++ {
						big[i] = 0x41
					}
					bb := bytes.NewBuffer(big[:len(in.b)])
					rd, pos = bb, func() int { return len(in.b) - bb.Len() }
				case "bytes.Buffer":
					bb := bytes.NewBuffer(append([]byte{}, in.b...))
					rd, pos = bb, func() int { return len(in.b) - bb.Len() }
				case "bytes.Reader":
					br := bytes.NewReader(in.b)
					rd, pos = br, func() int { return len(in.b) - br.Len() }
				case "bytes.Reader+consumed1", "bytes.Reader+consumed9", "bytes.Reader+consumed64", "io.SectionReader+consumed9":
					k := map[string]int{"bytes.Reader+consumed1": 1, "bytes.Reader+consumed9": 9, "bytes.Reader+consumed64": 64, "io.SectionReader+consumed9": 9}[kind]
					whole := append(bytes.Repeat([]byte{0x50}, k), in.b...)
					if kind == "io.SectionReader+consumed9" {
						sr := io.NewSectionReader(bytes.NewReader(whole), 0, int64(len(whole)))
						io.CopyN(ioutil.Discard, sr, int64(k))
						rd, pos = sr, func() int { p, _ := sr.Seek(0, io.SeekCurrent); return int(p) - k }
					} else {
						br := bytes.NewReader(whole)
						io.CopyN(ioutil.Discard, br, int64(k))
						rd, pos = br, func() int { return len(in.b) - br.Len() }
					}
				case "recvbuf16", "recvbuf100", "recvbuf1460":
					// a receive buffer: a bytes.Buffer (so the type has Len, Bytes, WriteTo ...) refilled segment by segment; what
					// its methods report concerns the buffered part only, more arrives later
					seg := map[string]int{"recvbuf16": 16, "recvbuf100": 100, "recvbuf1460": 1460}[kind]
					rb := &recvBuf{}
					for o := 0; o < len(in.b); o += seg {
						e := o + seg
						if e > len(in.b) {
							e = len(in.b)
						}
						rb.pending = append(rb.pending, in.b[o:e])
					}
					rd, pos = rb, func() int { return len(in.b) - rb.left() }
				default:
					br := bytes.NewReader(in.b)
					rd, pos = bufio.NewReaderSize(br, 16), func() int { return -1 }
				}
				var out string
				var del []byte
				var acalls []string
				pan := false
				func() {
					defer func() {
						if rec := recover(); rec != nil {
							pan, out = true, "panic"
						}
					}()
					if p.seq != nil {
						if kind == "bufio.Reader" {
							return // positions are not observable through a read-ahead buffer
						}
						acalls, _ = p.seq(in, rd, pos)
						out = "seq"
					} else {
						out, del = p.run(in, rd)
					}
				}()
				if out == "" {
					continue
				}
				if acalls == nil {
					acalls = []string{}
				}
				id++
				pfx := cdel
				if len(del) <= len(cdel) {
					pfx = cdel[:len(del)]
				}
				emit(map[string]interface{}{"case": fmt.Sprintf("rf%d", id), "parser": pn, "input": in.name, "L": len(in.b), "sch": rfSched{Pat: []int{99}, End: "eof"}, "source": kind,
					"consumed": csrc.pos, "probed": csrc.probed, "contig": contig, "sched": out, "panic": pan || cpan,
					"deliv": digestOf(ints(del)), "cprefix": digestOf(ints(pfx)), "dl": len(del), "ccalls": ccalls, "cends": cends, "scalls": acalls})
			}
			for ci, sch := range clean {
				if !thorough && len(in.b) > 600 && ci%4 != id%4 {
					continue
				}
				emitOne(sch)
			}
			// a failure after k bytes, for every k (sampled for long inputs), patterns rotating with k
			step := 1
			if len(in.b) > 300 && !thorough {
				step = len(in.b) / 150
			}
			for k := 0; k <= len(in.b) && len(failing) > 0; k += step {
				for j := 0; j < 2; j++ {
					sch := failing[(k*7+j*13+id)%len(failing)]
					sch.K = k
					emitOne(sch)
				}
			}
			// a failure that passes (one call fails, the next ones continue), at every boundary between two accessor calls
			// and inside items
			if p.seq != nil {
				ks := map[int]bool{0: true}
				for _, e := range cends {
					ks[e] = true
					ks[e+1] = true
				}
				for k := 0; k <= len(in.b); k++ {
					if !ks[k] && k%5 != 0 {
						continue
					}
					for j, end := range []string{"transient", "eofmore"} {
						emitOne(rfSched{Pat: [][]int{{99}, {1}, {2, 0, 1}, {3, 1}}[(k+j)%4], End: end, K: k})
					}
				}
			}
		}
	}
	return nil
}

func init() { register("rf-run", rfRun) }
