package main

import (
	"bytes"
	"crypto/ed25519"
	"encoding/binary"
	"fmt"
	"io/ioutil"
	"math/rand"
	"os"
	"sort"

	"github.com/WICG/webpackage/go/integrityblock"
	"github.com/WICG/webpackage/go/integrityblock/webbundleid"
)

// strategies: a signing strategy whose signature does / does not verify under the key that will be recorded
type ibStrategy struct {
	priv ed25519.PrivateKey // key that really signs
	pub  ed25519.PublicKey  // key it reports
	mode string             // match | wrongkey | garbage
}

func (s *ibStrategy) Sign(data []byte) ([]byte, error) {
	sig := ed25519.Sign(s.priv, data)
	if s.mode == "garbage" {
		sig[5] ^= 0x40
	}
	if s.mode == "padded" { // a correct signature followed by extra bytes is not an Ed25519 signature
		sig = append(sig, make([]byte, 1+len(data)%9)...)
	}
	if s.mode == "short" {
		sig = sig[:63]
	}
	return sig, nil
}
func (s *ibStrategy) GetPublicKey() (ed25519.PublicKey, error) { return s.pub, nil }

type attr struct {
	K []int `json:"k"`
	V []int `json:"v"`
}

func attrsOut(m integrityblock.SignatureAttributesMap) []attr {
	r := []attr{}
	var keys []string
	for k := range m {
		keys = append(keys, k)
	}
	sort.Strings(keys)
	for _, k := range keys {
		r = append(r, attr{ints([]byte(k)), ints(m[k])})
	}
	return r
}

// ib-run <tier>: C07. Signing histories on real temporary files through the library entry points
// (the same steps as sign-bundle's SignWithIntegrityBlock).
func ibRun(args []string) error {
	thorough := len(args) > 0 && args[0] == "thorough"
	r := rand.New(rand.NewSource(seed()))
	dir, err := ioutil.TempDir("", "verif-ib")
	if err != nil {
		return err
	}
	defer os.RemoveAll(dir)
	type kp struct {
		pub  ed25519.PublicKey
		priv ed25519.PrivateKey
	}
	var keys []kp
	for i := 0; i < 3; i++ {
		pub, priv, _ := ed25519.GenerateKey(crandReader())
		keys = append(keys, kp{pub, priv})
	}
	mkFile := func(n int, kind string) []byte {
		b := randBytes(r, n)
		if n >= 8 {
			switch kind {
			case "exact":
				binary.BigEndian.PutUint64(b[n-8:], uint64(n))
			case "exactmagic":
				// a file that LOOKS signed (the integrity-block magic where a block would have it) but whose trailing length
				// covers the whole file: by the format it carries no block, and signing it wraps it like any other file
				if n >= 18 {
					b[0], b[1] = 0x83, 0x48
					copy(b[2:10], []byte{0xf0, 0x9f, 0x96, 0x8b, 0xf0, 0x9f, 0x93, 0xa6})
				}
				binary.BigEndian.PutUint64(b[n-8:], uint64(n))
			case "bigger":
				binary.BigEndian.PutUint64(b[n-8:], uint64(n+1+r.Intn(100)))
			case "smaller":
				binary.BigEndian.PutUint64(b[n-8:], uint64(r.Intn(n)))
			case "huge":
				binary.BigEndian.PutUint64(b[n-8:], 1<<63+uint64(r.Intn(1000)))
			}
		}
		return b
	}
	id := 0
	stratSeqs := [][]string{{"match"}, {"wrongkey"}, {"garbage"}, {"match", "match"}, {"match", "wrongkey"}, {"wrongkey", "match"}, {"garbage", "match", "match"}, {"match", "garbage", "match"}, {"match", "match", "match"},
		// the library's own strategy (ParsedEd25519KeySigningStrategy): with a sound key, and with a private key whose halves
		// disagree (seed of one key, cached public half of another) - the signature it makes verifies under no key
		{"padded"}, {"short"}, {"match", "padded", "match"},
		{"builtin"}, {"builtinbad"}, {"builtin", "builtinbad", "match"}, {"match", "builtinbad"},
		// "counter": ONE signer object for the whole run (a counter-signing service: the same IntegrityBlockSigner value is pointed
		// at bundle after bundle - WebBundleHash and IntegrityBlock replaced - and adds its signature on top of the developer's)
		// (consecutive uses of that object meet blocks of equal depth - the sequence is listed twice - and of different depth)
		{"match", "counter"}, {"match", "counter"}, {"match", "match", "counter"}, {"match", "match", "counter"}, {"counter", "match"}, {"match", "counter", "counter"}}
	counter := &integrityblock.IntegrityBlockSigner{}
	// 1 MiB and 2 MiB exactly: sizes at which a hashing / copying loop that works in chunks has an empty last chunk
	sizes := []int{8, 9, 100, 1000, 70000, 1 << 20, 2 << 20}
	if thorough {
		sizes = append(sizes, 0, 3, 7, 64, 32768, 65536, 300000, 1<<20-1, 1<<20+1, 4<<20)
	}
	for _, kind := range []string{"exact", "exactmagic", "bigger", "smaller", "huge", "random"} {
		for _, n := range append(sizes, 0, 7) {
			for si, seq := range stratSeqs {
				if kind != "exact" && si > 0 {
					continue
				}
				if kind == "exact" && n > 1000 && si > 3 && !thorough {
					continue
				}
				if n >= 1<<20 && (kind != "exact" || si > 0) {
					continue
				}
				id++
				file := mkFile(n, kind)
				path := fmt.Sprintf("%s/in%d.wbn", dir, id)
				if err := ioutil.WriteFile(path, file, 0600); err != nil {
					return err
				}
				f, err := os.Open(path)
				if err != nil {
					return err
				}
				ev := map[string]interface{}{"case": fmt.Sprintf("ib%d", id), "kind": "ib", "file": ints(file), "filekind": kind}
				steps := []map[string]interface{}{}
				ids := []map[string]interface{}{}
				out := []int{}
				stack := []map[string]interface{}{}
				ib, offset, oerr := integrityblock.ObtainIntegrityBlock(f)
				ev["obtainerr"] = oerr != nil
				if oerr == nil {
					hash, err := integrityblock.ComputeWebBundleSha512(f, offset)
					if err != nil {
						return err
					}
					// one signer object for the whole history in every other case (state kept in the signer must not
					// leak from one signature to the next), a fresh one per operation otherwise
					shared := &integrityblock.IntegrityBlockSigner{WebBundleHash: hash, IntegrityBlock: ib}
					for k, mode := range seq {
						key := keys[(k+si)%3]
						st := &ibStrategy{priv: key.priv, pub: key.pub, mode: mode}
						if mode == "wrongkey" {
							st.priv = keys[(k+si+1)%3].priv
						}
						ibs := shared
						if id%2 == 0 {
							ibs = &integrityblock.IntegrityBlockSigner{WebBundleHash: hash, IntegrityBlock: ib}
						}
						if mode == "counter" {
							key = keys[2]
							st = &ibStrategy{priv: key.priv, pub: key.pub, mode: "match"}
							counter.WebBundleHash, counter.IntegrityBlock = hash, ib
							ibs = counter
						}
						ibs.SigningStrategy = st
						pub, _ := st.GetPublicKey()
						logged := mode
						if mode == "counter" {
							logged = "match"
						}
						if mode == "builtin" || mode == "builtinbad" {
							pk := append(ed25519.PrivateKey{}, key.priv...)
							if mode == "builtinbad" {
								copy(pk[32:], keys[(k+si+1)%3].pub)
								logged = "garbage"
							} else {
								logged = "match"
							}
							bs := integrityblock.NewParsedEd25519KeySigningStrategy(pk)
							ibs.SigningStrategy = bs
							pub, _ = bs.GetPublicKey()
						}
						attrs := integrityblock.GenerateSignatureAttributesWithPublicKey(pub)
						// extra attributes, inserted in either order
						if r.Intn(2) == 0 {
							attrs["zz-extra"] = randBytes(r, r.Intn(30))
						}
						if r.Intn(2) == 0 {
							attrs["a"] = []byte{}
						}
						// give the key spare capacity, as a caller slicing a larger buffer would
						withCap := make([]byte, 32, 64)
						copy(withCap, pub)
						serr := ibs.SignAndAddNewSignature(ed25519.PublicKey(withCap), attrs)
						steps = append(steps, map[string]interface{}{"strat": logged, "pk": ints(pub), "attrs": attrsOut(attrs), "err": serr != nil, "stacklen": len(ib.SignatureStack)})
						ids = append(ids, map[string]interface{}{"pk": ints(pub), "id": ints([]byte(webbundleid.GetWebBundleId(pub)))})
					}
					for _, is := range ib.SignatureStack {
						stack = append(stack, map[string]interface{}{"attrs": attrsOut(is.SignatureAttributes), "sig": ints(is.Signature)})
					}
					bb, err := ib.CborBytes()
					if err != nil {
						return err
					}
					// writeOutput: block, then the file from the offset
					var ob bytes.Buffer
					ob.Write(bb)
					f.Seek(offset, 0)
					rest, _ := ioutil.ReadAll(f)
					ob.Write(rest)
					out = ints(ob.Bytes())
				}
				f.Close()
				os.Remove(path)
				ev["steps"], ev["stack"], ev["out"], ev["ids"] = steps, stack, out, ids
				emit(ev)
			}
		}
	}
	return nil
}

func init() { register("ib-run", ibRun) }
