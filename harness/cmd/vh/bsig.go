package main

import (
	"bytes"
	"crypto/x509"
	"fmt"
	"math/rand"
	"net/http"
	"net/url"
	"time"

	"github.com/WICG/webpackage/go/bundle"
	"github.com/WICG/webpackage/go/bundle/signature"
	bversion "github.com/WICG/webpackage/go/bundle/version"
	"github.com/WICG/webpackage/go/signedexchange/certurl"
	"github.com/WICG/webpackage/go/verifapi"
)

type vsrec struct {
	Authority []int `json:"authority"`
	Sig       []int `json:"sig"`
	Signed    []int `json:"signed"`
}
type sigrec struct {
	Auths   []ccert `json:"auths"`
	Subsets []vsrec `json:"subsets"`
}

func sigsOf(s *bundle.Signatures) sigrec {
	r := sigrec{Auths: []ccert{}, Subsets: []vsrec{}}
	if s == nil {
		return r
	}
	r.Auths = chainOut(certurl.CertChain(s.Authorities))
	for _, vs := range s.VouchedSubsets {
		r.Subsets = append(r.Subsets, vsrec{u64to(vs.Authority), ints(vs.Sig), ints(vs.Signed)})
	}
	return r
}

type bsigner struct {
	name  string
	kcs   []*keyCert // chain: leaf first
	hosts map[string]bool
}

// one chain object per signer for the whole run (a caller loads its chain once and signs many bundles with it)
var chainCache = map[*bsigner]certurl.CertChain{}

func (s *bsigner) chain() certurl.CertChain {
	if ch, ok := chainCache[s]; ok {
		return ch
	}
	ch := s.newChain()
	chainCache[s] = ch
	return ch
}

func (s *bsigner) newChain() certurl.CertChain {
	var certs []*x509.Certificate
	for _, kc := range s.kcs {
		certs = append(certs, kc.certs[0])
	}
	ch, err := certurl.NewCertChain(certs, []byte("ocsp"), nil)
	if err != nil {
		panic(err)
	}
	return ch
}

func cloneBundle(b *bundle.Bundle) *bundle.Bundle {
	c := *b
	c.Exchanges = nil
	for _, e := range b.Exchanges {
		u := *e.Request.URL
		c.Exchanges = append(c.Exchanges, &bundle.Exchange{Request: bundle.Request{URL: &u}, Response: bundle.Response{Status: e.Response.Status, Header: cloneHeader(e.Response.Header), Body: append([]byte{}, e.Response.Body...)}})
	}
	if b.Signatures != nil {
		s := &bundle.Signatures{}
		for _, a := range b.Signatures.Authorities {
			ac := *a
			s.Authorities = append(s.Authorities, &ac)
		}
		for _, v := range b.Signatures.VouchedSubsets {
			vc := bundle.VouchedSubset{Authority: v.Authority, Sig: append([]byte{}, v.Sig...), Signed: append([]byte{}, v.Signed...)}
			s.VouchedSubsets = append(s.VouchedSubsets, &vc)
		}
		c.Signatures = s
	}
	return &c
}

// signStep mirrors sign-bundle's addSignature on a copy; returns the new bundle or an error (nothing committed).
// signInPlace: the signers of a history work on ONE bundle object, as a program that adds several signatures in memory
// does (the copy signStep otherwise makes before every signer would hide state shared between bundles and signers)
var signInPlace bool

func signStep(b *bundle.Bundle, s *bsigner, date time.Time, dur time.Duration, rs int, signed *[]map[string]interface{}) (*bundle.Bundle, error) {
	nb := cloneBundle(b)
	if signInPlace {
		nb = b
	}
	vu, _ := url.Parse("https://" + s.name + ".example/validity")
	signer, err := signature.NewSigner(nb.Version, s.chain(), s.kcs[0].key, vu, date, dur)
	if err != nil {
		return nil, err
	}
	alg, err := verifapi.SigningAlgorithmForPrivateKey(s.kcs[0].key, crandReader())
	if err != nil {
		return nil, err
	}
	signer.Algorithm = &recorder{alg, s.kcs[0].certs[0].Raw, signed}
	for _, e := range nb.Exchanges {
		if !signer.CanSignForURL(e.Request.URL) || !s.hosts[e.Request.URL.Hostname()] {
			continue // not this certificate's origin, or not what this signing step was asked to vouch for
		}
		pih, err := e.AddPayloadIntegrity(nb.Version, rs)
		if err != nil {
			return nil, err
		}
		if err := signer.AddExchange(e, pih); err != nil {
			return nil, err
		}
	}
	ns, err := signer.UpdateSignatures(nb.Signatures)
	if err != nil {
		return nil, err
	}
	nb.Signatures = ns
	return nb, nil
}

type bsigCtx struct {
	n    int
	urls []string
}

func exsOf(b *bundle.Bundle) []bex {
	return brecOf(b).Exs
}

func (c *bsigCtx) verifyEvent(b *bundle.Bundle, sec int64, ns int, signed []map[string]interface{}, honest bool, expect0 []int, chains []int, orig0 [][]int, note string, file []byte) {
	c.n++
	// expectations are stated per original exchange; align them with the order of this bundle's exchanges
	// (the reader returns exchanges in index order); tampered URLs fall back to "not covered"
	expect, orig := []int{}, [][]int{}
	for _, e := range b.Exchanges {
		k := -1
		for i, u := range c.urls {
			if u == e.Request.URL.String() {
				k = i
			}
		}
		if k < 0 {
			expect, orig = append(expect, -1), append(orig, []int{})
		} else {
			expect, orig = append(expect, expect0[k]), append(orig, orig0[k])
		}
	}
	ev := map[string]interface{}{"case": fmt.Sprintf("s%d", c.n), "kind": "bsig", "ver": string(b.Version), "t": tstamp{u64to(uint64(sec)), ns},
		"sigs": sigsOf(b.Signatures), "exs": exsOf(b), "signed": signed, "honest": honest, "expect": expect, "chains": chains, "orig": orig, "note": note,
		"file": ints(file), "newerr": true, "panic": false}
	results := []map[string]interface{}{}
	func() {
		defer func() {
			if r := recover(); r != nil {
				ev["panic"] = true
			}
		}()
		sigs := b.Signatures
		if sigs == nil {
			sigs = &bundle.Signatures{}
		}
		v, err := signature.NewVerifier(sigs, time.Unix(sec, int64(ns)), b.Version)
		ev["newerr"] = err != nil
		if err != nil {
			return
		}
		for _, e := range b.Exchanges {
			res, err := v.VerifyExchange(e)
			r := map[string]interface{}{"state": "unsigned", "payload": []int{}, "authority": []int{}}
			if err != nil {
				r["state"] = "error"
			} else if res != nil {
				r["state"], r["payload"] = "ok", ints(res.VerifiedPayload)
				if res.Authority != nil && res.Authority.Cert != nil {
					r["authority"] = ints(res.Authority.Cert.Raw)
				}
			}
			results = append(results, r)
		}
	}()
	ev["results"] = results
	emit(ev)
}

type handTime struct {
	date, expires uint64
	at            []int64
	note          string
}

// handTimes: (date, expires) pairs as unsigned 64-bit values around the honest pair (d, d+dur) and at the edges of the
// unsigned / signed 64-bit ranges, each with the verification instants worth looking at
func handTimes(d, dur uint64) []handTime {
	mid := int64(d + dur/2)
	return []handTime{
		{d, d + dur, []int64{int64(d), mid}, "honest values, re-encoded"},
		{0, 3600, []int64{0, 1800, 3600, 3601}, "epoch"},
		{0, d + dur, []int64{mid}, "date 0"},
		{1 << 62, 1<<62 + 3600, []int64{1<<62 + 1800, mid}, "2^62"},
		{1 << 63, d + dur, []int64{mid, int64(d + dur), 0}, "date 2^63"},
		{1<<63 + d, d + dur, []int64{mid, int64(d)}, "date 2^63+d"},
		{1<<63 + d + dur, d + dur, []int64{mid}, "date 2^63+expires"},
		{1<<64 - 1, d + dur, []int64{mid, 0}, "date 2^64-1"},
		{1<<64 - 3600, 1800, []int64{0, 900}, "date -3600 as uint"},
		{d, 1<<63 + d + dur, []int64{mid}, "expires 2^63+"},
		{d, 1<<64 - 1, []int64{mid}, "expires 2^64-1"},
		{d, 1<<63 - 1, []int64{mid}, "expires 2^63-1"},
		{d, d + 604800, []int64{mid, int64(d + 604800)}, "exactly 7 days"},
		{d, d + 604801, []int64{mid}, "7 days + 1 s"},
		{d + dur, d, []int64{mid}, "expires before date"},
	}
}

// reTime rewrites the unsigned integers stored under the text keys "date" and "expires" of an encoded signed-subset
func reTime(signed []byte, date, expires uint64) []byte {
	out := append([]byte{}, signed...)
	for _, kv := range []struct {
		key string
		v   uint64
	}{{"date", date}, {"expires", expires}} {
		pat := append([]byte{0x60 | byte(len(kv.key))}, []byte(kv.key)...)
		i := bytes.Index(out, pat)
		if i < 0 {
			return nil
		}
		p := i + len(pat)
		if p >= len(out) || out[p]>>5 != 0 {
			return nil
		}
		n := 1
		switch ai := out[p] & 0x1f; {
		case ai == 24:
			n = 2
		case ai == 25:
			n = 3
		case ai == 26:
			n = 5
		case ai == 27:
			n = 9
		case ai > 27:
			return nil
		}
		var enc []byte
		switch {
		case kv.v < 24:
			enc = []byte{byte(kv.v)}
		case kv.v < 1<<8:
			enc = []byte{24, byte(kv.v)}
		case kv.v < 1<<16:
			enc = []byte{25, byte(kv.v >> 8), byte(kv.v)}
		case kv.v < 1<<32:
			enc = []byte{26, byte(kv.v >> 24), byte(kv.v >> 16), byte(kv.v >> 8), byte(kv.v)}
		default:
			enc = append([]byte{27}, be8(kv.v)...)
		}
		out = append(append(append([]byte{}, out[:p]...), enc...), out[p+n:]...)
	}
	return out
}

// bsig-run <tier>: C06. Sign / write-read / verify histories with 1..k signers and tampering.
func bsigRun(args []string) error {
	thorough := len(args) > 0 && args[0] == "thorough"
	dstOnly := len(args) > 0 && args[0] == "dst" // run by the check under TZ=America/New_York and TZ=Europe/Berlin
	r := rand.New(rand.NewSource(seed()))
	hostA, hostB := "a.example", "b.example"
	s1 := &bsigner{"s1", []*keyCert{newKeyCert("p256", []string{hostA}, 0)}, map[string]bool{hostA: true}}
	s2 := &bsigner{"s2", []*keyCert{newKeyCert("p384", []string{hostB}, 0)}, map[string]bool{hostB: true}}
	s3 := &bsigner{"s3", []*keyCert{newKeyCert("p256", []string{hostA, hostB}, 0), newKeyCert("p256", []string{"ca.example"}, 50)}, map[string]bool{hostA: true, hostB: true}}
	// s4: host A only, but with a two-certificate chain, so that a later signer's authority index differs from its subset index
	s4 := &bsigner{"s4", []*keyCert{newKeyCert("p384", []string{hostA}, 0), newKeyCert("p256", []string{"ca2.example"}, 30)}, map[string]bool{hostA: true}}
	// s5: a certificate for a host the bundle has no exchange of - its vouched subset is empty (legal: it vouches for nothing)
	s5 := &bsigner{"s5", []*keyCert{newKeyCert("p256", []string{"z.example"}, 0)}, map[string]bool{"z.example": true}}
	// s6: host A with a chain of three certificates (as NewCertChain / ReadCertChain build it: spare capacity behind it)
	s6 := &bsigner{"s6", []*keyCert{newKeyCert("p256", []string{hostA}, 0), newKeyCert("p256", []string{"ca3.example"}, 20), newKeyCert("p256", []string{"root3.example"}, 40)}, map[string]bool{hostA: true}}
	// s7, s8: two certificates (hosts A and B) for ONE key pair, as after a renewal or when one operator certifies two hosts:
	// only auth-sha256 tells them apart
	k7 := newKeyCert("p256", []string{hostA}, 0)
	k8 := renew(k7, 9)
	k8.certs[0].DNSNames = []string{hostB} // the harness decides coverage by its own host table; the certificate bytes stay as signed
	s7 := &bsigner{"s7", []*keyCert{k7}, map[string]bool{hostA: true}}
	s8 := &bsigner{"s8", []*keyCert{k8}, map[string]bool{hostB: true}}
	// s3a, s3b: the certificate and key of s3 used for two signing steps, each vouching for the exchanges of one host only (a
	// site signed in two passes, or an exchange added after the first pass): two vouched subsets that point at ONE leaf
	s3a := &bsigner{"s3", s3.kcs, map[string]bool{hostA: true}}
	s3b := &bsigner{"s3", s3.kcs, map[string]bool{hostB: true}}
	seqs := [][]*bsigner{{s1}, {s6, s2}, {s6, s5}, {s7, s8}, {s3a, s3b}, {s3b, s5, s3a}, {s2}, {s3}, {s5, s1}, {s1, s2}, {s2, s1}, {s1, s3}, {s3, s1}, {s2, s3}, {s1, s2, s3}, {s4}, {s4, s2}, {s2, s4}, {s4, s2, s1}, {s5}, {s2, s5}}
	ctx := &bsigCtx{}
	var prev func()
	week := int64(7 * 24 * 3600)
	for _, ver := range []bversion.Version{bversion.VersionB1, bversion.VersionB2} {
		for si, seq := range seqs {
			// durations; negative entries select fixed (date, duration) pairs next to daylight-saving transitions of
			// America/New_York and Europe/Berlin (the cap is 604800 SECONDS in whatever zone the process runs)
			durs := []int64{3600, week, week + 1, 1}
			dstPairs := [][2]int64{{1520251200, week}, {1520251200, week - 1}, {1540900800, week + 1}, {1540900800, week + 3599}, {1540900800, week},
				{1521633600, week}, {1540296000, week + 1800}}
			if dstOnly {
				durs = nil
				if si == 0 || si == 3 {
					for k := range dstPairs {
						durs = append(durs, int64(-1-k))
					}
				}
			}
			for _, dur := range durs {
				if dur != 3600 && si > 3 && !thorough && !dstOnly {
					continue
				}
				rs := []int{1, 16, 4096}[r.Intn(3)]
				date := int64(1000000000 + r.Intn(1000000000))
				if dur < 0 {
					date, dur = dstPairs[-1-dur][0], dstPairs[-1-dur][1]
				}
				b := &bundle.Bundle{Version: ver}
				pu, _ := url.Parse("https://a.example/x")
				b.PrimaryURL = pu
				orig := [][]int{}
				for i, us := range []string{"https://a.example/x", "https://b.example/y?q=1", "https://c.example/z"} {
					u, _ := url.Parse(us)
					body := randBytes(r, []int{0, 5, 40}[(i+si)%3])
					h := http.Header{}
					h.Add("Content-Type", "text/plain")
					if i == 1 {
						h.Add("X-Multi", "a")
						h.Add("X-Multi", "b")
					}
					// header names that mean something to ANOTHER layer of the format (content negotiation of the b1 index, the
					// signed-exchange layer) are ordinary response headers of the one representation of this URL
					if si%2 == 1 && i == 0 {
						h.Add("Variants", "Accept-Language;en")
						h.Add("Variant-Key", "en")
						h.Add("Vary", "Accept-Language")
					}
					// a response that already declares a content coding of its own: the integrity coding is added on top of it
					if si%3 == 2 && i == 1 {
						h.Add("Content-Encoding", "gzip")
					}
					if si%2 == 1 && i == 2 {
						h.Add("Variants", "Accept-Encoding;gzip;br, Accept-Language;en")
						h.Add("Link", "<https://c.example/s.css>;rel=preload")
						h.Add("Signature", "unrelated;sig=*AAAA*")
					}
					b.Exchanges = append(b.Exchanges, &bundle.Exchange{Request: bundle.Request{URL: u}, Response: bundle.Response{Status: 200 + i, Header: h, Body: body}})
					orig = append(orig, ints(body))
				}
				ctx.urls = nil
				for _, e := range b.Exchanges {
					ctx.urls = append(ctx.urls, e.Request.URL.String())
				}
				b0 := cloneBundle(b) // the bundle before anybody signed it
				var signed []map[string]interface{}
				expect := []int{-1, -1, -1}
				chains := []int{}
				signersDone := []*bsigner{}
				signInPlace = seq[0] == s6 || si%3 == 0
				for _, s := range seq {
					nb, err := signStep(b, s, time.Unix(date, 0), time.Duration(dur)*time.Second, rs, &signed)
					if err != nil {
						continue // refused (e.g. an exchange already carries a Digest header): nothing committed
					}
					for _, e := range b.Exchanges {
						for i, u := range ctx.urls {
							if u == e.Request.URL.String() && expect[i] < 0 && s.hosts[e.Request.URL.Hostname()] {
								expect[i] = len(chains)
							}
						}
					}
					chains = append(chains, len(s.kcs))
					signersDone = append(signersDone, s)
					b = nb
					// optional write/read round trip between signers
					if r.Intn(2) == 0 && seq[0] != s6 {
						f, _, werr, _ := writeBundle(b, "plain")
						if werr != nil {
							return werr
						}
						rb, verdict := readBundle(f)
						if verdict != "ok" {
							return fmt.Errorf("harness: signed bundle does not read back (%s)", verdict)
						}
						b = rb
					}
				}
				signInPlace = false
				file, _, werr, _ := writeBundle(b, "plain")
				if werr != nil {
					return werr
				}
				fb, verdict := readBundle(file)
				if verdict != "ok" {
					return fmt.Errorf("harness: final signed bundle does not read back (%s)", verdict)
				}
				exp := date + dur
				// the bundle of the PREVIOUS history, looked at again now that other bundles have been signed with the same
				// signer objects: signing one bundle must not reach into another
				if prev != nil {
					prev()
				}
				{
					pb, pdate, pdur, psigned, pexpect, pchains, porig, purls := b, date, dur, signed, expect, chains, orig, ctx.urls
					prev = func() {
						saved := ctx.urls
						ctx.urls = purls
						ctx.verifyEvent(cloneBundle(pb), pdate+pdur/2, 0, psigned, true, pexpect, pchains, porig, "honest mem, looked at again after the next bundle was signed", nil)
						ctx.urls = saved
					}
				}
				for _, t := range [][2]int64{{date - 1, 0}, {date, 0}, {date + dur/2, 0}, {exp, 0}, {exp, 1}, {exp + 1, 0}} {
					ctx.verifyEvent(cloneBundle(b), t[0], int(t[1]), signed, true, expect, chains, orig, "honest mem", nil)
					ctx.verifyEvent(cloneBundle(fb), t[0], int(t[1]), signed, true, expect, chains, orig, "honest file", file)
				}
				if dur != 3600 {
					continue
				}
				mid := date + 1800
				tam := func(note string, f func(x *bundle.Bundle)) {
					x := cloneBundle(fb)
					f(x)
					ctx.verifyEvent(x, mid, 0, signed, false, expect, chains, orig, note, nil)
				}
				for i := range fb.Exchanges {
					i := i
					tam("status", func(x *bundle.Bundle) { x.Exchanges[i].Response.Status++ })
					tam("header value", func(x *bundle.Bundle) { x.Exchanges[i].Response.Header.Set("Content-Type", "text/html") })
					tam("header add", func(x *bundle.Bundle) { x.Exchanges[i].Response.Header.Add("X-New", "1") })
					tam("header del", func(x *bundle.Bundle) { x.Exchanges[i].Response.Header.Del("Content-Type") })
					tam("url", func(x *bundle.Bundle) { x.Exchanges[i].Request.URL.Path += "2" })
					for k := 0; k < len(fb.Exchanges[i].Response.Body); k++ {
						if thorough || k < 12 || k%5 == 0 {
							k := k
							tam("body byte", func(x *bundle.Bundle) { x.Exchanges[i].Response.Body[k] ^= 1 << uint(r.Intn(8)) })
						}
					}
					tam("body truncate", func(x *bundle.Bundle) {
						if n := len(x.Exchanges[i].Response.Body); n > 0 {
							x.Exchanges[i].Response.Body = x.Exchanges[i].Response.Body[:n-1]
						}
					})
					tam("body+digest", func(x *bundle.Bundle) {
						e := &bundle.Exchange{Request: x.Exchanges[i].Request, Response: bundle.Response{Status: 200, Header: http.Header{}, Body: []byte("evil content")}}
						e.AddPayloadIntegrity(x.Version, 16)
						x.Exchanges[i].Response.Body = e.Response.Body
						x.Exchanges[i].Response.Header.Set("Digest", e.Response.Header.Get("Digest"))
					})
				}
				if fb.Signatures != nil {
					for k := range fb.Signatures.VouchedSubsets {
						k := k
						vs := fb.Signatures.VouchedSubsets[k]
						for j := 0; j < len(vs.Signed); j++ {
							if thorough || j%3 == 0 {
								j := j
								tam("signed byte", func(x *bundle.Bundle) { x.Signatures.VouchedSubsets[k].Signed[j] ^= 1 << uint(r.Intn(8)) })
							}
						}
						for j := 0; j < len(vs.Sig); j++ {
							if thorough || j%4 == 0 {
								j := j
								tam("sig byte", func(x *bundle.Bundle) { x.Signatures.VouchedSubsets[k].Sig[j] ^= 1 << uint(r.Intn(8)) })
							}
						}
						tam("authority+1", func(x *bundle.Bundle) { x.Signatures.VouchedSubsets[k].Authority++ })
						tam("authority-1", func(x *bundle.Bundle) { x.Signatures.VouchedSubsets[k].Authority-- })
						tam("authority huge", func(x *bundle.Bundle) { x.Signatures.VouchedSubsets[k].Authority = 1 << 63 })
					}
					if len(fb.Signatures.Authorities) > 1 {
						tam("authorities swapped", func(x *bundle.Bundle) {
							a := x.Signatures.Authorities
							a[0], a[1] = a[1], a[0]
						})
					}
					if len(fb.Signatures.VouchedSubsets) > 1 {
						tam("subsets swapped", func(x *bundle.Bundle) {
							a := x.Signatures.VouchedSubsets
							a[0], a[1] = a[1], a[0]
						})
					}
					tam("authority replaced", func(x *bundle.Bundle) {
						x.Signatures.Authorities[0] = &certurl.AugmentedCertificate{Cert: newKeyCert("p256", []string{hostA}, 0).certs[0], OCSPResponse: []byte("o")}
					})
				}
				// two EDITIONS of one signed base: a bundle signed by a publisher (chain of three certificates, vouching for nothing
				// here) is read from its file; two programs' worth of work then happens on it in one process - edition A gets a
				// signer for host A, edition B another signer that vouches for nothing - both through the Signatures value the
				// reader returned.  Edition A, looked at again after edition B was signed, is still a bundle whose every vouched
				// subset points at its own signer's leaf certificate and whose host-A exchange verifies.
				if si == 0 {
					z9 := &bsigner{"z9", []*keyCert{newKeyCert("p256", []string{"z.example"}, 0), newKeyCert("p256", []string{"ca9.example"}, 20), newKeyCert("p256", []string{"root9.example"}, 40)}, map[string]bool{"z.example": true}}
					var esigned []map[string]interface{}
					signInPlace = false
					if base, err := signStep(b0, z9, time.Unix(date, 0), time.Duration(dur)*time.Second, rs, &esigned); err == nil {
						if bf, _, werr, _ := writeBundle(base, "plain"); werr == nil {
							if rb, verdict := readBundle(bf); verdict == "ok" {
								edA, edB := cloneBundle(rb), cloneBundle(rb)
								edA.Signatures, edB.Signatures = rb.Signatures, rb.Signatures // what the reader returned, shared
								signInPlace = true
								nA, errA := signStep(edA, s1, time.Unix(date, 0), time.Duration(dur)*time.Second, rs, &esigned)
								if errA == nil {
									ctx.verifyEvent(cloneBundle(nA), mid, 0, esigned, true, []int{1, -1, -1}, []int{3, 1}, orig, "edition A of a signed base, right after it was signed", nil)
									if nB, errB := signStep(edB, s5, time.Unix(date, 0), time.Duration(dur)*time.Second, rs, &esigned); errB == nil {
										ctx.verifyEvent(cloneBundle(nA), mid, 0, esigned, true, []int{1, -1, -1}, []int{3, 1, 1}, orig, "edition A of a signed base, looked at again after edition B was signed", nil)
										ctx.verifyEvent(cloneBundle(nB), mid, 0, esigned, false, []int{-1, -1, -1}, []int{3, 1, 1}, orig, "edition B of a signed base", nil)
										if fa, _, werr, _ := writeBundle(nA, "plain"); werr == nil {
											if ra, v := readBundle(fa); v == "ok" {
												ctx.verifyEvent(ra, mid, 0, esigned, true, []int{1, -1, -1}, []int{3, 1, 1}, orig, "edition A of a signed base, written and read after edition B was signed", fa)
											}
										}
									}
								}
								signInPlace = false
							}
						}
					}
				}
				// signed-subsets the KEY HOLDER signed with timestamps SignedSubset.Encode never writes (CBOR unsigned integers
				// up to 2^64-1, far past and far future): the signature is genuine, so only the verifier's own rules about
				// date / expires (signed 64-bit seconds, at most 7 days apart, window contains t) decide
				if fb.Signatures != nil && len(signersDone) == len(fb.Signatures.VouchedSubsets) {
					for k, vs := range fb.Signatures.VouchedSubsets {
						sk := signersDone[k]
						for _, tv := range handTimes(uint64(date), uint64(dur)) {
							ns := reTime(vs.Signed, tv.date, tv.expires)
							if ns == nil {
								return fmt.Errorf("harness: date / expires not found in a signed-subset")
							}
							alg, err := verifapi.SigningAlgorithmForPrivateKey(sk.kcs[0].key, crandReader())
							if err != nil {
								return err
							}
							rsigned := append([]map[string]interface{}{}, signed...)
							rec := &recorder{alg, sk.kcs[0].certs[0].Raw, &rsigned}
							msg := append(bytes.Repeat([]byte{0x20}, 64), []byte(fb.Version.SignatureContextString())...)
							msg = append(append(msg, 0), ns...)
							sig, err := rec.Sign(msg)
							if err != nil {
								return err
							}
							for _, t := range tv.at {
								x := cloneBundle(fb)
								x.Signatures.VouchedSubsets[k].Signed, x.Signatures.VouchedSubsets[k].Sig = append([]byte{}, ns...), append([]byte{}, sig...)
								ctx.verifyEvent(x, t, 0, rsigned, false, expect, chains, orig, "re-signed by the key holder with hand-made timestamps "+tv.note, nil)
							}
						}
					}
				}
				// file-level: every byte of the file region holding the signatures section and beyond (sampled)
				for j := 0; j < len(file); j++ {
					if thorough || j%4 == si%4 {
						m := append([]byte{}, file...)
						m[j] ^= 1 << uint(r.Intn(8))
						if mb, v := readBundle(m); v == "ok" {
							ctx.verifyEvent(mb, mid, 0, signed, false, expect, chains, orig, "file bitflip", m)
						}
					}
				}
			}
		}
	}
	return nil
}

func init() { register("bsig-run", bsigRun) }
