package main

import (
	"fmt"
	"bytes"
	"encoding/json"
	"math"
	"math/rand"
	"sort"
	"strconv"

	sh "github.com/WICG/webpackage/go/signedexchange/structuredheader"
)

type shItem struct {
	T string `json:"t"`
	V []int  `json:"v"`
}
type shParam struct {
	K []int  `json:"k"`
	V shItem `json:"v"`
}
type shPI struct {
	Label  []int     `json:"label"`
	Params []shParam `json:"params"`
}

func itemOut(i sh.Item) shItem {
	switch v := i.(type) {
	case int64:
		return shItem{"int", ints([]byte(strconv.FormatInt(v, 10)))}
	case string:
		return shItem{"str", ints([]byte(v))}
	case sh.Token:
		return shItem{"tok", ints([]byte(v))}
	case []byte:
		return shItem{"bin", ints(v)}
	case nil:
		return shItem{"nil", []int{}}
	}
	return shItem{"unsupported", []int{}}
}

func itemIn(i shItem) sh.Item {
	switch i.T {
	case "int":
		n, _ := strconv.ParseInt(string(unints(i.V)), 10, 64)
		return n
	case "str":
		return string(unints(i.V))
	case "tok":
		return sh.Token(unints(i.V))
	case "bin":
		return unints(i.V)
	case "nil":
		return nil
	}
	return 3.25 // an unsupported Go type
}

func llOut(ll sh.ListOfLists) [][]shItem {
	r := [][]shItem{}
	for _, l := range ll {
		in := []shItem{}
		for _, it := range l {
			in = append(in, itemOut(it))
		}
		r = append(r, in)
	}
	return r
}

// plOut lists parameters in sorted key order (Go maps have no order).
func plOut(pl sh.ParameterisedList) []shPI {
	r := []shPI{}
	for _, pi := range pl {
		o := shPI{Label: ints([]byte(pi.Label)), Params: []shParam{}}
		var keys []string
		for k := range pi.Params {
			keys = append(keys, string(k))
		}
		sort.Strings(keys)
		for _, k := range keys {
			o.Params = append(o.Params, shParam{ints([]byte(k)), itemOut(pi.Params[sh.Key(k)])})
		}
		r = append(r, o)
	}
	return r
}

func shParseBoth(s []byte) map[string]interface{} {
	ev := map[string]interface{}{"s": ints(s), "ll": false, "pl": false, "panic": false}
	func() {
		defer func() {
			if r := recover(); r != nil {
				ev["panic"] = true
			}
		}()
		if ll, err := sh.ParseListOfLists(string(s)); err == nil {
			ev["ll"] = true
			ev["llv"] = llOut(ll)
			out, err := ll.String()
			ev["llser_err"] = err != nil
			ev["llout"] = ints([]byte(out))
			if ll2, err := sh.ParseListOfLists(out); err == nil {
				ev["llv2"] = llOut(ll2)
				ev["llv2ok"] = true
			} else {
				ev["llv2"] = []int{}
				ev["llv2ok"] = false
			}
		}
		if pl, err := sh.ParseParameterisedList(string(s)); err == nil {
			ev["pl"] = true
			ev["plv"] = plOut(pl)
			out, err := pl.String()
			ev["plser_err"] = err != nil
			ev["plout"] = ints([]byte(out))
			if pl2, err := sh.ParseParameterisedList(out); err == nil {
				ev["plv2"] = plOut(pl2)
				ev["plv2ok"] = true
			} else {
				ev["plv2"] = []int{}
				ev["plv2ok"] = false
			}
		}
	}()
	return ev
}

type shSpace struct {
	MaxLen   int   `json:"maxlen"`
	Alphabet []int `json:"alphabet"`
	Prefix   []int `json:"prefix"`
}

// sh-enum: enumerate the same space as MC_SH; print every input accepted by either real parser
// (with value, re-serialisation and re-parse) and the totals.
func shEnum(args []string) error {
	var sp shSpace
	if err := json.Unmarshal([]byte(args[0]), &sp); err != nil {
		return err
	}
	total, panics := 0, 0
	visit := func(s []byte) {
		total++
		ev := shParseBoth(s)
		if ev["panic"].(bool) {
			panics++
			emit(ev)
		} else if ev["ll"].(bool) || ev["pl"].(bool) {
			emit(ev)
		}
	}
	var rec func(s []byte)
	rec = func(s []byte) {
		if len(s) >= sp.MaxLen {
			return
		}
		for _, c := range sp.Alphabet {
			t := append(append([]byte{}, s...), byte(c))
			visit(t)
			rec(t)
		}
	}
	p := unints(sp.Prefix)
	visit(p)
	rec(p)
	emit(map[string]interface{}{"total": total, "panics": panics})
	return nil
}

// sh-list: parse explicit inputs (one JSON array per line).
func shList(args []string) error {
	return eachLine(func(line []byte) error {
		var a []int
		if err := json.Unmarshal(line, &a); err != nil {
			return err
		}
		emit(shParseBoth(unints(a)))
		return nil
	})
}

// sh-insert: strings beyond the exhaustive lengths, derived from valid ones: at every position of each base string, one copy
// of every byte value, and 2 / 3 / 4 / 8 copies (and CR LF pairs) of the bytes that underlying library routines (base64,
// strconv, unicode) are lenient about.  Both parsers run on each; Trace_SH (kind "parse") compares with the reference parsers.
func shInsert(args []string) error {
	bases := []string{"*YQ==*", "*YWI=*", "*YWJj*", "*YQ==*;a", "\"a b\"", "a;b=*YQ==*;c=\"x\"", "tok, 12", "a;k=1, b;j", "-12", "*YWJjZA==*, \"s\""}
	lenient := []byte{0, 9, 10, 11, 12, 13, 32, '=', '*', '"', '\\', '-', '_', '+', '/', '.', 127, 128, 0xc2, 255}
	id := 0
	put := func(s []byte) {
		id++
		ev := shParseBoth(s)
		ev["case"], ev["kind"] = fmt.Sprintf("ins/%d", id), "parse"
		for _, k := range []string{"llv", "plv"} {
			if _, ok := ev[k]; !ok {
				ev[k] = []int{}
			}
		}
		emit(ev)
	}
	for _, b := range bases {
		for p := 0; p <= len(b); p++ {
			ins := func(x []byte) { put(append(append(append([]byte{}, b[:p]...), x...), b[p:]...)) }
			for c := 0; c < 256; c++ {
				ins([]byte{byte(c)})
			}
			for _, c := range lenient {
				for _, k := range []int{2, 3, 4, 8} {
					ins(bytes.Repeat([]byte{c}, k))
				}
			}
			for _, x := range []string{"\r\n", "\r\n\r\n", "\n\n\r\r", " \t", "=\n", "=\n=\n\n\n"} {
				ins([]byte(x))
			}
		}
	}
	return nil
}

func genItem(r *rand.Rand, allowBad bool) shItem {
	tokChars := "abcXYZ019_-.:%*/"
	switch r.Intn(9) {
	case 0:
		v := []int64{0, 1, -1, math.MaxInt64, math.MinInt64, math.MaxInt64 - 1, math.MinInt64 + 1, 999999999999999, -999999999999999}[r.Intn(9)]
		return shItem{"int", ints([]byte(strconv.FormatInt(v, 10)))}
	case 1:
		return shItem{"int", ints([]byte(strconv.FormatInt(int64(r.Uint64()>>uint(r.Intn(64)))*int64(1-2*r.Intn(2)), 10)))}
	case 2, 3:
		n := r.Intn(12)
		b := make([]byte, n)
		for i := range b {
			switch r.Intn(6) {
			case 0:
				b[i] = '"'
			case 1:
				b[i] = '\\'
			default:
				b[i] = byte(32 + r.Intn(95))
			}
		}
		if allowBad && n > 0 && r.Intn(6) == 0 {
			b[r.Intn(n)] = []byte{0, 9, 10, 31, 127, 128, 200, 255}[r.Intn(8)]
		}
		return shItem{"str", ints(b)}
	case 4, 5:
		n := 1 + r.Intn(8)
		b := make([]byte, n)
		b[0] = "abzAZq"[r.Intn(6)]
		for i := 1; i < n; i++ {
			b[i] = tokChars[r.Intn(len(tokChars))]
		}
		if allowBad && r.Intn(6) == 0 {
			switch r.Intn(4) {
			case 0:
				b[0] = "1_*-"[r.Intn(4)]
			case 1:
				b[r.Intn(n)] = " ;,=\"@\x80"[r.Intn(7)]
			case 2:
				b = []byte{}
			default:
				// non-ASCII runes, including ones whose low byte is an allowed token character (U+0161 -> 'a', U+012D -> '-')
				b = append(b, []byte([]string{"\u00e9", "\u0161", "\u0141", "\u012d", "\u0130", "\uff5f"}[r.Intn(6)])...)
			}
		}
		return shItem{"tok", ints(b)}
	case 6, 7:
		return shItem{"bin", ints(randBytes(r, r.Intn(10)))}
	default:
		if allowBad && r.Intn(3) == 0 {
			return shItem{"unsupported", []int{}}
		}
		return shItem{"bin", ints(randBytes(r, []int{0, 1, 2, 3, 30, 31, 32}[r.Intn(7)]))}
	}
}

// sh-gen N: random values of every item type (valid and invalid) through the real writer, then
// the real parser on the result.
func shGen(args []string) error {
	n, _ := strconv.Atoi(args[0])
	r := rand.New(rand.NewSource(seed()))
	keyChars := "abz019_-"
	for id := 1; id <= n; id++ {
		bad := r.Intn(3) == 0
		if r.Intn(2) == 0 {
			var v [][]shItem
			ll := sh.ListOfLists{}
			for i := 0; i < r.Intn(4); i++ {
				in := []shItem{}
				gl := []sh.Item{}
				for j := 0; j < r.Intn(4); j++ {
					it := genItem(r, bad)
					if bad && r.Intn(12) == 0 {
						it = shItem{"nil", []int{}}
					}
					in = append(in, it)
					gl = append(gl, itemIn(it))
				}
				if len(in) == 0 && !bad {
					it := genItem(r, false)
					in = append(in, it)
					gl = append(gl, itemIn(it))
				}
				v = append(v, in)
				ll = append(ll, gl)
			}
			if len(v) == 0 && !bad {
				it := genItem(r, false)
				v = append(v, []shItem{it})
				ll = append(ll, []sh.Item{itemIn(it)})
			}
			if v == nil {
				v = [][]shItem{}
			}
			out, err := ll.String()
			ev := map[string]interface{}{"case": id, "kind": "ll", "v": v, "err": err != nil, "out": ints([]byte(out)), "v2": []int{}, "v2ok": false}
			if err == nil {
				if ll2, e2 := sh.ParseListOfLists(out); e2 == nil {
					ev["v2"] = llOut(ll2)
					ev["v2ok"] = true
				}
			}
			emit(ev)
		} else {
			v := []shPI{}
			pl := sh.ParameterisedList{}
			for i := 0; i < r.Intn(4); i++ {
				lab := genItem(r, false)
				for lab.T != "tok" {
					lab = genItem(r, false)
				}
				if bad && r.Intn(6) == 0 {
					lab.V = ints([]byte([]string{"1x", "", "_l", "a b", "a,b", "caf\u00e9", "a;b=1, c", "a\"b"}[r.Intn(8)]))
				}
				pi := shPI{Label: lab.V, Params: []shParam{}}
				gp := sh.ParameterisedIdentifier{Label: sh.Token(unints(lab.V)), Params: sh.Parameters{}}
				seen := map[string]bool{}
				for j := 0; j < r.Intn(5); j++ {
					kn := 1 + r.Intn(5)
					k := make([]byte, kn)
					k[0] = "abz"[r.Intn(3)]
					for x := 1; x < kn; x++ {
						k[x] = keyChars[r.Intn(len(keyChars))]
					}
					if bad && r.Intn(8) == 0 {
						k[0] = "A1_"[r.Intn(3)]
					}
					if bad && r.Intn(8) == 0 {
						k = append(k, []byte([]string{"\u0161", "\u012d", "\u0130", "\uff5f", "\u00e9"}[r.Intn(5)])...)
					}
					if seen[string(k)] {
						continue
					}
					seen[string(k)] = true
					it := genItem(r, bad)
					if r.Intn(4) == 0 {
						it = shItem{"nil", []int{}}
					}
					pi.Params = append(pi.Params, shParam{ints(k), it})
					gp.Params[sh.Key(k)] = itemIn(it)
				}
				sort.Slice(pi.Params, func(a, b int) bool { return string(unints(pi.Params[a].K)) < string(unints(pi.Params[b].K)) })
				v = append(v, pi)
				pl = append(pl, gp)
			}
			if len(v) == 0 && !bad {
				v = append(v, shPI{Label: ints([]byte("a")), Params: []shParam{}})
				pl = append(pl, sh.ParameterisedIdentifier{Label: "a", Params: sh.Parameters{}})
			}
			out, err := pl.String()
			if len(pl) == 1 && r.Intn(2) == 0 {
				// the other entry point: one identifier serialised on its own (what the signed-exchange signer does)
				out, err = pl[0].String()
			}
			ev := map[string]interface{}{"case": id, "kind": "pl", "v": v, "err": err != nil, "out": ints([]byte(out)), "v2": []int{}, "v2ok": false}
			if err == nil {
				if pl2, e2 := sh.ParseParameterisedList(out); e2 == nil {
					ev["v2"] = plOut(pl2)
					ev["v2ok"] = true
				}
			}
			emit(ev)
		}
	}
	return nil
}

func init() {
	register("sh-enum", shEnum)
	register("sh-list", shList)
	register("sh-insert", shInsert)
	register("sh-gen", shGen)
}
