package main

import (
	"bytes"
	"encoding/json"
	"fmt"
	"io"
	"math/rand"
	"net/http"
	"net/url"
	"sort"
	"strconv"
	"strings"

	"github.com/WICG/webpackage/go/bundle"
	bversion "github.com/WICG/webpackage/go/bundle/version"
)

type bex struct {
	URL    []int  `json:"url"`
	Status int    `json:"status"`
	Hdrs   []hent `json:"hdrs"`
	Body   []int  `json:"body"`
}

// brec mirrors the bundle record of tla/Bundle.tla.
type brec struct {
	Ver         string `json:"ver"`
	HasPrimary  bool   `json:"hasprimary"`
	Primary     []int  `json:"primary"`
	HasManifest bool   `json:"hasmanifest"`
	Manifest    []int  `json:"manifest"`
	HasSigs     bool   `json:"hassigs"`
	Sigs        []int  `json:"sigs"`
	Exs         []bex  `json:"exs"`
}

func bundleOf(b *brec) (*bundle.Bundle, error) {
	r := &bundle.Bundle{Version: bversion.Version(b.Ver)}
	if b.HasPrimary {
		u, err := url.Parse(string(unints(b.Primary)))
		if err != nil {
			return nil, err
		}
		r.PrimaryURL = u
	}
	if b.HasManifest {
		u, err := url.Parse(string(unints(b.Manifest)))
		if err != nil {
			return nil, err
		}
		r.ManifestURL = u
	}
	for _, e := range b.Exs {
		u, err := url.Parse(string(unints(e.URL)))
		if err != nil {
			return nil, err
		}
		h := http.Header{}
		for _, he := range e.Hdrs {
			var vs []string
			for _, v := range he.Vs {
				vs = append(vs, string(unints(v)))
			}
			h[string(unints(he.N))] = vs
		}
		r.Exchanges = append(r.Exchanges, &bundle.Exchange{Request: bundle.Request{URL: u}, Response: bundle.Response{Status: e.Status, Header: h, Body: unints(e.Body)}})
	}
	return r, nil
}

func brecOf(b *bundle.Bundle) brec {
	r := brec{Ver: string(b.Version), Primary: []int{}, Manifest: []int{}, Sigs: []int{}, Exs: []bex{}}
	if b.PrimaryURL != nil {
		r.HasPrimary, r.Primary = true, ints([]byte(b.PrimaryURL.String()))
	}
	if b.ManifestURL != nil {
		r.HasManifest, r.Manifest = true, ints([]byte(b.ManifestURL.String()))
	}
	r.HasSigs = b.Signatures != nil
	for _, e := range b.Exchanges {
		st := e.Response.Status
		if st < 0 || st > 1000000000 {
			st = -1
		}
		r.Exs = append(r.Exs, bex{ints([]byte(e.Request.URL.String())), st, hOf(e.Response.Header), ints(e.Response.Body)})
	}
	return r
}

// destination writers: with / without io.ReaderFrom, whole or bytewise
type plainDest struct{ buf bytes.Buffer }

func (d *plainDest) Write(p []byte) (int, error) { return d.buf.Write(p) }

type rfDest struct{ plainDest }

func (d *rfDest) ReadFrom(r io.Reader) (int64, error) { return d.buf.ReadFrom(r) }

type byteDest struct{ buf bytes.Buffer }

func (d *byteDest) Write(p []byte) (int, error) {
	for _, c := range p {
		d.buf.WriteByte(c)
	}
	return len(p), nil
}

func writeBundle(b *bundle.Bundle, dest string) (file []byte, count int64, err error, panicked bool) {
	defer func() {
		if r := recover(); r != nil {
			panicked = true
			err = fmt.Errorf("panic: %v", r)
		}
	}()
	switch dest {
	case "rf":
		d := &rfDest{}
		count, err = b.WriteTo(d)
		file = d.buf.Bytes()
	case "bytewise":
		d := &byteDest{}
		count, err = b.WriteTo(d)
		file = d.buf.Bytes()
	case "counting":
		// the destination is itself a CountingWriter that has already passed a preamble on:
		// the bundle (its byte count, its trailing length) must not depend on what came before it
		d := &plainDest{}
		cw := bundle.NewCountingWriter(d)
		cw.Write([]byte("preface"))
		count, err = b.WriteTo(cw)
		file = d.buf.Bytes()[7:]
	default:
		d := &plainDest{}
		count, err = b.WriteTo(d)
		file = d.buf.Bytes()
	}
	return
}

func readBundle(file []byte) (b *bundle.Bundle, verdict string) {
	verdict = "ok"
	defer func() {
		if r := recover(); r != nil {
			verdict = "panic"
			b = nil
		}
	}()
	// exact-capacity copy behind a reader that hides its size: the reader's own buffer decides spare capacity
	var err error
	b, err = bundle.Read(bytes.NewReader(file))
	if err != nil {
		return nil, "error"
	}
	return b, "ok"
}

func emptyB() brec { return brec{Primary: []int{}, Manifest: []int{}, Sigs: []int{}, Exs: []bex{}} }

// wrEvent: write (one destination kind), read back, and two more write/read cycles.
func wrEvent(id string, in *brec, dest string) {
	ev := map[string]interface{}{"case": id, "kind": "wr", "b": in, "dest": dest}
	b, err := bundleOf(in)
	if err != nil {
		return // URL the harness itself cannot parse: not a case
	}
	// Bundle.Validate (what gen-bundle calls before writing): the primary URL, if any, names one of the exchanges
	ev["valerr"] = func() (bad bool) {
		defer func() {
			if rec := recover(); rec != nil {
				bad = true
			}
		}()
		return b.Validate() != nil
	}()
	file, count, werr, pan := writeBundle(b, dest)
	ev["werr"], ev["wpanic"], ev["count"] = werr != nil, pan, count
	ev["file"], ev["verdict"], ev["b2"], ev["file2"], ev["file3"] = []int{}, "error", emptyB(), []int{}, []int{}
	ev["accepted"] = len(file)
	if werr == nil {
		ev["file"] = ints(file)
		b2, verdict := readBundle(file)
		ev["verdict"] = verdict
		if verdict == "ok" {
			ev["b2"] = brecOf(b2)
			f2, _, err2, _ := writeBundle(b2, "plain")
			if err2 == nil {
				ev["file2"] = ints(f2)
				if b3, v3 := readBundle(f2); v3 == "ok" {
					if f3, _, err3, _ := writeBundle(b3, "plain"); err3 == nil {
						ev["file3"] = ints(f3)
					}
				}
			}
		}
	}
	emit(ev)
}

func rdEvent(id string, file []byte, note string) {
	b2, verdict := readBundle(file)
	ev := map[string]interface{}{"case": id, "kind": "rd", "file": ints(file), "verdict": verdict, "note": note, "b2": emptyB()}
	if verdict == "ok" {
		ev["b2"] = brecOf(b2)
	}
	emit(ev)
}

// bundle-replay: stdin = VEC lines of MC_Bundle ({"b":..., "refused":...})
func bundleReplay(args []string) error {
	id := 0
	dests := []string{"plain", "rf", "bytewise", "counting"}
	return eachLine(func(line []byte) error {
		var v struct {
			B brec `json:"b"`
		}
		if err := json.Unmarshal(line, &v); err != nil {
			return err
		}
		id++
		wrEvent("mc"+strconv.Itoa(id), &v.B, dests[id%4])
		return nil
	})
}

func genURL(r *rand.Rand) string {
	host := []string{"a.test", "example.com", "example.com:8443", "b.example"}[r.Intn(4)]
	switch r.Intn(8) {
	case 0:
		return "https://" + host + "/"
	case 1:
		return "https://" + host + randPath(r, 1+r.Intn(30)) + "?q=" + randToken(r, 1+r.Intn(6))
	case 2:
		return "https://" + host + "/a%20b/" + randToken(r, 3) + "%41"
	case 3:
		return randPath(r, 1+r.Intn(10)) // relative reference
	case 4:
		return "https://" + host + randPath(r, []int{200, 240, 260}[r.Intn(3)])
	case 5:
		return "http://" + host + randPath(r, 5)
	default:
		return "https://" + host + randPath(r, 1+r.Intn(20))
	}
}

// variantExs: the representations of https://v.test/variants over the axes set `shape`, in one of six modes:
// 0 incomplete, 1 two representations claim one key, 2 one representation names its key twice, 3 one representation
// lists two keys, 4 and 5 complete and non-overlapping
func variantExs(r *rand.Rand, shape, mode int) []bex {
	axes := [][][]string{{{"Accept-Language", "en", "fr"}}, {{"Accept-Language", "en", "fr"}, {"A", "x", "y", "z"}},
		{{"Accept-Encoding", "gzip", "br"}, {"Accept-Language", "en", "fr", "ja"}, {"Accept", "text", "image"}}, {{"a", "p", "q"}, {"b", "p", "q"}, {"c", "p", "q"}}}[shape]
	var vparts []string
	for _, ax := range axes {
		vparts = append(vparts, strings.Join(ax, ";"))
	}
	variants := strings.Join(vparts, ", ")
	var keys [][]string
	var rec func(i int, cur []string)
	rec = func(i int, cur []string) {
		if i == len(axes) {
			keys = append(keys, append([]string{}, cur...))
			return
		}
		for _, v := range axes[i][1:] {
			rec(i+1, append(cur, v))
		}
	}
	rec(0, nil)
	r.Shuffle(len(keys), func(a, c int) { keys[a], keys[c] = keys[c], keys[a] })
	twice := -1
	switch mode {
	case 0:
		keys = keys[1:]
	case 1:
		keys = append(keys, keys[0])
	case 2:
		twice = r.Intn(len(keys))
	case 3:
		twice = -2
	}
	var out []bex
	for ki, k := range keys {
		vk := strings.Join(k, ";")
		if ki == twice {
			vk = vk + ", " + vk
		}
		if twice == -2 && ki == 0 && len(keys) > 1 {
			vk = vk + ", " + strings.Join(keys[1], ";")
		}
		if twice == -2 && ki == 1 {
			continue
		}
		out = append(out, bex{URL: ints([]byte("https://v.test/variants")), Status: 200, Hdrs: []hent{
			{N: ints([]byte("Variant-Key")), Vs: [][]int{ints([]byte(vk))}},
			{N: ints([]byte("Variants")), Vs: [][]int{ints([]byte(variants))}}}, Body: ints([]byte(fmt.Sprintf("representation %d %s", ki, strings.Join(k, "/"))))})
	}
	return out
}

// bundle-gen <tier>: seeded random bundles: 0..N exchanges, URL shapes, header maps with names in random case
// and several values, status 100..999, body lengths around every CBOR head boundary.
// hdrNames: all header names of an exchange record, joined
func hdrNames(e bex) []byte {
	var o []byte
	for _, h := range e.Hdrs {
		o = append(o, unints(h.N)...)
		o = append(o, ' ')
	}
	return o
}

func bundleGen(args []string) error {
	thorough := len(args) > 0 && args[0] == "thorough"
	r := rand.New(rand.NewSource(seed()))
	n := 120
	if thorough {
		n = 1500
	}
	dests := []string{"plain", "rf", "bytewise", "counting"}
	bodyLens := []int{0, 1, 22, 23, 24, 25, 254, 255, 256, 257, 1000, 511, 512, 513, 1023, 1024, 1025, 4095, 4096, 4097}
	// fixed instances at the two-byte / four-byte argument boundary of CBOR heads (body length, response length, offsets)
	for bi, bl := range []int{65535, 65536, 65534, 65537, 65535 - 15, 65536 - 15} {
		for _, ver := range []string{"b1", "b2"} {
			b := emptyB()
			b.Ver = ver
			b.HasPrimary, b.Primary = true, ints([]byte("https://a.test/primary"))
			b.Exs = append(b.Exs, bex{URL: ints([]byte("https://a.test/big")), Status: 200, Hdrs: []hent{}, Body: ints(randBytes(r, bl))},
				bex{URL: ints([]byte("https://a.test/after")), Status: 200, Hdrs: []hent{}, Body: ints(randBytes(r, 3))})
			wrEvent(fmt.Sprintf("fix%d%s", bi, ver), &b, dests[bi%4])
		}
	}
	// fixed instances: two and three exchanges that carry one and the same response (empty / non-empty body, with / without fields)
	for ti, nb := range []int{0, 5, 300} {
		for _, ver := range []string{"b1", "b2"} {
			for _, cnt := range []int{2, 3} {
				b := emptyB()
				b.Ver = ver
				b.HasPrimary, b.Primary = true, ints([]byte("https://a.test/t0"))
				hd := []hent{}
				if ti > 0 {
					hd = []hent{{N: ints([]byte("content-type")), Vs: [][]int{ints([]byte("text/plain"))}}}
				}
				body := ints(randBytes(r, nb))
				for c := 0; c < cnt; c++ {
					b.Exs = append(b.Exs, bex{URL: ints([]byte(fmt.Sprintf("https://a.test/t%d", c))), Status: 200, Hdrs: hd, Body: body})
				}
				b.Exs = append(b.Exs, bex{URL: ints([]byte("https://a.test/other")), Status: 200, Hdrs: []hent{}, Body: ints([]byte("other"))})
				wrEvent(fmt.Sprintf("twin%d-%d%s", ti, cnt, ver), &b, dests[(ti+cnt)%4])
			}
		}
	}
	// fixed instances: every shape of variant set in every mode, alone and next to a plain URL
	for shape := 0; shape < 4; shape++ {
		for mode := 0; mode < 5; mode++ {
			b := emptyB()
			b.Ver = "b1"
			b.HasPrimary, b.Primary = true, ints([]byte("https://v.test/variants"))
			if (shape+mode)%2 == 0 {
				b.Exs = append(b.Exs, bex{URL: ints([]byte("https://a.test/plain")), Status: 200, Hdrs: []hent{}, Body: ints([]byte("plain"))})
			}
			b.Exs = append(b.Exs, variantExs(r, shape, mode)...)
			wrEvent(fmt.Sprintf("var%d-%d", shape, mode), &b, dests[(shape+mode)%4])
		}
	}
	for i := 1; i <= n; i++ {
		b := emptyB()
		b.Ver = []string{"b1", "b2"}[r.Intn(2)]
		ne := r.Intn(7)
		if r.Intn(10) == 0 {
			ne = 20 + r.Intn(15)
		}
		seen := map[string]bool{}
		for j := 0; j < ne; j++ {
			us := genURL(r)
			u, err := url.Parse(us)
			if err != nil || seen[u.String()] {
				continue
			}
			seen[u.String()] = true
			e := bex{URL: ints([]byte(u.String())), Status: 100 + r.Intn(900), Hdrs: []hent{}}
			names := map[string]bool{}
			for k := 0; k < r.Intn(5); k++ {
				name := randCase(r, "x-"+randToken(r, 1+r.Intn(12)))
				if names[strings.ToLower(name)] {
					continue
				}
				names[strings.ToLower(name)] = true
				he := hent{N: ints([]byte(name))}
				for v := 0; v <= r.Intn(3)/2; v++ {
					he.Vs = append(he.Vs, ints([]byte(randValue(r, []int{0, 1, 5, 23, 24, 100, 255, 256, 511, 512, 513, 4096}[r.Intn(12)]))))
				}
				e.Hdrs = append(e.Hdrs, he)
			}
			// rare but representable header maps: names that collide once lower-cased (with other names around them, so that
			// the colliding entries need not be neighbours), a literal ":status", an empty name
			switch r.Intn(16) {
			case 14, 15:
				e.Hdrs = append(e.Hdrs, hent{N: ints([]byte("X-Padded")), Vs: [][]int{ints([]byte([]string{" leading", "trailing ", "\ttab\t", " ", "in ner"}[r.Intn(5)]))}})
			case 0:
				e.Hdrs = append(e.Hdrs, hent{N: ints([]byte("X-Test")), Vs: [][]int{ints([]byte("a"))}}, hent{N: ints([]byte("x-test")), Vs: [][]int{ints([]byte("b"))}},
					hent{N: ints([]byte("A-First")), Vs: [][]int{ints([]byte("1"))}}, hent{N: ints([]byte("Y-Between")), Vs: [][]int{ints([]byte("2"))}}, hent{N: ints([]byte("Zz-Last")), Vs: [][]int{ints([]byte("3"))}})
			case 1:
				e.Hdrs = append(e.Hdrs, hent{N: ints([]byte(":status")), Vs: [][]int{ints([]byte("200"))}}, hent{N: ints([]byte("A-First")), Vs: [][]int{ints([]byte("1"))}}, hent{N: ints([]byte("Zz-Last")), Vs: [][]int{ints([]byte("3"))}})
			case 2:
				e.Hdrs = append(e.Hdrs, hent{N: []int{}, Vs: [][]int{ints([]byte("value of the empty name"))}})
			case 3, 4:
				// a name that maps to NO value (a legal state of http.Header: h["X-Trace"] = nil / []string{}): the comma-join of
				// zero values is the empty string, and that is the field the file carries
				e.Hdrs = append(e.Hdrs, hent{N: ints([]byte("X-No-Values")), Vs: [][]int{}})
			}
			sort.Slice(e.Hdrs, func(a, c int) bool { return string(unints(e.Hdrs[a].N)) < string(unints(e.Hdrs[c].N)) })
			bl := bodyLens[r.Intn(len(bodyLens))]
			if (thorough || i%8 == 0) && r.Intn(6) == 0 {
				bl = []int{65535, 65536}[r.Intn(2)]
			}
			e.Body = ints(randBytes(r, bl))
			b.Exs = append(b.Exs, e)
		}
		if b.Ver == "b1" || r.Intn(2) == 0 {
			b.HasPrimary = true
			b.Primary = ints([]byte("https://a.test/primary"))
			if len(b.Exs) > 0 && r.Intn(2) == 0 {
				p := string(unints(b.Exs[0].URL))
				if strings.HasPrefix(p, "https://") {
					b.Primary = b.Exs[0].URL
				}
			}
			if r.Intn(4) == 0 { // absolute URLs without an authority component, with a port, with an upper-case host
				b.Primary = ints([]byte([]string{"urn:uuid:f81d4fae-7dec-11d0-a765-00a0c91e6bf6", "uuid-in-package:f81d4fae-7dec-11d0-a765-00a0c91e6bf6", "file:///index.html",
					"https://a.test:8443/p?q=1", "https://A.TEST/primary", "http://a.test/"}[r.Intn(6)]))
			}
		}
		// b1: a URL with a variant set over 1..3 axes (complete / one representation missing / one repeated / ...), next to the others
		if b.Ver == "b1" && i%3 == 0 {
			b.Exs = append(b.Exs, variantExs(r, r.Intn(4), r.Intn(6))...)
		}
		// twins: the response of an exchange of this bundle (status, header fields, body - equal byte for byte) once or twice
		// more under other URLs; every exchange is an item of its own in the file
		if i%5 == 2 && len(b.Exs) > 0 {
			src := b.Exs[r.Intn(len(b.Exs))]
			if !strings.Contains(strings.ToLower(fmt.Sprint(string(hdrNames(src)))), "variant") {
				for t := 0; t <= r.Intn(2); t++ {
					tw := src
					tw.URL = ints([]byte(fmt.Sprintf("https://twin.test/%d/%d", i, t)))
					pos := r.Intn(len(b.Exs) + 1)
					b.Exs = append(b.Exs[:pos], append([]bex{tw}, b.Exs[pos:]...)...)
				}
			}
		}
		// a URL whose query is not valid UTF-8 (url.Parse takes it, the index key is a CBOR text string)
		if i%17 == 5 {
			b.Exs = append(b.Exs, bex{URL: append(ints([]byte("https://a.test/s?q=caf")), 0xe9), Status: 200, Hdrs: []hent{}, Body: ints([]byte("x"))})
		}
		// a large bundle now and then (paths that depend on the NUMBER of exchanges)
		if i%40 == 7 {
			for j := 0; j < 300; j++ {
				us := fmt.Sprintf("https://many.test/r/%04d", j)
				b.Exs = append(b.Exs, bex{URL: ints([]byte(us)), Status: 200, Hdrs: []hent{{N: ints([]byte("content-type")), Vs: [][]int{ints([]byte("text/plain"))}}}, Body: ints([]byte(us))})
			}
		}
		if r.Intn(4) == 0 {
			b.HasManifest, b.Manifest = true, ints([]byte("https://a.test/manifest.json"))
		}
		wrEvent("g"+strconv.Itoa(i), &b, dests[i%4])
	}
	return nil
}

func init() {
	register("bundle-replay", bundleReplay)
	register("bundle-gen", bundleGen)
}

// bundle-read: stdin = VEC lines of MC_BundleRead ({"file":[...],"note":...}); runs the real reader.
func bundleRead(args []string) error {
	id := 0
	return eachLine(func(line []byte) error {
		var v struct {
			File []int  `json:"file"`
			Note string `json:"note"`
			Base int    `json:"base"`
		}
		if err := json.Unmarshal(line, &v); err != nil {
			return err
		}
		id++
		if !announce(id) {
			emit(map[string]interface{}{"case": "mc" + strconv.Itoa(id), "kind": "rd", "file": v.File, "verdict": "panic", "note": v.Note + "/base" + strconv.Itoa(v.Base) + "/fatal", "b2": emptyB()})
			return nil
		}
		rdEvent("mc"+strconv.Itoa(id), unints(v.File), v.Note+"/base"+strconv.Itoa(v.Base))
		return nil
	})
}

// bundle-fuzz <tier>: real bundles written by the real writer under byte-level damage, and random byte strings.
func bundleFuzz(args []string) error {
	thorough := len(args) > 0 && args[0] == "thorough"
	r := rand.New(rand.NewSource(seed()))
	id := 0
	nb := 6
	if thorough {
		nb = 40
	}
	for k := 0; k < nb; k++ {
		b := emptyB()
		b.Ver = []string{"b1", "b2"}[k%2]
		for j := 0; j < 1+r.Intn(3); j++ {
			b.Exs = append(b.Exs, bex{URL: ints([]byte("https://a.test/" + randToken(r, 1+r.Intn(6)))), Status: 200 + r.Intn(300),
				Hdrs: []hent{{N: ints([]byte("Content-Type")), Vs: [][]int{ints([]byte("text/plain"))}}}, Body: ints(randBytes(r, []int{0, 3, 23, 24, 40}[r.Intn(5)]))})
		}
		b.HasPrimary, b.Primary = true, b.Exs[0].URL
		bb, err := bundleOf(&b)
		if err != nil {
			return err
		}
		file, _, werr, _ := writeBundle(bb, "plain")
		if werr != nil {
			continue
		}
		for i := 0; i < len(file); i++ {
			bits := []int{r.Intn(8)}
			if thorough {
				bits = []int{0, 3, 7}
			}
			for _, bit := range bits {
				m := append([]byte{}, file...)
				m[i] ^= 1 << uint(bit)
				id++
				rdEvent("z"+strconv.Itoa(id), m, "bitflip")
			}
			if i%2 == 0 {
				id++
				rdEvent("z"+strconv.Itoa(id), file[:i], "truncate")
			}
			if i%5 == 0 {
				m := append(append(append([]byte{}, file[:i]...), byte(r.Intn(256))), file[i:]...)
				id++
				rdEvent("z"+strconv.Itoa(id), m, "insert")
				id++
				rdEvent("z"+strconv.Itoa(id), append(append([]byte{}, file[:i]...), file[i+1:]...), "delete")
			}
		}
	}
	for k := 0; k < 200; k++ {
		id++
		rdEvent("z"+strconv.Itoa(id), randBytes(r, r.Intn(64)), "random")
	}
	return nil
}

func init() {
	register("bundle-read", bundleRead)
	register("bundle-fuzz", bundleFuzz)
}
