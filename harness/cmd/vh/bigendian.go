package main

import sxapi "github.com/WICG/webpackage/go/signedexchange/verifapi"

// bigendian-grid: EncodeBytesUint at every boundary value x width.
func bigendianGrid(args []string) error {
	for _, w := range []int{1, 2, 3} {
		for _, n := range []int64{0, 1, 255, 256, 65535, 65536, 65537, 1<<24 - 1, 1 << 24, 1<<24 + 1, 1 << 31, 1<<40 + 5, -1} {
			b, err := sxapi.EncodeBytesUint(n, w)
			emit(map[string]interface{}{"n": n, "w": w, "err": err != nil, "out": ints(b)})
		}
	}
	for _, n := range []int64{0, 1, 255, 256, 1 << 32, 1<<40 + 5} {
		b, err := sxapi.EncodeBytesUint(n, 8)
		emit(map[string]interface{}{"n": n, "w": 8, "err": err != nil, "out": ints(b)})
	}
	return nil
}

func init() { register("bigendian-grid", bigendianGrid) }
