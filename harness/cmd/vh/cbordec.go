package main

import (
	"strings"
	"bytes"
	"encoding/json"
	"math/rand"
	"strconv"

	"github.com/WICG/webpackage/go/verifapi"
)

type decCall struct {
	Op   string `json:"op"`
	Err  bool   `json:"err"`
	A    []int  `json:"a"`
	S    []int  `json:"s"`
	Rest int    `json:"rest"`
	Pan  bool   `json:"panic"`
}

type lenner interface{ Len() int }

func runDecSeq(id int, in []byte, ops []string) {
	rd := bytes.NewReader(in)
	calls := decCalls(verifapi.NewCborDecoder(rd), rd, ops)
	emit(map[string]interface{}{"case": id, "in": ints(in), "calls": calls})
}

func decCalls(d *verifapi.CborDecoder, rd lenner, ops []string) []decCall {
	calls := []decCall{}
	for _, op := range ops {
		c := decCall{Op: op, A: u64to(0), S: []int{}}
		func() {
			defer func() {
				if r := recover(); r != nil {
					c.Pan, c.Err = true, true
				}
			}()
			switch op {
			case "uint":
				n, err := d.DecodeUint()
				c.Err, c.A = err != nil, u64to(n)
			case "arr":
				n, err := d.DecodeArrayHeader()
				c.Err, c.A = err != nil, u64to(n)
			case "map":
				n, err := d.DecodeMapHeader()
				c.Err, c.A = err != nil, u64to(n)
			case "bytes":
				b, err := d.DecodeByteString()
				c.Err, c.S = err != nil, ints(b)
			case "text":
				s, err := d.DecodeTextString()
				c.Err, c.S = err != nil, ints([]byte(s))
			case "byte":
				b, err := d.ReadByte()
				c.Err, c.A = err != nil, u64to(uint64(b))
			}
		}()
		if c.Err { // values returned alongside an error are not part of the contract
			c.A, c.S = u64to(0), []int{}
		}
		c.Rest = rd.Len()
		calls = append(calls, c)
	}
	return calls
}

// cbordec-run: stdin lines {"in":[...],"ops":[...]} (TLC behaviours)
func cbordecRun(args []string) error {
	id := 0
	return eachLine(func(line []byte) error {
		var v struct {
			In  []int    `json:"in"`
			Ops []string `json:"ops"`
		}
		if err := json.Unmarshal(line, &v); err != nil {
			return err
		}
		id++
		runDecSeq(id, unints(v.In), v.Ops)
		return nil
	})
}

// cbordec-gen N: streams made of real encoder output (valid items of all length classes,
// non-shortest heads, one mutation, or random bytes) and random accessor sequences.
func cbordecGen(args []string) error {
	n, _ := strconv.Atoi(args[0])
	big := len(args) > 1 && args[1] == "big"
	r := rand.New(rand.NewSource(seed()))
	for id := 1; id <= n; id++ {
		in, ops := genDecCase(r, big)
		runDecSeq(id, in, ops)
	}
	return nil
}

func genDecCase(r *rand.Rand, big bool) ([]byte, []string) {
	opsAll := []string{"uint", "arr", "map", "bytes", "text", "byte"}
	{
		var in []byte
		var want []string
		for j := 0; j <= r.Intn(3); j++ {
			mt := []int{0, 2, 3, 4, 5}[r.Intn(5)]
			var v uint64
			if mt == 0 || mt == 4 || mt == 5 {
				v = boundaryU64[r.Intn(len(boundaryU64))] + uint64(r.Intn(3)) - 1
				if r.Intn(2) == 0 {
					v = r.Uint64() >> uint(r.Intn(64))
				}
			}
			width := 0
			if r.Intn(3) == 0 {
				width = []int{1, 2, 4, 8}[r.Intn(4)] // possibly non-shortest, possibly too narrow (then truncated value)
			}
			switch mt {
			case 2, 3:
				l := []int{0, 1, 23, 24, 255, 256, 300, 511, 512, 513, 1023, 1024, 1025, 4095, 4096, 4097}[r.Intn(16)]
				if big && r.Intn(8) == 0 {
					l = []int{65535, 65536}[r.Intn(2)]
				}
				body := make([]byte, l)
				for i := range body {
					body[i] = byte(32 + r.Intn(95))
				}
				if mt == 3 && l > 0 && r.Intn(4) == 0 {
					body[r.Intn(l)] = byte(128 + r.Intn(128))
				}
				if mt == 3 && l >= 3 && r.Intn(5) == 0 {
					copy(body[r.Intn(l-2):], "\ufffd")
				}
				if mt == 3 && big && r.Intn(10) == 0 { // long text made of multi-byte characters only
					ch := []string{"\u3042", "\u00e9", "\U0001F310"}[r.Intn(3)]
					body = []byte(strings.Repeat(ch, []int{32768, 32769, 49152, 65537}[r.Intn(4)]/len(ch)+r.Intn(3)))
					if r.Intn(2) == 0 {
						body = append([]byte("a"), body...)
					}
					l = len(body)
				}
				if mt == 2 {
					r.Read(body)
				}
				hw := width
				if hw != 0 && uint64(l) >= 1<<(8*uint(hw)) && hw < 8 {
					hw = 0
				}
				in = append(in, ownHead(mt, uint64(l), hw)...)
				in = append(in, body...)
				want = append(want, map[int]string{2: "bytes", 3: "text"}[mt])
			default:
				hw := width
				if hw != 0 && hw < 8 && v >= 1<<(8*uint(hw)) {
					hw = 0
				}
				in = append(in, ownHead(mt, v, hw)...)
				want = append(want, map[int]string{0: "uint", 4: "arr", 5: "map"}[mt])
			}
		}
		if r.Intn(9) == 0 { // a tag (major type 6) in front of an otherwise valid item: tags are not part of the subset
			tags := [][]byte{{0xc0}, {0xc1}, {0xd8, 0x18}, {0xd9, 0xd9, 0xf7}, {0xd9, 0xd9, 0xf6}, {0xda, 0, 0, 0xd9, 0xf7}, {0xdb, 0, 0, 0, 0, 0, 0, 0xd9, 0xf7}, {0xd8, 0xf7}}
			in = append(append([]byte{}, tags[r.Intn(len(tags))]...), in...)
		}
		switch r.Intn(6) {
		case 0: // truncate
			if len(in) > 0 {
				in = in[:r.Intn(len(in))]
			}
		case 1: // flip one byte among the first 12
			if len(in) > 0 {
				in[r.Intn(min(len(in), 12))] ^= byte(1 << uint(r.Intn(8)))
			}
		case 2: // random stream
			in = randBytes(r, r.Intn(12))
		}
		ops := want
		if r.Intn(3) == 0 {
			ops = nil
			for j := 0; j <= r.Intn(4); j++ {
				ops = append(ops, opsAll[r.Intn(6)])
			}
		}
		return in, ops
	}
}

func min(a, b int) int {
	if a < b {
		return a
	}
	return b
}

func init() {
	register("cbordec-run", cbordecRun)
	register("cbordec-gen", cbordecGen)
}
