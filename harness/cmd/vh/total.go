package main

import (
	"bytes"
	"crypto/ecdsa"
	crand "crypto/rand"
	"crypto/sha256"
	"crypto/sha512"
	"encoding/binary"
	"encoding/json"
	"fmt"
	bversion "github.com/WICG/webpackage/go/bundle/version"
	"github.com/WICG/webpackage/go/signedexchange/version"
	"io/ioutil"
	"math/rand"
	"net/http"
	"net/url"
	"os"
	"runtime"
	"runtime/debug"
	"strings"
	"time"

	"github.com/WICG/webpackage/go/bundle"
	"github.com/WICG/webpackage/go/bundle/signature"
	"github.com/WICG/webpackage/go/integrityblock"
	sxg "github.com/WICG/webpackage/go/signedexchange"
	"github.com/WICG/webpackage/go/signedexchange/certurl"
	"github.com/WICG/webpackage/go/signedexchange/mice"
	sh "github.com/WICG/webpackage/go/signedexchange/structuredheader"
	"github.com/WICG/webpackage/go/verifapi"
)

type totalCtx struct {
	n        int
	timeouts int
}

// measure runs one parser call under recover(), a watchdog and allocation accounting (GC off).
func (c *totalCtx) measure(parser, note string, input []byte, fn func() error) {
	c.n++
	if c.timeouts > 8 {
		return
	}
	if !announce(c.n) {
		in := input
		if len(in) > 4096 {
			in = in[:4096]
		}
		emit(map[string]interface{}{"case": fmt.Sprintf("t%d", c.n), "parser": parser, "note": note, "n": len(input), "head": ints(in), "outcome": "crash", "alloc": int64(0)})
		return
	}
	outcome := make(chan string, 1)
	var alloc uint64
	go func() {
		var m0, m1 runtime.MemStats
		runtime.ReadMemStats(&m0)
		res := "value"
		func() {
			defer func() {
				if r := recover(); r != nil {
					res = "panic"
				}
			}()
			if err := fn(); err != nil {
				res = "error"
			}
		}()
		runtime.ReadMemStats(&m1)
		alloc = m1.TotalAlloc - m0.TotalAlloc
		outcome <- res
	}()
	var res string
	select {
	case res = <-outcome:
	case <-time.After(10 * time.Second):
		res = "timeout"
		c.timeouts++
	}
	a := alloc
	if a > 1<<31-1 { // TLC integers are 32-bit
		a = 1<<31 - 1
	}
	in := input
	if len(in) > 4096 {
		in = in[:4096] // the spec needs only the length; keep the log small
	}
	emit(map[string]interface{}{"case": fmt.Sprintf("t%d", c.n), "parser": parser, "note": note, "n": len(input), "head": ints(in), "outcome": res, "alloc": int64(a)})
	if c.n%64 == 0 {
		debug.FreeOSMemory()
	}
}

// rawEcdsa signs with any ECDSA key (SHA-512 digest for P-521, SHA-256 otherwise), as a foreign signer would
type rawEcdsa struct{ key *ecdsa.PrivateKey }

func (a *rawEcdsa) Sign(m []byte) ([]byte, error) {
	if a.key.Curve.Params().BitSize > 384 {
		h := sha512.Sum512(m)
		return ecdsa.SignASN1(crand.Reader, a.key, h[:])
	}
	h := sha256.Sum256(m)
	return ecdsa.SignASN1(crand.Reader, a.key, h[:])
}

func be8(n uint64) []byte { var b [8]byte; binary.BigEndian.PutUint64(b[:], n); return b[:] }

// total-run <tier>: C10. stdin = JSON lines {"parser":..., "input":[...], "note":...} produced from the TLC-generated
// adversarial vectors of the other checks; the harness adds boundary values in every declared length / count.
func totalRun(args []string) error {
	thorough := len(args) > 0 && args[0] == "thorough"
	debug.SetGCPercent(-1)
	debug.SetMemoryLimit(24 << 30)
	r := rand.New(rand.NewSource(seed()))
	c := &totalCtx{}
	quiet := quiet
	kc := newKeyCert("p256", nil, 0)
	tmp, _ := ioutil.TempDir("", "verif-total")
	defer os.RemoveAll(tmp)
	parsers := map[string]func(b []byte) error{
		"bundle.Read": func(b []byte) error {
			bd, err := bundle.Read(bytes.NewReader(b))
			if err == nil && bd.Signatures != nil {
				if v, err2 := signature.NewVerifier(bd.Signatures, time.Unix(1600000000, 0), bd.Version); err2 == nil {
					for _, e := range bd.Exchanges {
						v.VerifyExchange(e)
					}
				}
			}
			return err
		},
		"sxg.ReadExchange+Verify": func(b []byte) error {
			e, err := sxg.ReadExchange(bytes.NewReader(b))
			if err == nil {
				e.Verify(time.Unix(1600000000, 0), func(string) ([]byte, error) { return kc.chain, nil }, quiet)
			}
			return err
		},
		"certurl.ReadCertChain":     func(b []byte) error { _, err := certurl.ReadCertChain(bytes.NewReader(b)); return err },
		"sh.ParseListOfLists":       func(b []byte) error { _, err := sh.ParseListOfLists(string(b)); return err },
		"sh.ParseParameterisedList": func(b []byte) error { _, err := sh.ParseParameterisedList(string(b)); return err },
		"mice.Decode03": func(b []byte) error {
			if len(b) < 32 {
				return nil
			}
			d, err := mice.Draft03Encoding.NewDecoder(bytes.NewReader(b[32:]), stdDigest("03", b[:32]), 16384)
			if err != nil {
				return err
			}
			_, err = ioutil.ReadAll(d)
			return err
		},
		"mice.Decode02": func(b []byte) error {
			if len(b) < 32 {
				return nil
			}
			d, err := mice.Draft02Encoding.NewDecoder(bytes.NewReader(b[32:]), stdDigest("02", b[:32]), 16384)
			if err != nil {
				return err
			}
			_, err = ioutil.ReadAll(d)
			return err
		},
		"cbor.Decoder": func(b []byte) error {
			var last error
			for _, op := range []string{"uint", "arr", "map", "bytes", "text"} {
				d := verifapi.NewCborDecoder(bytes.NewReader(b))
				switch op {
				case "uint":
					_, last = d.DecodeUint()
				case "arr":
					_, last = d.DecodeArrayHeader()
				case "map":
					_, last = d.DecodeMapHeader()
				case "bytes":
					_, last = d.DecodeByteString()
				case "text":
					_, last = d.DecodeTextString()
				}
			}
			return last
		},
		"cbor.Deterministic": func(b []byte) error {
			defer func() { recover() }() // deliberate panics on truncated input are refusals (C13), not crashes of a parser entry point
			return verifapi.CborDeterministic(append([]byte{}, b...))
		},
		"integrityblock.detect": func(b []byte) error {
			if _, err := integrityblock.WebBundleHasIntegrityBlock(bytes.NewReader(b)); err != nil {
				return err
			}
			p := tmp + "/f"
			ioutil.WriteFile(p, b, 0600)
			f, err := os.Open(p)
			if err != nil {
				return err
			}
			defer f.Close()
			_, _, err = integrityblock.ObtainIntegrityBlock(f)
			return err
		},
	}
	// (1) vectors handed over by the driver
	if err := eachLine(func(line []byte) error {
		var v struct {
			Parser string `json:"parser"`
			Input  []int  `json:"input"`
			Note   string `json:"note"`
		}
		if err := json.Unmarshal(line, &v); err != nil {
			return err
		}
		fn, ok := parsers[v.Parser]
		if !ok {
			return fmt.Errorf("unknown parser %q", v.Parser)
		}
		in := unints(v.Input)
		c.measure(v.Parser, v.Note, in, func() error { return fn(in) })
		return nil
	}); err != nil {
		return err
	}
	// (2) boundary values in every declared length / count, in front of little or no data
	huge := []uint64{24, 255, 256, 65535, 65536, 1 << 20, 1<<24 - 1, 1 << 24, 1<<31 - 1, 1 << 31, 1 << 32, 1 << 40, 1<<63 - 1, 1 << 63, 1<<64 - 1}
	for _, v := range huge {
		for _, mt := range []int{2, 3, 4, 5} {
			h := ownHead(mt, v, 8)
			if v < 1<<32 {
				h = ownHead(mt, v, 4)
			}
			for _, tail := range [][]byte{nil, bytes.Repeat([]byte{0x41}, 64)} {
				in := append(append([]byte{}, h...), tail...)
				for _, p := range []string{"cbor.Decoder", "cbor.Deterministic", "certurl.ReadCertChain"} {
					p := p
					c.measure(p, "declared "+fmt.Sprint(v), in, func() error { return parsers[p](in) })
				}
				// cert chain: huge counts / lengths inside the structure
				cc := append([]byte{0x82, 0x68}, []byte("\U0001F4DC⛓")...)
				cc = append(cc, ownHead(5, 1, 0)...)
				cc = append(cc, 0x64, 'c', 'e', 'r', 't')
				cc = append(cc, h...)
				cc = append(cc, tail...)
				c.measure("certurl.ReadCertChain", "cert length declared "+fmt.Sprint(v), cc, func() error { return parsers["certurl.ReadCertChain"](cc) })
				// bundle: section-lengths / section count / response header length
				bb := append([]byte{}, []byte{0x85, 0x48, 0xf0, 0x9f, 0x8c, 0x90, 0xf0, 0x9f, 0x93, 0xa6, 0x44, 0x62, 0x32, 0, 0}...)
				bb = append(bb, h...)
				bb = append(bb, tail...)
				c.measure("bundle.Read", "section-lengths declared "+fmt.Sprint(v), bb, func() error { return parsers["bundle.Read"](bb) })
			}
		}
		// signed exchange prologue: the 2- and 3-byte length fields
		for _, ver := range []string{"sxg1-b3\x00", "sxg1-b1\x00"} {
			in := []byte(ver)
			if ver[6] != '1' {
				in = append(in, 0, 20)
				in = append(in, []byte("https://example.com/")...)
			}
			sl, hl := v&0xffffff, (v>>3)&0xffffff
			in = append(in, byte(sl>>16), byte(sl>>8), byte(sl), byte(hl>>16), byte(hl>>8), byte(hl))
			in = append(in, bytes.Repeat([]byte{0xa0}, 10)...)
			c.measure("sxg.ReadExchange+Verify", "prologue lengths", in, func() error { return parsers["sxg.ReadExchange+Verify"](in) })
		}
		// MI record size field
		for _, draft := range []string{"mice.Decode03", "mice.Decode02"} {
			in := append(bytes.Repeat([]byte{7}, 32), be8(v)...)
			in = append(in, bytes.Repeat([]byte{1}, 100)...)
			draft := draft
			c.measure(draft, "record size "+fmt.Sprint(v), in, func() error { return parsers[draft](in) })
		}
	}
	// (2b) MI record sizes at the top of the 64-bit range TOGETHER WITH a digest that vouches for the bytes that follow (a
	// record-size field alone is stopped by the first proof check; a stream whose author computed the proof over what a
	// wrapped buffer size would read passes it): sizes 2^64-40 .. 2^64-1, the k = size+32 mod 2^64 bytes after the field
	// hashed as a non-final and as a final record
	for d := uint64(1); d <= 40; d++ {
		v := -d // 2^64 - d
		k := int((v + 32) & 63)
		rest := bytes.Repeat([]byte{0x5a}, 64)
		for _, fin := range []byte{1, 0} {
			for _, kk := range []int{k, 0, 32} {
				h := sha256.Sum256(append(append([]byte{}, rest[:kk]...), fin))
				in := append(append(append([]byte{}, h[:]...), be8(v)...), rest...)
				for _, draft := range []string{"mice.Decode03", "mice.Decode02"} {
					draft := draft
					c.measure(draft, fmt.Sprintf("record size 2^64-%d with a matching proof over %d bytes", d, kk), in, func() error { return parsers[draft](in) })
				}
			}
		}
	}
	// (3) long structured-header inputs and random / mutated files
	for _, n := range []int{1000, 100000} {
		for _, s := range []string{"a;", "\"", "*", "a, ", "1;", "a;b=\"x\";", " "} {
			in := bytes.Repeat([]byte(s), n/len(s))
			c.measure("sh.ParseListOfLists", "long", in, func() error { return parsers["sh.ParseListOfLists"](in) })
			c.measure("sh.ParseParameterisedList", "long", in, func() error { return parsers["sh.ParseParameterisedList"](in) })
		}
	}
	// (4) structure-aware damage of SIGNED artefacts: a bundle with a signatures section (two signers, one with a chain of
	// two certificates), a signed exchange, a certificate chain - one bit per byte position (keeps the CBOR structure, changes
	// a key, a type, a length, an index) and the map keys respelled; read, then everything a consumer does next
	{
		var arts []struct {
			parser, note string
			b            []byte
		}
		for _, ver := range []bversion.Version{bversion.VersionB1, bversion.VersionB2} {
			b := &bundle.Bundle{Version: ver}
			pu, _ := url.Parse("https://a.example/")
			b.PrimaryURL = pu
			for _, us := range []string{"https://a.example/", "https://b.example/y"} {
				u, _ := url.Parse(us)
				b.Exchanges = append(b.Exchanges, &bundle.Exchange{Request: bundle.Request{URL: u},
					Response: bundle.Response{Status: 200, Header: map[string][]string{"Content-Type": {"text/html"}}, Body: []byte("body of " + us)}})
			}
			sa := &bsigner{"t1", []*keyCert{newKeyCert("p256", []string{"a.example"}, 0), newKeyCert("p256", []string{"ca.example"}, 10)}, map[string]bool{"a.example": true}}
			sb := &bsigner{"t2", []*keyCert{newKeyCert("p384", []string{"b.example"}, 0)}, map[string]bool{"b.example": true}}
			var signed []map[string]interface{}
			for _, sg := range []*bsigner{sa, sb} {
				if nb, err := signStep(b, sg, time.Unix(1600000000-10, 0), time.Hour, 16, &signed); err == nil {
					b = nb
				}
			}
			if f, _, err, _ := writeBundle(b, "plain"); err == nil {
				arts = append(arts, struct {
					parser, note string
					b            []byte
				}{"bundle.Read", "signed bundle " + string(ver), f})
			}
		}
		for _, a := range arts {
			step := 1
			if !thorough {
				step = 2
			}
			for i := r.Intn(step); i < len(a.b); i += step {
				m := append([]byte{}, a.b...)
				m[i] ^= 1 << uint(r.Intn(8))
				fn := parsers[a.parser]
				c.measure(a.parser, a.note+" bit flip", m, func() error { return fn(m) })
			}
			for _, key := range []string{"cert", "ocsp", "sct", "authority", "sig", "signed"} {
				for _, to := range []string{strings.ToUpper(key[:1]) + key[1:], "x" + key[1:]} {
					m := bytes.Replace(a.b, append([]byte{byte(0x60 + len(key))}, key...), append([]byte{byte(0x60 + len(key))}, to...), -1)
					fn := parsers[a.parser]
					c.measure(a.parser, a.note+" key "+key+" -> "+to, m, func() error { return fn(m) })
				}
			}
		}
	}
	// (4b) signed bundles whose SIGNED content is unusual but validly signed (the verifier trusts the signature, then has to
	// cope with what was signed): digests of every length 0..40, odd integrity strings, variants values, extra URLs
	for _, ver := range []bversion.Version{bversion.VersionB1, bversion.VersionB2} {
		for variant := 0; variant < 48; variant++ {
			b := &bundle.Bundle{Version: ver}
			u, _ := url.Parse("https://a.example/")
			b.PrimaryURL = u
			b.Exchanges = []*bundle.Exchange{{Request: bundle.Request{URL: u}, Response: bundle.Response{Status: 200, Header: map[string][]string{"Content-Type": {"text/html"}}, Body: []byte("body")}}}
			kcb := newKeyCert("p256", []string{"a.example"}, 0)
			ch, _ := certurl.NewCertChain(kcb.certs, []byte("ocsp"), nil)
			vu, _ := url.Parse("https://a.example/validity")
			sg, err := signature.NewSigner(ver, ch, kcb.key, vu, time.Unix(1600000000-10, 0), time.Hour)
			if err != nil {
				return err
			}
			pih, err := b.Exchanges[0].AddPayloadIntegrity(ver, 16)
			if err != nil {
				return err
			}
			if err := sg.AddExchange(b.Exchanges[0], pih); err != nil {
				return err
			}
			for _, rh := range sg.SignedSubset.SubsetHashes {
				switch {
				case variant <= 40:
					rh.Hashes[0].HeaderSha256 = rh.Hashes[0].HeaderSha256[:0:0]
					rh.Hashes[0].HeaderSha256 = append(rh.Hashes[0].HeaderSha256, bytes.Repeat([]byte{0xab}, variant)...)
				case variant == 41:
					rh.Hashes[0].PayloadIntegrityHeader = ""
				case variant == 42:
					rh.Hashes[0].PayloadIntegrityHeader = "digest/mi-sha256-03, x"
				case variant == 43:
					rh.VariantsValue = []byte("Accept-Language;en;fr")
				case variant == 44:
					rh.Hashes = append(rh.Hashes, rh.Hashes[0])
				case variant == 45:
					rh.Hashes = nil
				case variant == 46:
					rh.Hashes[0].HeaderSha256 = nil
				}
			}
			if variant == 47 {
				sg.SignedSubset.SubsetHashes["https://a.example/other"] = &signature.ResponseHashes{}
			}
			sigs, err := sg.UpdateSignatures(nil)
			if err != nil {
				continue
			}
			b.Signatures = sigs
			f, _, werr, _ := writeBundle(b, "plain")
			if werr != nil {
				continue
			}
			fn := parsers["bundle.Read"]
			c.measure("bundle.Read", fmt.Sprintf("validly signed unusual subset %s #%d", ver, variant), f, func() error { return fn(f) })
		}
	}
	// (4c) artefacts whose certificate carries a key the library does not sign with (ECDSA on P-521 / P-224), signed here
	// with that key: the verifiers meet such certificates in the wild and must answer with a verdict
	for _, curve := range []string{"p521", "p224"} {
		kco := newKeyCert(curve, []string{"a.example"}, 0)
		alg := &rawEcdsa{kco.key}
		for _, ver := range version.AllVersions {
			sp := baseSpec(r, ver)
			sp.date, sp.expires = 1600000000-10, 1600000000+3600
			se := prepareEx(sp)
			if se.err != "" {
				continue
			}
			signEx(se, sp, kco, alg)
			if se.err != "" {
				continue
			}
			var fb bytes.Buffer
			if err := se.e.Write(&fb); err != nil {
				continue
			}
			in := fb.Bytes()
			c.measure("sxg.ReadExchange+Verify", fmt.Sprintf("signed with an ECDSA %s key, %s", curve, ver), in, func() error {
				e, err := sxg.ReadExchange(bytes.NewReader(in))
				if err == nil {
					e.Verify(time.Unix(1600000000, 0), func(string) ([]byte, error) { return kco.chain, nil }, quiet)
				}
				return err
			})
		}
		for _, ver := range []bversion.Version{bversion.VersionB1, bversion.VersionB2} {
			b := &bundle.Bundle{Version: ver}
			u, _ := url.Parse("https://a.example/")
			b.PrimaryURL = u
			b.Exchanges = []*bundle.Exchange{{Request: bundle.Request{URL: u}, Response: bundle.Response{Status: 200, Header: map[string][]string{"Content-Type": {"text/html"}}, Body: []byte("body")}}}
			ch, _ := certurl.NewCertChain(kco.certs, []byte("ocsp"), nil)
			vu, _ := url.Parse("https://a.example/validity")
			sg, err := signature.NewSigner(ver, ch, kco.key, vu, time.Unix(1600000000-10, 0), time.Hour)
			if err != nil {
				continue
			}
			sg.Algorithm = alg
			pih, err := b.Exchanges[0].AddPayloadIntegrity(ver, 16)
			if err != nil {
				continue
			}
			if sg.AddExchange(b.Exchanges[0], pih) != nil {
				continue
			}
			sigs, err := sg.UpdateSignatures(nil)
			if err != nil {
				continue
			}
			b.Signatures = sigs
			f, _, werr, _ := writeBundle(b, "plain")
			if werr != nil {
				continue
			}
			fn := parsers["bundle.Read"]
			c.measure("bundle.Read", fmt.Sprintf("signed with an ECDSA %s key, %s", curve, ver), f, func() error { return fn(f) })
		}
	}
	// (5) VALID signed exchanges (signed here, verifiable by the parser's certificate at its fixed instant) over every status
	// and a few header sets: the verifier's later stages (acceptance policy) are reachable only past the signature check
	for _, ver := range version.AllVersions {
		for st := 100; st <= 599; st++ {
			if ver != version.Version1b3 && st%7 != 0 {
				continue
			}
			sp := baseSpec(r, ver)
			sp.status, sp.date, sp.expires = st, 1600000000-10, 1600000000+3600
			sp.resph = http.Header{"Content-Type": {"text/html"}}
			switch st % 4 {
			case 1:
				sp.resph.Add("Cache-Control", "public")
			case 2:
				sp.resph.Add("Expires", "Thu, 01 Jan 2099 00:00:00 GMT")
			case 3:
				sp.resph.Add("Cache-Control", []string{"no-cache=\"set-cookie\", max-age=\"5\"", "public, ext=\",\"", "ext=\"", "=", "\"", ",,", "ext=\"\"", "a=\"b, public"}[(st/4)%8])
			}
			se := buildSigned(sp, kc)
			if se.err != "" {
				continue
			}
			var fb bytes.Buffer
			if err := se.e.Write(&fb); err != nil {
				continue
			}
			in := fb.Bytes()
			c.measure("sxg.ReadExchange+Verify", fmt.Sprintf("valid %s status %d", ver, st), in, func() error { return parsers["sxg.ReadExchange+Verify"](in) })
		}
	}
	nrand := 300
	if thorough {
		nrand = 5000
	}
	for i := 0; i < nrand; i++ {
		in := randBytes(r, r.Intn(200))
		for name, fn := range parsers {
			name, fn := name, fn
			c.measure(name, "random", in, func() error { return fn(in) })
		}
	}
	return nil
}

func init() { register("total-run", totalRun) }
