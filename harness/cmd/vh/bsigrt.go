package main

// bundle-sigrt: C03 for the signatures section.  Bundles carrying a signatures section with 0..3 authorities and
// 0..7 vouched subsets (arbitrary authority indices, signature and signed-subset bytes of several sizes) are
// written, read back, written and read again; Trace_BundleSig compares the file with SpecWrite of the bundle
// (the section encoded by SigSection) and the section read back with the one written.

import (
	"fmt"
	"math/rand"

	"github.com/WICG/webpackage/go/bundle"
	"github.com/WICG/webpackage/go/signedexchange/certurl"
)

func bundleSigRT(args []string) error {
	r := rand.New(rand.NewSource(seed()))
	kcs := []*keyCert{newKeyCert("p256", []string{"a.example"}, 0), newKeyCert("p384", []string{"b.example"}, 5), newKeyCert("p256", []string{"c.example"}, 9)}
	id := 0
	for _, ver := range []string{"b1", "b2"} {
		for nauth := 0; nauth <= 3; nauth++ {
			for nsub := 0; nsub <= 7; nsub++ {
				id++
				in := &brec{Ver: ver, HasPrimary: true, Primary: ints([]byte("https://a.example/")), Manifest: []int{}, Sigs: []int{}, Exs: []bex{}}
				for j := 0; j <= (id % 2); j++ {
					in.Exs = append(in.Exs, bex{ints([]byte(fmt.Sprintf("https://a.example/%s", []string{"", "x"}[j]))), 200 + j,
						[]hent{{ints([]byte("Content-Type")), [][]int{ints([]byte("text/plain"))}}}, ints(randBytes(r, 5+j*20))})
				}
				b, err := bundleOf(in)
				if err != nil {
					return err
				}
				sigs := &bundle.Signatures{}
				for a := 0; a < nauth; a++ {
					ac := &certurl.AugmentedCertificate{Cert: kcs[a].certs[0]}
					if a == 0 || id%3 == 0 {
						ac.OCSPResponse = randBytes(r, 1+r.Intn(40))
					}
					if (a+id)%2 == 0 {
						ac.SCTList = randBytes(r, 1+r.Intn(30))
					}
					sigs.Authorities = append(sigs.Authorities, ac)
				}
				for k := 0; k < nsub; k++ {
					sz := []int{0, 1, 23, 24, 70, 300}
					sigs.VouchedSubsets = append(sigs.VouchedSubsets, &bundle.VouchedSubset{
						Authority: []uint64{0, 1, 2, 23, 24, 255, 1 << 32, 1<<64 - 1}[(k+id)%8],
						Sig:       randBytes(r, sz[(k*5+id)%6]), Signed: randBytes(r, sz[(k+id*7)%6])})
				}
				b.Signatures = sigs
				// one write / read / write / read judgement of bundle b as it stands now (its section described by sigsOf at that moment)
				judge := func(cid string, b *bundle.Bundle) *bundle.Bundle {
					var first *bundle.Bundle
					ev := map[string]interface{}{"case": cid, "kind": "wrsig", "b": in, "sigrec": sigsOf(b.Signatures), "file": []int{}, "file2": []int{}, "file3": []int{},
						"verdict": "error", "b2": emptyB(), "sigrec2": sigsOf(nil), "hassigs2": false}
					file, _, werr, pan := writeBundle(b, []string{"plain", "rf", "bytewise"}[id%3])
					ev["werr"] = werr != nil || pan
					if werr == nil && !pan {
						ev["file"] = ints(file)
						b2, verdict := readBundle(file)
						ev["verdict"] = verdict
						if verdict == "ok" {
							first = b2
							ev["b2"], ev["sigrec2"], ev["hassigs2"] = brecOf(b2), sigsOf(b2.Signatures), b2.Signatures != nil
							if f2, _, err2, _ := writeBundle(b2, "plain"); err2 == nil {
								ev["file2"] = ints(f2)
								if b3, v3 := readBundle(f2); v3 == "ok" {
									if f3, _, err3, _ := writeBundle(b3, "plain"); err3 == nil {
										ev["file3"] = ints(f3)
									}
								}
							}
						}
					}
					emit(ev)
					return first
				}
				// the section of an object that has ALREADY been written (or that came out of the reader) is then changed through its
				// exported fields - what appending a signer to a signed bundle does - and the object is written again: the file holds
				// the section as it is NOW
				edit := func(sg *bundle.Signatures, k int) {
					if sg == nil {
						return
					}
					switch k % 3 {
					case 0:
						sg.VouchedSubsets = append(sg.VouchedSubsets, &bundle.VouchedSubset{Authority: uint64(len(sg.Authorities)), Sig: randBytes(r, 70), Signed: randBytes(r, 24)})
						sg.Authorities = append(sg.Authorities, &certurl.AugmentedCertificate{Cert: kcs[k%3].certs[0], OCSPResponse: randBytes(r, 9)})
					case 1:
						if len(sg.VouchedSubsets) > 0 {
							sg.VouchedSubsets[0].Sig = randBytes(r, 1+len(sg.VouchedSubsets[0].Sig))
						} else {
							sg.VouchedSubsets = append(sg.VouchedSubsets, &bundle.VouchedSubset{Authority: 0, Sig: randBytes(r, 3), Signed: randBytes(r, 1)})
						}
					case 2:
						if len(sg.VouchedSubsets) > 1 {
							sg.VouchedSubsets = sg.VouchedSubsets[1:]
						} else {
							sg.VouchedSubsets = append(sg.VouchedSubsets, &bundle.VouchedSubset{Authority: 1 << 40, Sig: []byte{}, Signed: randBytes(r, 300)})
						}
					}
				}
				fromFile := judge(fmt.Sprintf("sr%d", id), b)
				edit(b.Signatures, id)
				judge(fmt.Sprintf("sr%d-edited-after-write", id), b)
				if fromFile != nil && fromFile.Signatures != nil {
					edit(fromFile.Signatures, id+1)
					judge(fmt.Sprintf("sr%d-read-then-edited", id), fromFile)
				}
			}
		}
	}
	return nil
}

func init() { register("bundle-sigrt", bundleSigRT) }
