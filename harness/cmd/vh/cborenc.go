package main

import (
	"strings"
	"bytes"
	"encoding/binary"
	"encoding/json"
	"fmt"
	"math/rand"
	"strconv"

	"github.com/WICG/webpackage/go/verifapi"
)

type kv struct {
	K []int `json:"k"`
	V []int `json:"v"`
}

// encCall mirrors the uniform call record of tla/CborMachines.tla.
type encCall struct {
	Op  string `json:"op"`
	A   []int  `json:"a"`
	Neg bool   `json:"neg"`
	S   []int  `json:"s"`
	V   bool   `json:"v"`
	Es  []kv   `json:"es"`
	Err bool   `json:"err"`
	Out []int  `json:"out"`
}

func u64of(a []int) uint64 {
	var n uint64
	for _, x := range a {
		n = n<<8 | uint64(byte(x))
	}
	return n
}

func u64to(n uint64) []int {
	var b [8]byte
	binary.BigEndian.PutUint64(b[:], n)
	return ints(b[:])
}

// itemEnd returns the end offset of the CBOR item starting at b[p] (harness-side plumbing to
// translate pre-encoded canonical key/value bytes back into encoder calls).
func itemEnd(b []byte, p int) (int, error) {
	if p >= len(b) {
		return 0, fmt.Errorf("short")
	}
	mt, ai := int(b[p]>>5), int(b[p]&31)
	nf := map[int]int{24: 1, 25: 2, 26: 4, 27: 8}[ai]
	if ai > 27 || p+1+nf > len(b) {
		return 0, fmt.Errorf("bad head")
	}
	var n uint64 = uint64(ai)
	if nf > 0 {
		n = 0
		for _, x := range b[p+1 : p+1+nf] {
			n = n<<8 | uint64(x)
		}
	}
	q := p + 1 + nf
	switch mt {
	case 0, 1, 7:
		return q, nil
	case 2, 3:
		if n > uint64(len(b)-q) {
			return 0, fmt.Errorf("short string")
		}
		return q + int(n), nil
	case 4, 5:
		cnt := n
		if mt == 5 {
			cnt *= 2
		}
		for i := uint64(0); i < cnt; i++ {
			e, err := itemEnd(b, q)
			if err != nil {
				return 0, err
			}
			q = e
		}
		return q, nil
	}
	return 0, fmt.Errorf("unsupported")
}

// replayBytes issues the encoder calls that (should) reproduce the canonical item sequence b.
func replayBytes(e *verifapi.CborEncoder, b []byte) error {
	p := 0
	for p < len(b) {
		mt, ai := int(b[p]>>5), int(b[p]&31)
		nf := map[int]int{24: 1, 25: 2, 26: 4, 27: 8}[ai]
		var n uint64 = uint64(ai)
		if nf > 0 {
			n = 0
			for _, x := range b[p+1 : p+1+nf] {
				n = n<<8 | uint64(x)
			}
		}
		q := p + 1 + nf
		var err error
		switch mt {
		case 0:
			err = e.EncodeUint(n)
		case 1:
			err = e.EncodeInt(^int64(n))
		case 2:
			err = e.EncodeByteString(b[q : q+int(n)])
			q += int(n)
		case 3:
			err = e.EncodeTextString(string(b[q : q+int(n)]))
			q += int(n)
		case 4:
			err = e.EncodeArrayHeader(int(n))
		case 5:
			var mes []*verifapi.CborMapEntryEncoder
			for i := 0; i < int(n); i++ {
				ke, err1 := itemEnd(b, q)
				if err1 != nil {
					return err1
				}
				ve, err2 := itemEnd(b, ke)
				if err2 != nil {
					return err2
				}
				kb, vb := b[q:ke], b[ke:ve]
				var ferr error
				mes = append(mes, verifapi.GenerateCborMapEntry(func(k, v *verifapi.CborEncoder) {
					if err := replayBytes(k, kb); err != nil {
						ferr = err
					}
					if err := replayBytes(v, vb); err != nil {
						ferr = err
					}
				}))
				if ferr != nil {
					return ferr
				}
				q = ve
			}
			err = e.EncodeMap(mes)
		case 7:
			err = e.EncodeBool(ai == 21)
		default:
			return fmt.Errorf("unsupported major type %d", mt)
		}
		if err != nil {
			return err
		}
		p = q
	}
	return nil
}

func runEncCall(e *verifapi.CborEncoder, c *encCall) error {
	switch c.Op {
	case "uint":
		return e.EncodeUint(u64of(c.A))
	case "int":
		if c.Neg {
			return e.EncodeInt(^int64(u64of(c.A))) // -1 - a
		}
		return e.EncodeInt(int64(u64of(c.A)))
	case "bytes":
		return e.EncodeByteString(unints(c.S))
	case "text":
		return e.EncodeTextString(string(unints(c.S)))
	case "arr":
		return e.EncodeArrayHeader(int(u64of(c.A)))
	case "bool":
		return e.EncodeBool(c.V)
	case "map":
		var mes []*verifapi.CborMapEntryEncoder
		for ei, en := range c.Es {
			kb, vb := unints(en.K), unints(en.V)
			var ferr error
			valueFirst := (ei+len(c.Es))%3 == 1 // the entry callback may fill the value before the key: the two encoders are independent
			mes = append(mes, verifapi.GenerateCborMapEntry(func(k, v *verifapi.CborEncoder) {
				if valueFirst {
					if err := replayBytes(v, vb); err != nil {
						ferr = err
					}
				}
				if err := replayBytes(k, kb); err != nil {
					ferr = err
				}
				if !valueFirst {
					if err := replayBytes(v, vb); err != nil {
						ferr = err
					}
				}
			}))
			if ferr != nil {
				return fmt.Errorf("harness: cannot rebuild entry: %v", ferr)
			}
		}
		return e.EncodeMap(mes)
	}
	return fmt.Errorf("harness: unknown op %q", c.Op)
}

func runEncSeq(id int, calls []encCall) {
	var buf bytes.Buffer
	e := verifapi.NewCborEncoder(&buf)
	for i := range calls {
		c := &calls[i]
		before := buf.Len()
		err := runEncCall(e, c)
		c.Err = err != nil
		c.Out = ints(buf.Bytes()[before:])
		if c.A == nil {
			c.A = u64to(0)
		}
		if c.S == nil {
			c.S = []int{}
		}
		if c.Es == nil {
			c.Es = []kv{}
		}
	}
	emit(map[string]interface{}{"case": id, "calls": calls})
}

// cborenc-run: stdin = one JSON array of calls per line (TLC behaviours); stdout = recorded runs.
func cborencRun(args []string) error {
	id := 0
	return eachLine(func(line []byte) error {
		var calls []encCall
		if err := json.Unmarshal(line, &calls); err != nil {
			return err
		}
		id++
		runEncSeq(id, calls)
		return nil
	})
}

// cborenc-gen N: random call sequences with arbitrary 64-bit values, long strings, maps whose
// entries are supplied in random order (sometimes with equal keys).
func cborencGen(args []string) error {
	n, _ := strconv.Atoi(args[0])
	big := len(args) > 1 && args[1] == "big"
	r := rand.New(rand.NewSource(seed()))
	enc := func(nd *cnode) []byte {
		var b bytes.Buffer
		if err := encodeReal(verifapi.NewCborEncoder(&b), nd); err != nil {
			panic(err)
		}
		return b.Bytes()
	}
	for id := 1; id <= n; id++ {
		var calls []encCall
		for j := 0; j <= r.Intn(3); j++ {
			c := encCall{}
			switch r.Intn(8) {
			case 0:
				c.Op, c.A = "uint", u64to(r.Uint64()>>uint(r.Intn(64)))
			case 1:
				c.Op, c.A = "uint", u64to(boundaryU64[r.Intn(len(boundaryU64))]+uint64(r.Intn(3))-1)
			case 2:
				c.Op, c.Neg = "int", r.Intn(2) == 0
				c.A = u64to((r.Uint64() >> 1) >> uint(r.Intn(63)))
				if r.Intn(4) == 0 {
					c.A = u64to(1<<63 - 1 - uint64(r.Intn(2)))
				}
			case 3:
				c.Op = "bytes"
				l := []int{0, 1, 22, 23, 24, 25, 255, 256, 257, 1000, 511, 512, 513, 1023, 1024, 1025, 4095, 4096, 4097}[r.Intn(19)]
				if big && r.Intn(6) == 0 {
					l = []int{65535, 65536, 70000}[r.Intn(3)]
				}
				c.S = ints(randBytes(r, l))
			case 4:
				c.Op = "text"
				l := []int{0, 1, 23, 24, 255, 256, 511, 512, 513, 1023, 1024, 1025, 4095, 4096, 4097}[r.Intn(15)]
				if big && r.Intn(6) == 0 {
					l = []int{65535, 65536}[r.Intn(2)]
				}
				b := make([]byte, l)
				for i := range b {
					b[i] = byte(32 + r.Intn(95))
				}
				if big && r.Intn(8) == 0 { // long text made of multi-byte characters only (every offset is inside some character)
					ch := []string{"\u3042", "\u00e9", "\U0001F310"}[r.Intn(3)]
					b = []byte(strings.Repeat(ch, []int{32768, 32769, 49152, 65537}[r.Intn(4)]/len(ch)+r.Intn(3)))
					if r.Intn(2) == 0 {
						b = append([]byte("a"), b...)
					}
					c.S = ints(b)
					break
				}
				switch r.Intn(5) {
				case 0: // some multi-byte runes
					b = append(b, []byte("é€🌐\ufffd")...)
				case 1: // damage
					if l > 0 {
						b[r.Intn(l)] = byte(128 + r.Intn(128))
					} else {
						b = []byte{0xc0, 0x80}
					}
				}
				c.S = ints(b)
			case 5:
				c.Op, c.A = "arr", u64to(uint64([]int{0, 1, 23, 24, 255, 256, 65535, 65536, 1 << 30}[r.Intn(9)]))
			case 6:
				c.Op, c.V = "bool", r.Intn(2) == 0
			default:
				c.Op = "map"
				m := r.Intn(6)
				for i := 0; i < m; i++ {
					k := genNode(r, 1)
					if r.Intn(3) == 0 { // keys of different length classes
						k = &cnode{mt: 2 + r.Intn(2), data: bytes.Repeat([]byte{byte('a' + r.Intn(3))}, []int{1, 2, 23, 24, 25, 255, 256, 509, 510, 511, 600, 5000}[r.Intn(12)])}
					}
					c.Es = append(c.Es, kv{ints(enc(k)), ints(enc(genNode(r, 2)))})
				}
				if r.Intn(6) == 0 { // distinct keys that differ only in letter case / in bytes that are not UTF-8
					pi := r.Intn(3)
					pair := [][2][]byte{{[]byte("Content-Type"), []byte("content-type")}, {[]byte("A"), []byte("a")}, {{0x80}, {0x81}}}[pi]
					kmt := 2
					if pi < 2 {
						kmt += r.Intn(2)
					}
					for _, kb := range pair {
						c.Es = append(c.Es, kv{ints(enc(&cnode{mt: kmt, data: kb})), ints(enc(genNode(r, 1)))})
					}
				}
				if r.Intn(4) == 0 || id <= 2*len(fingerprintTwins()) { // distinct keys a cheap fingerprint cannot tell apart (twins.go)
					tws := fingerprintTwins()
					tw := tws[id%len(tws)]
					kmt := 2 + (id/len(tws))%2
					for _, kb := range []string{tw.A, tw.B} {
						c.Es = append(c.Es, kv{ints(enc(&cnode{mt: kmt, data: []byte(kb)})), ints(enc(genNode(r, 1)))})
					}
				}
				if m > 0 && r.Intn(3) == 0 { // equal keys
					c.Es = append(c.Es, kv{c.Es[r.Intn(m)].K, ints(enc(genNode(r, 1)))})
				}
				r.Shuffle(len(c.Es), func(i, j int) { c.Es[i], c.Es[j] = c.Es[j], c.Es[i] })
			}
			calls = append(calls, c)
		}
		runEncSeq(id, calls)
	}
	return nil
}

func init() {
	register("cborenc-run", cborencRun)
	register("cborenc-gen", cborencGen)
}
