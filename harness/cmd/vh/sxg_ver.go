package main

import (
	"bytes"
	"fmt"
	"github.com/WICG/webpackage/go/signedexchange/mice"
	"math/rand"
	"net/http"
	"strings"
	"time"

	sxg "github.com/WICG/webpackage/go/signedexchange"
	"github.com/WICG/webpackage/go/signedexchange/version"
	"github.com/WICG/webpackage/go/verifapi"
)

// recorder wraps the real signing algorithm and records every message the key really signed.
type recorder struct {
	inner  verifapi.SigningAlgorithm
	cert   []byte
	signed *[]map[string]interface{}
}

func (r *recorder) Sign(m []byte) ([]byte, error) {
	*r.signed = append(*r.signed, map[string]interface{}{"cert": ints(r.cert), "msg": ints(m)})
	return r.inner.Sign(m)
}

func buildRecorded(sp *sxSpec, kc *keyCert, signed *[]map[string]interface{}) *sxg.Exchange {
	e, err := buildRecordedErr(sp, kc, signed)
	if err != nil {
		panic(err)
	}
	return e
}

func buildRecordedErr(sp *sxSpec, kc *keyCert, signed *[]map[string]interface{}) (*sxg.Exchange, error) {
	reqh := cloneHeader(sp.reqh)
	if sp.ver == version.Version1b3 {
		reqh = http.Header{}
	}
	e := sxg.NewExchange(sp.ver, sp.uri, sp.method, reqh, sp.status, cloneHeader(sp.resph), append([]byte{}, sp.payload...))
	if sp.foreignMI {
		// the payload protected, consistently, with the OTHER drafts' scheme (stream, digest header, content encoding)
		other := mice.Draft02Encoding
		if sp.ver == version.Version1b1 {
			other = mice.Draft03Encoding
		}
		var st bytes.Buffer
		dg, err := other.Encode(&st, e.Payload, sp.rs)
		if err != nil {
			return nil, err
		}
		e.Payload = st.Bytes()
		e.ResponseHeaders.Add("Content-Encoding", other.ContentEncoding())
		e.ResponseHeaders.Add(other.DigestHeaderName(), dg)
	} else if err := e.MiEncodePayload(sp.rs); err != nil {
		panic(err)
	}
	se := buildSigned(&sxSpec{ver: sp.ver, uri: "https://x.example/", method: "GET", reqh: http.Header{}, resph: http.Header{}, status: 200, rs: 16, certURL: sp.certURL, vURL: sp.vURL, date: sp.date, expires: sp.expires}, kc)
	signer := se.signer
	alg, err := verifapi.SigningAlgorithmForPrivateKey(kc.key, crandReader())
	if err != nil {
		panic(err)
	}
	signer.Algorithm = &recorder{alg, kc.certs[0].Raw, signed}
	if err := e.AddSignatureHeader(signer); err != nil {
		return nil, err
	}
	return e, nil
}

func cloneEx(e *sxg.Exchange) *sxg.Exchange {
	c := *e
	c.RequestHeaders = cloneHeader(e.RequestHeaders)
	c.ResponseHeaders = cloneHeader(e.ResponseHeaders)
	c.Payload = append([]byte{}, e.Payload...)
	return &c
}

type verCtx struct {
	n      int
	prefix string
}

func (c *verCtx) emitVer(e *sxg.Exchange, kc *keyCert, sec int64, ns int, signed []map[string]interface{}, exact bool, file []byte, hasfile bool, readerr bool, note string) {
	c.emitVerT(e, kc, time.Unix(sec, int64(ns)), signed, exact, file, hasfile, readerr, note)
}

func (c *verCtx) emitVerT(e *sxg.Exchange, kc *keyCert, tm time.Time, signed []map[string]interface{}, exact bool, file []byte, hasfile bool, readerr bool, note string) {
	sec, ns := tm.Unix(), tm.Nanosecond()
	c.n++
	ev := map[string]interface{}{"case": fmt.Sprintf("%s%d", c.prefix, c.n), "kind": "ver", "leaf": ints(kc.certs[0].Raw), "signed": signed,
		"exact": exact, "hasfile": hasfile, "file": ints(file), "readerr": readerr, "note": note}
	if e == nil {
		ev["x"] = xrec{Ver: "", Uri: []int{}, Method: []int{}, Reqh: []hent{}, Resph: []hent{}, Payload: []int{}, Sighdr: []int{}}
		ev["t"] = tstamp{u64to(uint64(sec)), ns}
		ev["ok"], ev["ret"], ev["panic"] = false, []int{}, false
	} else {
		ev["x"] = xOf(e)
		v := doVerifyT(e, kc, tm, "")
		ev["t"], ev["ok"], ev["ret"], ev["panic"] = v.T, v.Ok, v.Ret, v.Panic
	}
	emit(ev)
}

func baseSpec(r *rand.Rand, ver version.Version) *sxSpec {
	date := int64(1000000000 + r.Intn(2000000000))
	sp := &sxSpec{ver: ver, uri: "https://example.com/p" + randToken(r, 3), method: "GET", reqh: http.Header{}, resph: http.Header{}, status: 200,
		rs: 16, certURL: "https://cert.example/c", vURL: "https://example.com/v", date: date, expires: date + 3600}
	sp.reqh.Add("Accept", "*/*")
	sp.resph.Add("Content-Type", "text/html")
	sp.resph.Add("X-A", "one")
	sp.resph.Add("X-A", "two")
	sp.resph.Add("Cache-Control", "max-age=60")
	sp.payload = randBytes(r, 33)
	return sp
}

func readBack(file []byte) (*sxg.Exchange, bool) {
	var e *sxg.Exchange
	var err error
	func() {
		defer func() {
			if rec := recover(); rec != nil {
				err = fmt.Errorf("panic")
			}
		}()
		e, err = sxg.ReadExchange(bytes.NewReader(file))
	}()
	return e, err != nil
}

// sxg-mut <tier>: C01. Every kind of modification of serialized and in-memory exchanges.
func sxgMut(args []string) error {
	thorough := len(args) > 0 && args[0] == "thorough"
	r := rand.New(rand.NewSource(seed()))
	kcs := map[string]*keyCert{"p256": newKeyCert("p256", nil, 0), "p384": newKeyCert("p384", nil, 0)}
	attacker := newKeyCert("p256", nil, 0)
	ctx := &verCtx{prefix: "m"}
	for _, ver := range version.AllVersions {
		for _, curve := range []string{"p256", "p384"} {
			kc := kcs[curve]
			sp := baseSpec(r, ver)
			if curve == "p384" {
				sp.rs, sp.payload = 1, randBytes(r, 3)
			}
			sp.resph.Add("Content-Security-Policy", "default-src 'none'")
			sp.resph.Add("X-Kind", "k")
			var signed []map[string]interface{}
			e := buildRecorded(sp, kc, &signed)
			var fb bytes.Buffer
			if err := e.Write(&fb); err != nil {
				return err
			}
			file := fb.Bytes()
			mid := sp.date + 1800
			// honest control at and around the window (exact verdicts)
			for _, t := range [][2]int64{{sp.date - 1, 0}, {sp.date - 1, 999999999}, {sp.date, 0}, {mid, 0}, {sp.expires, 0}, {sp.expires, 1}, {sp.expires + 1, 0}} {
				e0, rerr := readBack(file)
				ctx.emitVer(e0, kc, t[0], int(t[1]), signed, true, file, true, rerr, "honest")
			}
			// the process's own clock is not an input: an exchange whose window contains the real present, verified at instants
			// given as time.Time values of every kind (the zero Time, the epoch, far future, "now" with its monotonic reading,
			// "now" in another location), and a long-expired exchange verified at the same instants
			{
				now := time.Now()
				spn := *sp
				spn.resph = cloneHeader(sp.resph)
				spn.reqh = cloneHeader(sp.reqh)
				spn.date, spn.expires = now.Unix()-3600, now.Unix()+3600
				var signedN []map[string]interface{}
				en := buildRecorded(&spn, kc, &signedN)
				for _, pair := range []struct {
					x *sxg.Exchange
					s []map[string]interface{}
					n string
				}{{en, signedN, "window around the present"}, {e, signed, "window long past"}} {
					for _, tm := range []time.Time{{}, time.Unix(0, 0), time.Unix(1, 0).UTC(), now, now.In(time.FixedZone("far", 14*3600)), now.UTC().Round(0), now.Add(-2 * time.Hour),
						now.Add(2 * time.Hour), time.Date(9999, 12, 31, 23, 59, 59, 0, time.UTC), time.Unix(1<<40, 0), time.Unix(sp.date+1800, 0).In(time.FixedZone("west", -11*3600))} {
						ctx.emitVerT(cloneEx(pair.x), kc, tm, pair.s, true, nil, false, false, "clock: "+pair.n)
					}
				}
			}
			// signed dates at the far end of the integer range, behind a genuine signature: seconds that time.Unix cannot represent
			// (above MaxInt64 - 62135596800 the internal counter wraps to a time ~292e9 years in the PAST) are still dates in the
			// far future, and the instant of verification lies outside [date, expires]
			for _, de := range [][2]int64{{1<<63 - 1, 0}, {9223371974719179008, 0}, {9223371974719179007, 0}, {9223371974719179008 + 12345, 3600}, {1 << 62, 0}, {1<<63 - 1, 1<<63 - 1},
				{1<<63 - 604800, 1<<63 - 1}, {9223371974719179008, 9223371974719179008 + 600}} {
				now := time.Now().Unix()
				spf := *sp
				spf.resph = cloneHeader(sp.resph)
				spf.reqh = cloneHeader(sp.reqh)
				spf.date, spf.expires = de[0], de[1]
				if de[1] < 1<<40 {
					spf.expires = now + 3600 + de[1]
				}
				var signedF []map[string]interface{}
				ef, err := buildRecordedErr(&spf, kc, &signedF)
				if err != nil {
					continue
				}
				for _, t := range []int64{now, mid, 0, 1 << 40} {
					ctx.emitVer(cloneEx(ef), kc, t, 0, signedF, true, nil, false, false, fmt.Sprintf("far-future signed date %d", de[0]))
				}
				var fbf bytes.Buffer
				if ef.Write(&fbf) == nil {
					if e1, rerr := readBack(fbf.Bytes()); !rerr {
						ctx.emitVer(e1, kc, now, 0, signedF, true, fbf.Bytes(), true, rerr, fmt.Sprintf("far-future signed date %d (read from the file)", de[0]))
					}
				}
			}
			// headers that declare something about the payload (a length, a range, an encoding) are signed header fields, not
			// instructions: the payload handed back is the one the signed digest commits to, whole, and damage behind the
			// declared length is damage
			for _, dh := range [][2]string{{"Content-Length", "5"}, {"Content-Length", "1"}, {"Content-Length", "0"}, {"Content-Length", fmt.Sprint(len(sp.payload))},
				{"Content-Length", "99999"}, {"Content-Length", "abc"}, {"Content-Range", "bytes 0-4/5"}, {"Range", "bytes=0-4"}, {"Content-Encoding", "identity"}, {"Trailer", "Digest"}} {
				spd := *sp
				spd.resph = cloneHeader(sp.resph)
				spd.reqh = cloneHeader(sp.reqh)
				spd.resph.Add(dh[0], dh[1])
				var signedD []map[string]interface{}
				ed, err := buildRecordedErr(&spd, kc, &signedD)
				if err != nil {
					continue
				}
				note := "declaring header " + dh[0] + ": " + dh[1]
				ctx.emitVer(cloneEx(ed), kc, mid, 0, signedD, true, nil, false, false, note)
				for _, tam := range []func(x *sxg.Exchange){
					func(x *sxg.Exchange) { x.Payload[len(x.Payload)-1] ^= 1 },
					func(x *sxg.Exchange) { x.Payload = x.Payload[:len(x.Payload)-1] },
					func(x *sxg.Exchange) { x.Payload = x.Payload[:8+spd.rs] },
					func(x *sxg.Exchange) { x.Payload = append(x.Payload, 'x') },
				} {
					x := cloneEx(ed)
					if len(x.Payload) > 8+spd.rs {
						tam(x)
						ctx.emitVer(x, kc, mid, 0, signedD, false, nil, false, false, note+" + payload damaged behind the declared length")
					}
				}
			}
			// file-level mutations
			try := func(m []byte, note string) {
				e2, rerr := readBack(m)
				ctx.emitVer(e2, kc, mid, 0, signed, false, m, true, rerr, note)
			}
			for i := 0; i < len(file); i++ {
				bits := []int{r.Intn(8)}
				if thorough {
					bits = []int{0, 1, 2, 3, 4, 5, 6, 7}
				}
				for _, b := range bits {
					m := append([]byte{}, file...)
					m[i] ^= 1 << uint(b)
					try(m, "bitflip")
				}
				if thorough || i%3 == 0 {
					try(append(append([]byte{}, file[:i]...), file[i+1:]...), "delete")
					try(append(append(append([]byte{}, file[:i]...), byte(r.Intn(256))), file[i:]...), "insert")
				}
				if thorough || i%2 == 0 {
					try(file[:i], "truncate")
				}
			}
			// structure-aware edits of the header block: a header NAME respelled with characters that some case mapping
			// folds onto the signed spelling (U+0130 -> i, U+212A -> k), upper-cased, or padded; lengths fixed up
			for _, rk := range [][2]string{{"content-security-policy", "content-secur\u0130ty-policy"}, {"x-kind", "x-\u212aind"}, {"x-kind", "x-Kind"},
				{"x-kind", "x-kind "}, {"content-security-policy", "content-security-pol\u0131cy"}, {"x-a", "x-\u00e5"}} {
				if m := rekeyFile(file, string(ver), rk[0], rk[1]); m != nil {
					try(m, "header name respelled")
				}
			}
			// in-memory field edits
			// ... of the exchange as it was built, and of the exchange a recipient holds after reading the file (an object with a
			// history of its own: whatever the reader kept from the bytes must not stand in for the fields that are verified)
			fromFile, fromFileErr := readBack(file)
			mem := func(note string, f func(x *sxg.Exchange)) {
				x := cloneEx(e)
				f(x)
				ctx.emitVer(x, kc, mid, 0, signed, false, nil, false, false, note)
				// ... and of an object that has ALREADY been verified (successfully, at the same instant) before the edit: what an
				// earlier Verify left in the object must not vouch for the fields it holds now
				z := cloneEx(e)
				doVerify(z, kc, mid, 0, "")
				f(z)
				ctx.emitVer(z, kc, mid, 0, signed, false, nil, false, false, note+" (object verified once before the edit)")
				if !fromFileErr {
					y := cloneEx(fromFile)
					applies := true
					func() {
						defer func() {
							if recover() != nil {
								applies = false // the edit addresses a field line the reader's object does not have (lines are joined on reading)
							}
						}()
						f(y)
					}()
					if applies {
						ctx.emitVer(y, kc, mid, 0, signed, false, nil, false, false, note+" (object read from the file)")
					}
				}
			}
			mem("uri+x", func(x *sxg.Exchange) { x.RequestURI += "x" })
			mem("uri host", func(x *sxg.Exchange) { x.RequestURI = strings.Replace(x.RequestURI, "example.com", "example.org", 1) })
			mem("uri query", func(x *sxg.Exchange) { x.RequestURI += "?a=b" })
			mem("status+1", func(x *sxg.Exchange) { x.ResponseStatus++ })
			mem("status 404", func(x *sxg.Exchange) { x.ResponseStatus = 404 })
			mem("resph value", func(x *sxg.Exchange) { x.ResponseHeaders["X-A"][1] = "twO" })
			mem("resph add value", func(x *sxg.Exchange) { x.ResponseHeaders.Add("X-A", "three") })
			mem("resph split join", func(x *sxg.Exchange) { x.ResponseHeaders["X-A"] = []string{"one,two"} }) // same canonical content: may verify
			// empty field values change the comma-joined value that is signed
			mem("resph empty value first", func(x *sxg.Exchange) { x.ResponseHeaders["X-A"] = append([]string{""}, x.ResponseHeaders["X-A"]...) })
			mem("resph empty value first (single)", func(x *sxg.Exchange) {
				x.ResponseHeaders["Content-Type"] = []string{"", x.ResponseHeaders.Get("Content-Type")}
			})
			mem("resph two empty values first", func(x *sxg.Exchange) {
				x.ResponseHeaders["Content-Type"] = []string{"", "", x.ResponseHeaders.Get("Content-Type")}
			})
			mem("resph empty value last", func(x *sxg.Exchange) {
				x.ResponseHeaders["X-A"] = append(append([]string{}, x.ResponseHeaders["X-A"]...), "")
			})
			mem("resph empty value middle", func(x *sxg.Exchange) { x.ResponseHeaders["X-A"] = []string{"one", "", "two"} })
			mem("resph new empty", func(x *sxg.Exchange) { x.ResponseHeaders["X-Empty"] = []string{""} })
			mem("reqh empty value first", func(x *sxg.Exchange) {
				x.RequestHeaders["Accept"] = append([]string{""}, x.RequestHeaders["Accept"]...)
			})
			// white space inside a signed value respelled (line folding, tabs, doubled spaces): a different value
			for _, ws := range []string{"\r\n ", "\r\n\t", "\t", "  ", "\n "} {
				ws := ws
				mem("resph value white space respelled", func(x *sxg.Exchange) {
					x.ResponseHeaders.Set("Content-Security-Policy", strings.Replace(x.ResponseHeaders.Get("Content-Security-Policy"), " ", ws, 1))
				})
			}
			mem("resph new", func(x *sxg.Exchange) { x.ResponseHeaders.Add("X-New", "v") })
			// added headers whose NAMES the format treats specially elsewhere: they are response headers like any other here
			for _, hn := range []string{"Signature", "signature", "Digest2", ":status", "Content-Encoding2", "Link"} {
				hn := hn
				mem("resph new "+hn, func(x *sxg.Exchange) { x.ResponseHeaders[hn] = []string{"v"} })
			}
			mem("resph del", func(x *sxg.Exchange) { x.ResponseHeaders.Del("X-A") })
			mem("resph case", func(x *sxg.Exchange) {
				x.ResponseHeaders["x-a"] = x.ResponseHeaders["X-A"]
				delete(x.ResponseHeaders, "X-A")
			}) // same canonical content
			mem("content-type", func(x *sxg.Exchange) { x.ResponseHeaders.Set("Content-Type", "text/plain") })
			mem("method", func(x *sxg.Exchange) { x.RequestMethod = "HEAD" })
			mem("reqh", func(x *sxg.Exchange) { x.RequestHeaders.Add("X-Req", "1") })
			for i := 0; i < len(e.Payload); i++ {
				i := i
				mem("payload byte", func(x *sxg.Exchange) { x.Payload[i] ^= 1 << uint(r.Intn(8)) })
			}
			for _, cut := range []int{0, 8, 8 + sp.rs, 8 + sp.rs + 32, len(e.Payload) - 1} {
				cut := cut
				if cut >= 0 && cut < len(e.Payload) {
					mem("payload truncate", func(x *sxg.Exchange) { x.Payload = x.Payload[:cut] })
				}
			}
			mem("payload extend", func(x *sxg.Exchange) { x.Payload = append(x.Payload, 0) })
			dn := e.Version.MiceEncoding().DigestHeaderName()
			mem("digest header", func(x *sxg.Exchange) {
				v := x.ResponseHeaders.Get(dn)
				x.ResponseHeaders.Set(dn, v[:len(v)-3]+"AAA")
			})
			// other payload with its own honest digest (header changed together with body)
			mem("body+digest", func(x *sxg.Exchange) {
				y := sxg.NewExchange(x.Version, x.RequestURI, x.RequestMethod, http.Header{}, 200, http.Header{}, []byte("evil payload evil payload"))
				y.MiEncodePayload(16)
				x.Payload = y.Payload
				x.ResponseHeaders.Set(dn, y.ResponseHeaders.Get(dn))
			})
			// Signature header edits
			sig := e.SignatureHeaderValue
			sh := func(note, from, to string) {
				mem("sig:"+note, func(x *sxg.Exchange) { x.SignatureHeaderValue = strings.Replace(sig, from, to, 1) })
			}
			sh("date+1", fmt.Sprintf("date=%d", sp.date), fmt.Sprintf("date=%d", sp.date+1))
			sh("date-1", fmt.Sprintf("date=%d", sp.date), fmt.Sprintf("date=%d", sp.date-1))
			sh("expires+1", fmt.Sprintf("expires=%d", sp.expires), fmt.Sprintf("expires=%d", sp.expires+1))
			sh("expires far", fmt.Sprintf("expires=%d", sp.expires), fmt.Sprintf("expires=%d", sp.expires+999999))
			sh("validity-url", "example.com/v", "example.com/w")
			sh("cert-url", "cert.example/c", "cert.example/other") // unsigned decoration: still the signed content
			sh("label", "label;", "other;")
			sh("integrity", "integrity=\"", "integrity=\"x")
			sh("unknown param", ";date=", ";zzz=1;date=") // breaks sorted order only
			i0 := strings.Index(sig, "sig=*") + 5
			for _, off := range []int{0, 10, 40} {
				c := sig[i0+off]
				nc := byte('A')
				if c == 'A' {
					nc = 'B'
				}
				mem("sig bytes", func(x *sxg.Exchange) { x.SignatureHeaderValue = sig[:i0+off] + string(nc) + sig[i0+off+1:] })
			}
			j0 := strings.Index(sig, "cert-sha256=*") + 13
			mem("cert-sha256", func(x *sxg.Exchange) {
				c := sig[j0+3]
				nc := byte('A')
				if c == 'A' {
					nc = 'B'
				}
				x.SignatureHeaderValue = sig[:j0+3] + string(nc) + sig[j0+4:]
			})
			// a decoy member whose window covers the verification instant next to the genuine member whose window does not:
			// the window that counts is the one of the member whose signature verifies
			for _, off := range []int64{5000, -5000} {
				t2 := sp.expires + off
				if off < 0 {
					t2 = sp.date + off
				}
				decoy := strings.Replace(strings.Replace(sig, fmt.Sprintf("date=%d", sp.date), fmt.Sprintf("date=%d", t2-10), 1), fmt.Sprintf("expires=%d", sp.expires), fmt.Sprintf("expires=%d", t2+10), 1)
				for _, hv := range []string{decoy + ", " + sig, sig + ", " + decoy, strings.Replace(decoy, "label;", "other;", 1) + ", " + sig} {
					x := cloneEx(e)
					x.SignatureHeaderValue = hv
					ctx.emitVer(x, kc, t2, 0, signed, false, nil, false, false, "decoy member current, genuine member not")
				}
			}
			mem("three items, genuine in the middle", func(x *sxg.Exchange) { x.SignatureHeaderValue = "junk;sig=*AAAA*, " + sig + ", other;sig=*BBBB*" })
			mem("three items, genuine last", func(x *sxg.Exchange) { x.SignatureHeaderValue = "junk;sig=*AAAA*, other;sig=*BBBB*, " + sig })
			mem("two items, junk first", func(x *sxg.Exchange) { x.SignatureHeaderValue = "junk;sig=*AAAA*, " + sig })
			mem("two items, honest first", func(x *sxg.Exchange) { x.SignatureHeaderValue = sig + ", junk;sig=*AAAA*" })
			// attacker re-signs modified content with their own key and certificate
			sp2 := *sp
			sp2.payload = []byte("attacker content")
			sp2.status = 404
			var signedAll []map[string]interface{}
			signedAll = append(signedAll, signed...)
			ea := buildRecorded(&sp2, attacker, &signedAll)
			ctx.emitVer(cloneEx(ea), attacker, mid, 0, signedAll, false, nil, false, false, "attacker own cert (legit)")
			ctx.emitVer(cloneEx(ea), kc, mid, 0, signedAll, false, nil, false, false, "attacker sig, honest chain")
			xa := cloneEx(ea)
			xa.SignatureHeaderValue = xa.SignatureHeaderValue + ", " + sig
			ctx.emitVer(xa, kc, mid, 0, signedAll, false, nil, false, false, "attacker item + honest item, attacker content")
			xb := cloneEx(e)
			xb.SignatureHeaderValue = ea.SignatureHeaderValue + ", " + sig
			ctx.emitVer(xb, kc, mid, 0, signedAll, false, nil, false, false, "attacker item + honest item, honest content")
			// honest exchange under the attacker's chain
			ctx.emitVer(cloneEx(e), attacker, mid, 0, signedAll, false, nil, false, false, "honest sig, foreign chain")
		}
	}
	return nil
}

// rekeyFile replaces the CBOR byte-string key oldKey of the header block by newKey and fixes the key's head and the
// headerLength field (both keys shorter than 24 bytes... or not: heads up to 255 are handled).  nil if not found.
func rekeyFile(file []byte, ver string, oldKey, newKey string) []byte {
	p := 8
	if ver != "1b1" {
		if len(file) < 10 {
			return nil
		}
		p = 10 + int(file[8])<<8 + int(file[9])
	}
	if len(file) < p+6 {
		return nil
	}
	sl := int(file[p])<<16 | int(file[p+1])<<8 | int(file[p+2])
	hl := int(file[p+3])<<16 | int(file[p+4])<<8 | int(file[p+5])
	hs := p + 6 + sl
	if len(file) < hs+hl {
		return nil
	}
	head := func(n int) []byte {
		if n < 24 {
			return []byte{byte(0x40 + n)}
		}
		return []byte{0x58, byte(n)}
	}
	oldEnc := append(head(len(oldKey)), oldKey...)
	i := bytes.Index(file[hs:hs+hl], oldEnc)
	if i < 0 {
		return nil
	}
	newEnc := append(head(len(newKey)), newKey...)
	out := append([]byte{}, file[:hs+i]...)
	out = append(out, newEnc...)
	out = append(out, file[hs+i+len(oldEnc):]...)
	nh := hl + len(newEnc) - len(oldEnc)
	out[p+3], out[p+4], out[p+5] = byte(nh>>16), byte(nh>>8), byte(nh)
	return out
}

func init() { register("sxg-mut", sxgMut) }
