package main

import (
	"encoding/json"
	"fmt"
	"math/rand"
	"net/http"
	"strings"
	"time"

	sxg "github.com/WICG/webpackage/go/signedexchange"
	"github.com/WICG/webpackage/go/signedexchange/version"
)

var statefulReq = []string{"authorization", "cookie", "cookie2", "proxy-authorization", "sec-websocket-key"}
var uncachedResp = []string{"connection", "keep-alive", "proxy-connection", "trailer", "transfer-encoding", "upgrade",
	"authentication-control", "authentication-info", "clear-site-data", "optional-www-authenticate", "proxy-authenticate",
	"proxy-authentication-info", "public-key-pins", "sec-websocket-accept", "set-cookie", "set-cookie2", "setprofile",
	"strict-transport-security", "www-authenticate"}

func casings(r *rand.Rand, s string) []string {
	kebab := http.CanonicalHeaderKey(s)
	return []string{s, kebab, strings.ToUpper(s), randCase(r, s)}
}

// a deviation edits the scenario before signing (pre) or the signed exchange afterwards (post)
type deviation struct {
	name string
	pre  func(sc *scenario)
	post func(e *sxg.Exchange)
}

type scenario struct {
	sp      *sxSpec
	tOff    int64 // verification time = date + tOff (or expires + tOff if fromExp)
	fromExp bool
	ns      int
	rawReq  map[string][]string // entries put into the request header map under the exact key
	rawResp map[string][]string
	post    []func(e *sxg.Exchange)
	names   []string
	absT    int64 // verification time given absolutely (scenarios with timestamps before the epoch)
	hasAbsT bool
}

func newScenario(r *rand.Rand, ver version.Version) *scenario {
	sp := baseSpec(r, ver)
	sp.resph = http.Header{}
	sp.resph.Add("Content-Type", "text/html")
	sp.payload = randBytes(r, 20)
	return &scenario{sp: sp, tOff: 10, rawReq: map[string][]string{}, rawResp: map[string][]string{}}
}

func deviations(r *rand.Rand, ver version.Version) []deviation {
	var ds []deviation
	add := func(name string, pre func(sc *scenario), post func(e *sxg.Exchange)) {
		ds = append(ds, deviation{name, pre, post})
	}
	// verification instants
	for _, t := range []struct {
		n   string
		exp bool
		off int64
		ns  int
	}{{"t=date-1s", false, -1, 0}, {"t=date-1ns", false, -1, 999999999}, {"t=date", false, 0, 0}, {"t=date+1s", false, 1, 0},
		{"t=expires-1s", true, -1, 0}, {"t=expires", true, 0, 0}, {"t=expires+1ns", true, 0, 1}, {"t=expires+1s", true, 1, 0}} {
		t := t
		add(t.n, func(sc *scenario) { sc.fromExp, sc.tOff, sc.ns = t.exp, t.off, t.ns }, nil)
	}
	// signed timestamps: lifetimes that only fit 64 bits modulo 2^64, windows that start before the epoch
	for _, w := range []struct {
		n         string
		date, exp int64
		t         int64
	}{{"dates wrap: -2^62..2^62", -(1 << 62), 1 << 62, 1600000000}, {"dates wrap: -2^63+1..t+1h", -(1<<63 - 1), 1600003600, 1600000000},
		{"dates wrap: -2^63+1..2^63-1", -(1<<63 - 1), 1<<63 - 1, 1600000000}, {"date negative, short: -5..5 at 0", -5, 5, 0},
		{"date negative, 7d+1: -604800..1 at 0", -604800, 1, 0}, {"date negative, 7d: -604799..1 at 1", -604799, 1, 1},
		// seconds beyond what time.Unix represents without wrapping: still dates in the far future
		{"date 2^63-1, expires t+1h", 1<<63 - 1, 1600003600, 1600000000}, {"date at the time.Unix wrap point, expires t+1h", 9223371974719179008, 1600003600, 1600000000},
		{"date just below the wrap point, expires t+1h", 9223371974719179007, 1600003600, 1600000000}, {"date and expires beyond the wrap point", 9223371974719179008, 9223371974719179608, 1600000000}} {
		w := w
		add(w.n, func(sc *scenario) { sc.sp.date, sc.sp.expires, sc.absT, sc.hasAbsT = w.date, w.exp, w.t, true }, nil)
	}
	for _, l := range []int64{604799, 604800, 604801, 1, 0} {
		l := l
		add("lifetime="+itoa(int(l)), func(sc *scenario) { sc.sp.expires = sc.sp.date + l }, nil)
	}
	for _, m := range []string{"HEAD", "POST", "PUT", "get", "DELETE"} {
		m := m
		add("method="+m, func(sc *scenario) { sc.sp.method = m }, nil)
	}
	for _, h := range statefulReq {
		for _, c := range casings(r, h) {
			c := c
			add("reqhdr "+c, func(sc *scenario) { sc.rawReq[c] = []string{"v"} }, nil)
		}
	}
	for _, h := range []string{"accept-language", "x-cookie", "cookies"} {
		h := h
		add("reqhdr harmless "+h, func(sc *scenario) { sc.rawReq[http.CanonicalHeaderKey(h)] = []string{"v"} }, nil)
	}
	for _, h := range uncachedResp {
		for _, c := range casings(r, h) {
			c := c
			add("resphdr "+c, func(sc *scenario) { sc.rawResp[c] = []string{"v"} }, nil)
		}
	}
	for _, h := range []string{"x-set-cookie", "vary", "link"} {
		h := h
		add("resphdr harmless "+h, func(sc *scenario) { sc.rawResp[http.CanonicalHeaderKey(h)] = []string{"v"} }, nil)
	}
	// Cache-Control directive subsets (status made non-default-cacheable separately, see "status")
	dirs := []string{"no-store", "private", "public", "max-age=1", "s-maxage=1", "no-cache", "must-revalidate", "foo=bar"}
	// quoted-string arguments in every degenerate form (the comma inside quotes splits the directive for a parser that
	// does not track quotes - the specification splits the same way, see Sxg!Directives)
	for _, q := range []string{`ext=","`, `ext="`, `ext=""`, `max-age="5"`, `private="set-cookie"`, `"`, `=`, `=""`, `ext="a, no-store"`, `ext=", public`} {
		q := q
		add("cc quoted "+q, func(sc *scenario) { sc.rawResp["Cache-Control"] = []string{q} }, nil)
	}
	for mask := 1; mask < 1<<uint(len(dirs)); mask++ {
		var sel []string
		for i, d := range dirs {
			if mask&(1<<uint(i)) != 0 {
				sel = append(sel, d)
			}
		}
		if len(sel) > 3 && r.Intn(4) != 0 {
			continue
		}
		r.Shuffle(len(sel), func(i, j int) { sel[i], sel[j] = sel[j], sel[i] })
		for i := range sel {
			if r.Intn(3) == 0 {
				sel[i] = randCase(r, sel[i])
			}
		}
		sel2 := sel
		sel = sel2
		switch r.Intn(3) {
		case 0:
			add("cc "+strings.Join(sel, ","), func(sc *scenario) { sc.rawResp["Cache-Control"] = []string{strings.Join(sel, ", ")} }, nil)
		case 1:
			add("cc "+strings.Join(sel, ","), func(sc *scenario) { sc.rawResp["Cache-Control"] = []string{strings.Join(sel, ",")} }, nil)
		default: // several field lines (Header.Add)
			add("cc-multi "+strings.Join(sel, "|"), func(sc *scenario) { sc.rawResp["Cache-Control"] = append([]string{}, sel...) }, nil)
		}
	}
	add("expires header", func(sc *scenario) { sc.rawResp["Expires"] = []string{"Thu, 01 Jan 2099 00:00:00 GMT"} }, nil)
	for st := 100; st <= 599; st++ {
		st := st
		if st%7 == 0 || st < 104 || (st >= 200 && st <= 208) || st == 226 || (st >= 300 && st <= 308) || (st >= 400 && st <= 431) || st == 451 || (st >= 500 && st <= 511) {
			add("status="+itoa(st), func(sc *scenario) { sc.sp.status = st }, nil)
		}
	}
	for _, v := range []struct{ n, u string }{{"vurl other host", "https://other.example/v"}, {"vurl http", "http://example.com/v"},
		{"vurl other port", "https://example.com:8443/v"}, {"vurl :443", "https://example.com:443/v"}, {"vurl upper host", "https://EXAMPLE.com/v"},
		{"vurl other path", "https://example.com/a/b/c?d"}, {"vurl subdomain", "https://www.example.com/v"},
		// relative references: a validity URL has an origin only if it is absolute
		{"vurl relative path", "/v"}, {"vurl relative", "v"}, {"vurl empty", ""}, {"vurl query only", "?x"}, {"vurl scheme-relative", "//example.com/v"}} {
		v := v
		add(v.n, func(sc *scenario) { sc.sp.vURL = v.u }, nil)
	}
	add("no content-type", func(sc *scenario) { sc.sp.resph.Del("Content-Type") }, nil)
	add("empty payload", func(sc *scenario) { sc.sp.payload = nil }, nil)
	add("no content-type, empty payload", func(sc *scenario) { sc.sp.resph.Del("Content-Type"); sc.sp.payload = nil }, nil)
	add("no content-type, empty payload, 204", func(sc *scenario) { sc.sp.resph.Del("Content-Type"); sc.sp.payload = nil; sc.sp.status = 204 }, nil)
	// the integrity parameter is not signed: an exchange protected CONSISTENTLY with the other drafts' scheme and naming that
	// scheme in its integrity parameter is still not an exchange of this version
	swapIntegrity := func(e *sxg.Exchange) {
		if e.Version == version.Version1b1 {
			e.SignatureHeaderValue = strings.Replace(e.SignatureHeaderValue, "integrity=\"mi-draft2\"", "integrity=\"digest/mi-sha256-03\"", 1)
		} else {
			e.SignatureHeaderValue = strings.Replace(e.SignatureHeaderValue, "integrity=\"digest/mi-sha256-03\"", "integrity=\"mi-draft2\"", 1)
		}
	}
	add("foreign MI scheme, consistent", func(sc *scenario) { sc.sp.foreignMI = true }, swapIntegrity)
	add("foreign MI scheme, own integrity id", func(sc *scenario) { sc.sp.foreignMI = true }, nil)
	add("integrity other version", nil, func(e *sxg.Exchange) {
		if e.Version == version.Version1b1 {
			e.SignatureHeaderValue = strings.Replace(e.SignatureHeaderValue, "integrity=\"mi-draft2\"", "integrity=\"digest/mi-sha256-03\"", 1)
		} else {
			e.SignatureHeaderValue = strings.Replace(e.SignatureHeaderValue, "integrity=\"digest/mi-sha256-03\"", "integrity=\"mi-draft2\"", 1)
		}
	})
	add("integrity junk", nil, func(e *sxg.Exchange) {
		e.SignatureHeaderValue = strings.Replace(e.SignatureHeaderValue, "integrity=\"", "integrity=\"x", 1)
	})
	return ds
}

func itoa(n int) string { return strings.TrimSpace(strings.Replace(" "+fmtInt(n), " ", "", 1)) }
func fmtInt(n int) string {
	if n == 0 {
		return "0"
	}
	neg := n < 0
	if neg {
		n = -n
	}
	var b []byte
	for n > 0 {
		b = append([]byte{byte('0' + n%10)}, b...)
		n /= 10
	}
	if neg {
		return "-" + string(b)
	}
	return string(b)
}

func runScenario(ctx *verCtx, sc *scenario, kc *keyCert) {
	for k, v := range sc.rawReq {
		sc.sp.reqh[k] = v
	}
	for k, v := range sc.rawResp {
		sc.sp.resph[k] = v
	}
	var signed []map[string]interface{}
	e, err := buildRecordedErr(sc.sp, kc, &signed)
	if err != nil { // e.g. the same header name under two spellings: not representable, not a scenario
		return
	}
	for _, p := range sc.post {
		p(e)
	}
	t := sc.sp.date + sc.tOff
	if sc.fromExp {
		t = sc.sp.expires + sc.tOff
	}
	if sc.hasAbsT {
		t = sc.absT
	}
	ctx.emitVer(e, kc, t, sc.ns, signed, true, nil, false, false, strings.Join(sc.names, " & "))
}

// sxg-pol <tier>: C09. Baseline x every single deviation, sampled pairs and random multi-deviations;
// every verdict must equal the acceptance predicate in both directions.
func sxgPol(args []string) error {
	thorough := len(args) > 0 && args[0] == "thorough"
	r := rand.New(rand.NewSource(seed()))
	kc := newKeyCert("p256", nil, 0)
	ctx := &verCtx{prefix: "p"}
	if len(args) > 0 && args[0] == "dst" {
		// run by the check under TZ values with daylight saving: lifetimes around 7 days on signatures dated next to a
		// transition (the cap is 604800 seconds)
		ctx.prefix = "z"
		for _, ver := range version.AllVersions {
			for _, d := range []int64{1520251200, 1540900800, 1521633600, 1540296000} {
				for _, l := range []int64{604799, 604800, 604801, 606600, 608399, 601200} {
					sc := newScenario(r, ver)
					sc.sp.date, sc.sp.expires = d, d+l
					sc.tOff = l / 2
					sc.names = []string{"dst date=" + itoa(int(d)), "lifetime=" + itoa(int(l))}
					runScenario(ctx, sc, kc)
				}
			}
		}
		return nil
	}
	for _, ver := range version.AllVersions {
		ds := deviations(r, ver)
		apply := func(sc *scenario, d deviation) {
			if d.pre != nil {
				d.pre(sc)
			}
			if d.post != nil {
				sc.post = append(sc.post, d.post)
			}
			sc.names = append(sc.names, d.name)
		}
		sc := newScenario(r, ver)
		sc.names = []string{"baseline"}
		runScenario(ctx, sc, kc)
		// a second baseline whose status is not cacheable by default, so that directives decide
		for _, d := range ds {
			sc := newScenario(r, ver)
			apply(sc, d)
			runScenario(ctx, sc, kc)
			if strings.HasPrefix(d.name, "cc") || d.name == "expires header" {
				sc := newScenario(r, ver)
				sc.sp.status = 302
				sc.names = []string{"status=302"}
				apply(sc, d)
				runScenario(ctx, sc, kc)
			}
			if strings.HasPrefix(d.name, "cc") {
				// every directive subset also together with an Expires header, on a default-cacheable and a
				// not-default-cacheable status (no condition may mask another)
				for _, st := range []int{200, 302} {
					sc := newScenario(r, ver)
					sc.sp.status = st
					sc.rawResp["Expires"] = []string{"Thu, 01 Jan 2099 00:00:00 GMT"}
					sc.names = []string{"status=" + itoa(st), "expires header"}
					apply(sc, d)
					runScenario(ctx, sc, kc)
				}
			}
		}
		np := 1500
		if thorough {
			np = 20000
		}
		for i := 0; i < np; i++ {
			sc := newScenario(r, ver)
			k := 2
			if i%3 == 0 {
				k = 3 + r.Intn(3)
			}
			if r.Intn(2) == 0 {
				sc.sp.status = []int{302, 307, 500, 403}[r.Intn(4)]
				sc.names = append(sc.names, "status="+itoa(sc.sp.status))
			}
			for j := 0; j < k; j++ {
				apply(sc, ds[r.Intn(len(ds))])
			}
			runScenario(ctx, sc, kc)
		}
	}
	return nil
}

func init() { register("sxg-pol", sxgPol) }

// abstract scenario of tla/MC_SxgPolicy.tla
type polScn struct {
	S struct {
		Ver        string   `json:"ver"`
		Win        string   `json:"win"`
		Decoy      []string `json:"decoy"`
		T          string   `json:"t"`
		Life       int64    `json:"life"`
		Method     string   `json:"method"`
		Reqhdr     string   `json:"reqhdr"`
		Resphdr    string   `json:"resphdr"`
		Cc         []string `json:"cc"`
		Ccform     string   `json:"ccform"`
		Expireshdr string   `json:"expireshdr"`
		Status     int      `json:"status"`
		Vurl       string   `json:"vurl"`
		Ct         bool     `json:"ct"`
		Integ      string   `json:"integ"`
	} `json:"s"`
	Ok bool `json:"ok"`
}

// sxg-scn: stdin = scenarios exported by MC_SxgPolicy; each is built as a real signed exchange and verified.
func sxgScn(args []string) error {
	r := rand.New(rand.NewSource(seed()))
	kc := newKeyCert("p256", nil, 0)
	ctx := &verCtx{prefix: "q"}
	return eachLine(func(line []byte) error {
		var q polScn
		if err := json.Unmarshal(line, &q); err != nil {
			return err
		}
		s := q.S
		sc := newScenario(r, version.Version(s.Ver))
		sp := sc.sp
		if s.Win == "present" {
			sp.date = time.Now().Unix() - s.Life/2
		}
		sp.expires = sp.date + s.Life
		sp.method = s.Method
		sp.status = s.Status
		sec, ns := sp.date+s.Life/2, 0
		switch s.T {
		case "date-1s":
			sec = sp.date - 1
		case "date-1ns":
			sec, ns = sp.date-1, 999999999
		case "date":
			sec = sp.date
		case "date+1s":
			sec = sp.date + 1
		case "expires-1s":
			sec = sp.expires - 1
		case "expires":
			sec = sp.expires
		case "expires+1ns":
			sec, ns = sp.expires, 1
		case "expires+1s":
			sec = sp.expires + 1
		}
		if s.Reqhdr != "none" {
			sc.rawReq[s.Reqhdr] = []string{"v"}
		}
		if s.Resphdr != "none" {
			sc.rawResp[s.Resphdr] = []string{"v"}
		}
		if len(s.Cc) > 0 {
			var ds []string
			for _, d := range s.Cc {
				if d == "max-age" || d == "s-maxage" {
					d += "=60"
				}
				if s.Ccform == "upper" {
					d = strings.ToUpper(d)
				}
				ds = append(ds, d)
			}
			if s.Ccform == "multi" {
				sc.rawResp["Cache-Control"] = ds
			} else {
				sc.rawResp["Cache-Control"] = []string{strings.Join(ds, ", ")}
			}
		}
		if s.Expireshdr != "none" && s.Expireshdr != "" {
			sc.rawResp["Expires"] = []string{map[string]string{"date": "Thu, 01 Jan 2099 00:00:00 GMT", "zero": "0", "neg": "-1", "iso": "2099-01-01T00:00:00Z", "junk": "never", "empty": ""}[s.Expireshdr]}
		}
		sp.vURL = map[string]string{"same": "https://example.com/v", "otherhost": "https://other.example/v", "http": "http://example.com/v",
			"otherport": "https://example.com:8443/v", "p443": "https://example.com:443/v", "upperhost": "https://EXAMPLE.com/v",
			"otherpath": "https://example.com/a/b/c?d=e", "subdomain": "https://www.example.com/v",
			"relpath": "/v", "empty": "", "schemerel": "//example.com/v"}[s.Vurl]
		if !s.Ct {
			sp.resph.Del("Content-Type")
		}
		for k, v := range sc.rawReq {
			sp.reqh[k] = v
		}
		for k, v := range sc.rawResp {
			sp.resph[k] = v
		}
		var signed []map[string]interface{}
		e, err := buildRecordedErr(sp, kc, &signed)
		if err != nil {
			return nil
		}
		switch s.Integ {
		case "other":
			if e.Version == version.Version1b1 {
				e.SignatureHeaderValue = strings.Replace(e.SignatureHeaderValue, "integrity=\"mi-draft2\"", "integrity=\"digest/mi-sha256-03\"", 1)
			} else {
				e.SignatureHeaderValue = strings.Replace(e.SignatureHeaderValue, "integrity=\"digest/mi-sha256-03\"", "integrity=\"mi-draft2\"", 1)
			}
		case "junk":
			e.SignatureHeaderValue = strings.Replace(e.SignatureHeaderValue, "integrity=\"", "integrity=\"x", 1)
		}
		if len(s.Decoy) == 2 && s.Decoy[0] != "none" {
			sig := e.SignatureHeaderValue
			ds, es := fmt.Sprintf("date=%d", sp.date), fmt.Sprintf("expires=%d", sp.expires)
			d := sig
			switch s.Decoy[0] {
			case "overlong":
				d = strings.Replace(sig, es, fmt.Sprintf("expires=%d", sp.date+604801), 1)
			case "expired":
				d = strings.Replace(strings.Replace(sig, ds, fmt.Sprintf("date=%d", sp.date-90000), 1), es, fmt.Sprintf("expires=%d", sp.date-80000), 1)
			case "future":
				d = strings.Replace(strings.Replace(sig, ds, fmt.Sprintf("date=%d", sp.expires+80000), 1), es, fmt.Sprintf("expires=%d", sp.expires+90000), 1)
			case "otherorigin":
				d = strings.Replace(sig, "validity-url=\"", "validity-url=\"https://decoy.example/v#", 1)
			case "integrity":
				d = strings.Replace(sig, "integrity=\"", "integrity=\"x", 1)
			case "nodate":
				d = strings.Replace(sig, ";"+ds, "", 1)
			case "badsig":
				i0 := strings.Index(sig, "sig=*") + 9
				c := byte('A')
				if sig[i0] == 'A' {
					c = 'B'
				}
				d = sig[:i0] + string(c) + sig[i0+1:]
			case "certsha":
				d = strings.Replace(sig, "cert-sha256=*", "cert-sha256=*AAAA", 1)
				if j := strings.Index(d, "cert-sha256=*AAAA"); j >= 0 {
					d = d[:j+17] + d[j+21:]
				}
			case "unparsable-params":
				d = "decoy;sig=*AAAA*;date=1;expires=2"
			}
			if s.Decoy[1] == "first" {
				e.SignatureHeaderValue = d + ", " + sig
			} else {
				e.SignatureHeaderValue = sig + ", " + d
			}
		}
		note := string(line)
		if q.Ok {
			note = "ABSTRACT-OK " + note
		} else {
			note = "ABSTRACT-REJECT " + note
		}
		tm := time.Unix(sec, int64(ns))
		switch s.T {
		case "zero":
			tm = time.Time{}
		case "epoch":
			tm = time.Unix(0, 0)
		case "farfuture":
			tm = time.Date(9999, 12, 31, 23, 59, 59, 999999999, time.UTC)
		}
		ctx.emitVerT(e, kc, tm, signed, true, nil, false, false, note)
		return nil
	})
}

func init() { register("sxg-scn", sxgScn) }
