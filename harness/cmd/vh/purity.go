package main

import (
	"bytes"
	"crypto/ed25519"
	"encoding/json"
	"fmt"
	sxg "github.com/WICG/webpackage/go/signedexchange"
	"io"
	"math/rand"
	"net/http"
	"net/url"
	"sync"
	"time"

	"github.com/WICG/webpackage/go/bundle"
	"github.com/WICG/webpackage/go/bundle/signature"
	bversion "github.com/WICG/webpackage/go/bundle/version"
	"github.com/WICG/webpackage/go/integrityblock"
	"github.com/WICG/webpackage/go/integrityblock/webbundleid"
	"github.com/WICG/webpackage/go/signedexchange/certurl"
	"github.com/WICG/webpackage/go/signedexchange/mice"
	sh "github.com/WICG/webpackage/go/signedexchange/structuredheader"
	"github.com/WICG/webpackage/go/signedexchange/version"
)

// gate: a destination writer that blocks every Write until the scheduler grants it
type gate struct {
	buf    bytes.Buffer
	arrive chan struct{}
	grant  chan struct{}
}

func newGate() *gate { return &gate{arrive: make(chan struct{}), grant: make(chan struct{})} }
func (g *gate) Write(p []byte) (int, error) {
	g.arrive <- struct{}{}
	<-g.grant
	return g.buf.Write(p)
}

type pser struct {
	name    string
	gated   bool
	run     func(w io.Writer) []byte // gated: writes to w and returns nil; else returns the output
	check   func() bool              // has a shared input been modified ?
	seqOnly bool                     // the runner itself keeps state (alternation): repeat mode only, no goroutines
}

func runSchedule(s *pser, n int, sched []int) [][]byte {
	outs := make([][]byte, n)
	if !s.gated {
		var wg sync.WaitGroup
		start := make(chan struct{})
		for g := 0; g < n; g++ {
			wg.Add(1)
			go func(g int) {
				defer wg.Done()
				<-start
				outs[g] = s.run(nil)
			}(g)
		}
		close(start)
		wg.Wait()
		return outs
	}
	gates := make([]*gate, n)
	done := make([]chan struct{}, n)
	for g := 0; g < n; g++ {
		gates[g] = newGate()
		done[g] = make(chan struct{})
		go func(g int) {
			s.run(gates[g])
			close(done[g])
		}(g)
	}
	finished := make([]bool, n)
	step := func(g int) {
		if finished[g] {
			return
		}
		select {
		case <-gates[g].arrive:
			gates[g].grant <- struct{}{}
		case <-done[g]:
			finished[g] = true
		}
	}
	for _, g := range sched {
		step((g - 1) % n)
	}
	for {
		all := true
		for g := 0; g < n; g++ {
			if !finished[g] {
				all = false
				step(g)
			}
		}
		if all {
			break
		}
	}
	for g := 0; g < n; g++ {
		outs[g] = append([]byte{}, gates[g].buf.Bytes()...)
	}
	return outs
}

func permHeader(r *rand.Rand, kv [][2]string) http.Header {
	idx := r.Perm(len(kv))
	h := http.Header{}
	for _, i := range idx {
		h.Add(kv[i][0], kv[i][1])
	}
	return h
}

// purity-run <tier>: stdin = schedules exported by MC_Purity.
func purityRun(args []string) error {
	thorough := len(args) > 0 && args[0] == "thorough"
	r := rand.New(rand.NewSource(seed()))
	var scheds [][]int
	if err := eachLine(func(line []byte) error {
		var v struct {
			Sched []int `json:"sched"`
		}
		if err := json.Unmarshal(line, &v); err != nil {
			return err
		}
		scheds = append(scheds, v.Sched)
		return nil
	}); err != nil {
		return err
	}
	// shared read-only inputs
	hkv := [][2]string{{"Content-Type", "text/html"}, {"X-A", "1"}, {"x-b", "2"}, {"X-A", "3"}, {"Cache-Control", "max-age=5"}, {"Zeta", "z"}}
	mkBundle := func() *bundle.Bundle {
		b := &bundle.Bundle{Version: bversion.VersionB1}
		pu, _ := url.Parse("https://a.example/")
		b.PrimaryURL = pu
		for _, us := range []string{"https://a.example/", "https://a.example/b", "https://a.example/aa"} {
			u, _ := url.Parse(us)
			b.Exchanges = append(b.Exchanges, &bundle.Exchange{Request: bundle.Request{URL: u}, Response: bundle.Response{Status: 200, Header: permHeader(r, hkv), Body: []byte("body of " + us)}})
		}
		s := &bsigner{"s1", []*keyCert{newKeyCert("p256", []string{"a.example"}, 0)}, map[string]bool{"a.example": true}}
		var signed []map[string]interface{}
		nb, err := signStep(b, s, time.Unix(1600000000, 0), time.Hour, 16, &signed)
		if err != nil {
			panic(err)
		}
		return nb
	}
	sharedBundle := mkBundle()
	parsedBundle := func() *bundle.Bundle {
		f, _, _, _ := writeBundle(sharedBundle, "plain")
		b, _ := readBundle(f)
		return b
	}()
	kc := newKeyCert("p256", nil, 0)
	var sers []*pser
	for _, ver := range version.AllVersions {
		sp := baseSpec(r, ver)
		sp.resph = permHeader(r, hkv)
		se := buildSigned(sp, kc)
		e, signer := se.e, se.signer
		sers = append(sers, &pser{name: "Exchange.Write " + string(ver), gated: true, run: func(w io.Writer) []byte { e.Write(w); return nil }})
		sers = append(sers, &pser{name: "DumpSignedMessage " + string(ver), gated: true, run: func(w io.Writer) []byte { e.DumpSignedMessage(w, signer); return nil }})
		sers = append(sers, &pser{name: "DumpExchangeHeaders " + string(ver), gated: true, run: func(w io.Writer) []byte { e.DumpExchangeHeaders(w); return nil }})
	}
	// b1 index with a URL that has two variants next to URLs with a single response (the variants value is per URL)
	mixedBundle := func() *bundle.Bundle {
		b := &bundle.Bundle{Version: bversion.VersionB1}
		pu, _ := url.Parse("https://a.example/")
		b.PrimaryURL = pu
		add := func(us string, kv [][2]string) {
			u, _ := url.Parse(us)
			b.Exchanges = append(b.Exchanges, &bundle.Exchange{Request: bundle.Request{URL: u}, Response: bundle.Response{Status: 200, Header: permHeader(r, kv), Body: []byte("body of " + us + kv[0][1])}})
		}
		add("https://a.example/", [][2]string{{"Content-Type", "text/html"}})
		add("https://a.example/v", [][2]string{{"Variant-Key", "en"}, {"Variants", "Accept-Language;en;fr"}})
		add("https://a.example/v", [][2]string{{"Variant-Key", "fr"}, {"Variants", "Accept-Language;en;fr"}})
		add("https://a.example/p", [][2]string{{"Content-Type", "text/plain"}})
		add("https://a.example/q", [][2]string{{"Content-Type", "text/css"}})
		return b
	}()
	sers = append(sers, &pser{name: "Bundle.WriteTo (b1 variants + plain)", gated: true, run: func(w io.Writer) []byte { mixedBundle.WriteTo(w); return nil }})
	// header names that differ only in letter case, put into the map directly: whatever the serializer makes of them
	// (today: it fails with ErrDuplicatedKey), it makes the same of them every time
	for _, ver := range version.AllVersions {
		sp := baseSpec(r, ver)
		ce := buildSigned(sp, kc).e
		ce.ResponseHeaders["Link"] = []string{"<https://example.com/a>;rel=preload"}
		ce.ResponseHeaders["link"] = []string{"<https://example.com/b>;rel=preload"}
		ce.ResponseHeaders["LINK"] = []string{"<https://example.com/c>;rel=preload"}
		// the output of a failed call is its error (bytes handed to the destination before the failure are not output)
		sers = append(sers, &pser{name: "DumpExchangeHeaders colliding names " + string(ver), run: func(io.Writer) []byte {
			var b bytes.Buffer
			if err := ce.DumpExchangeHeaders(&b); err != nil {
				return []byte("error: " + err.Error())
			}
			return b.Bytes()
		}})
	}
	// the signed message of one exchange for one certificate, produced alternately by a fresh Signer and by a long-lived
	// Signer that served ANOTHER certificate just before: same logical input, same bytes
	{
		kcA := newKeyCert("p256", nil, 0)
		kcB := renew(kcA, 11)
		for _, ver := range version.AllVersions {
			sp := baseSpec(r, ver)
			se := buildSigned(sp, kcA)
			ex := se.e
			cu, _ := url.Parse(sp.certURL)
			vu, _ := url.Parse(sp.vURL)
			long := &sxg.Signer{Date: time.Unix(sp.date, 0), Expires: time.Unix(sp.expires, 0), Certs: kcB.certs, CertUrl: cu, ValidityUrl: vu, PrivKey: kcA.key}
			calls := 0
			sers = append(sers, &pser{name: "DumpSignedMessage (fresh / long-lived Signer) " + string(ver), seqOnly: true, run: func(io.Writer) []byte {
				calls++
				var b, scratch bytes.Buffer
				if calls%2 == 1 {
					fresh := &sxg.Signer{Date: time.Unix(sp.date, 0), Expires: time.Unix(sp.expires, 0), Certs: kcA.certs, CertUrl: cu, ValidityUrl: vu, PrivKey: kcA.key}
					ex.DumpSignedMessage(&b, fresh)
					return b.Bytes()
				}
				long.Certs = kcB.certs
				ex.DumpSignedMessage(&scratch, long)
				c2 := cloneEx(ex)
				c2.AddSignatureHeader(long) // signs (and may memoise) for certificate B
				long.Certs = kcA.certs
				ex.DumpSignedMessage(&b, long)
				return b.Bytes()
			}})
		}
	}
	// ONE exchange object served in several versions (b2 and b3 share the payload encoding: a server sets Version and
	// serializes, again and again): what is written for a version depends on the fields and that version only, not on
	// which version was written before.  Method HEAD is legal in b1 / b2 and not written at all in b3.  Odd calls serialize
	// a fresh copy of the template in the target version only, even calls a fresh copy that has first been serialized in
	// the other versions: same logical input, same bytes (the template itself is never serialized).
	for _, target := range version.AllVersions {
		sp := baseSpec(r, target)
		sp.method = "HEAD"
		tmpl := cloneEx(buildSigned(sp, kc).e)
		target := target
		calls := 0
		sers = append(sers, &pser{name: "DumpExchangeHeaders " + string(target) + " of a HEAD exchange (fresh / after the other versions)", seqOnly: true, run: func(io.Writer) []byte {
			calls++
			c := cloneEx(tmpl)
			if calls%2 == 0 {
				for _, o := range version.AllVersions {
					if o != target {
						var scratch bytes.Buffer
						c.Version = o
						c.DumpExchangeHeaders(&scratch)
					}
				}
			}
			c.Version = target
			var b bytes.Buffer
			if err := c.DumpExchangeHeaders(&b); err != nil {
				return []byte("error: " + err.Error())
			}
			return append(b.Bytes(), []byte(" method:"+c.RequestMethod)...)
		}})
	}
	// Response.HeaderSha256 (what bundle signing hashes): an ordinary response, and - as an UNRELATED call that fails after
	// partial progress - a response whose header names collide; the failing call must not disturb the next ordinary one
	okResp := &bundle.Response{Status: 200, Header: permHeader(r, hkv), Body: []byte("x")}
	badResp := &bundle.Response{Status: 200, Header: http.Header{"X-Dup": {"1"}, "x-dup": {"2"}, "A-First": {"a"}, "Zeta": {"z"}}, Body: []byte("y")}
	sers = append(sers, &pser{name: "Response.HeaderSha256", run: func(io.Writer) []byte {
		h, err := okResp.HeaderSha256()
		if err != nil {
			return []byte("error: " + err.Error())
		}
		return h
	}})
	sers = append(sers, &pser{name: "Response.HeaderSha256 (colliding names: fails)", run: func(io.Writer) []byte {
		h, err := badResp.HeaderSha256()
		if err != nil {
			return []byte("error: " + err.Error())
		}
		return h
	}})
	sers = append(sers, &pser{name: "Bundle.WriteTo (built)", gated: true, run: func(w io.Writer) []byte { sharedBundle.WriteTo(w); return nil }})
	sers = append(sers, &pser{name: "Bundle.WriteTo (parsed)", gated: true, run: func(w io.Writer) []byte { parsedBundle.WriteTo(w); return nil }})
	ch := (&bsigner{"c", []*keyCert{newKeyCert("p256", nil, 0), newKeyCert("p384", nil, 10)}, nil}).chain()
	ch[0].SCTList = []byte("sct")
	sers = append(sers, &pser{name: "CertChain.Write", gated: true, run: func(w io.Writer) []byte { certurl.CertChain(ch).Write(w); return nil }})
	payload := randBytes(r, 100)
	sers = append(sers, &pser{name: "mice.Encode", gated: true, run: func(w io.Writer) []byte {
		d, _ := mice.Draft03Encoding.Encode(w, payload, 16)
		w.Write([]byte(d))
		return nil
	}})
	// signed subset (map of URLs), structured header (map of parameters), integrity block (map of attributes)
	vu, _ := url.Parse("https://a.example/validity")
	sgn, _ := signature.NewSigner(bversion.VersionB2, ch, kc.key, vu, time.Unix(1600000000, 0), time.Hour)
	for _, e := range sharedBundle.Exchanges {
		sgn.AddExchange(e, "digest/mi-sha256-03")
	}
	sers = append(sers, &pser{name: "SignedSubset.Encode", run: func(io.Writer) []byte { b, _ := sgn.SignedSubset.Encode(); return b }})
	pi := &sh.ParameterisedIdentifier{Label: "label", Params: sh.Parameters{"sig": []byte{1, 2, 3}, "date": int64(5), "a": "x", "zz": sh.Token("t"), "cert-url": "https://c/"}}
	sers = append(sers, &pser{name: "ParameterisedIdentifier.String", run: func(io.Writer) []byte { s, _ := pi.String(); return []byte(s) }})
	pub, priv, _ := ed25519.GenerateKey(crandReader())
	keyBacking := make([]byte, 64)
	copy(keyBacking, pub)
	sharedKey := ed25519.PublicKey(keyBacking[:32]) // a key slice with spare capacity, as when sliced out of a larger buffer
	sers = append(sers, &pser{name: "GetWebBundleId", run: func(io.Writer) []byte { return []byte(webbundleid.GetWebBundleId(sharedKey)) },
		check: func() bool { return !bytes.Equal(keyBacking[32:], make([]byte, 32)) }})
	ibAttrs := integrityblock.GenerateSignatureAttributesWithPublicKey(pub)
	ibAttrs["zz"] = []byte{1}
	ibAttrs["a"] = []byte{2}
	ib := &integrityblock.IntegrityBlock{Magic: integrityblock.IntegrityBlockMagic, Version: integrityblock.VersionB1,
		SignatureStack: []*integrityblock.IntegritySignature{{SignatureAttributes: ibAttrs, Signature: ed25519.Sign(priv, []byte("x"))}}}
	sers = append(sers, &pser{name: "IntegrityBlock.CborBytes+DataToBeSigned", run: func(io.Writer) []byte {
		b, _ := ib.CborBytes()
		d, _ := integrityblock.GenerateDataToBeSigned(bytes.Repeat([]byte{9}, 64), b, ibAttrs)
		return append(b, d...)
	}})
	// premise of the model: package-level slices have no spare capacity
	sharedcap := cap(bversion.HeaderMagicBytesB1) != len(bversion.HeaderMagicBytesB1) || cap(bversion.HeaderMagicBytesB2) != len(bversion.HeaderMagicBytesB2) ||
		cap(bversion.VersionMagicBytesB1) != len(bversion.VersionMagicBytesB1) || cap(bversion.VersionMagicBytesB2) != len(bversion.VersionMagicBytesB2) ||
		cap(integrityblock.IntegrityBlockMagic) != len(integrityblock.IntegrityBlockMagic) || cap(integrityblock.VersionB1) != len(integrityblock.VersionB1)

	failing := failingCalls(r)
	reps := 50
	if thorough {
		reps = 200
	}
	id := 0
	for _, s := range sers {
		var ref bytes.Buffer
		if s.gated {
			// sequential reference through an ungated writer
			s.run(&ref)
		} else {
			ref.Write(s.run(nil))
		}
		// (A) repetitions, interleaved with unrelated calls - calls that succeed and calls that are refused or whose destination
		// fails (purity3.go)
		calls := []map[string]interface{}{}
		var raw [][]byte // results as returned, looked at only after all calls (a result must not be backed by reused storage)
		for i := 0; i < reps; i++ {
			var b bytes.Buffer
			if s.gated {
				s.run(&b)
				raw = append(raw, b.Bytes())
			} else {
				raw = append(raw, s.run(nil))
			}
			failing[(i*5+id)%len(failing)]()
			other := sers[(i*7+3)%len(sers)]
			if other.gated {
				var x bytes.Buffer
				other.run(&x)
			} else {
				other.run(nil)
			}
		}
		for _, o := range raw {
			calls = append(calls, map[string]interface{}{"g": 0, "out": ints(o)})
		}
		id++
		emit(map[string]interface{}{"case": fmt.Sprintf("p%d", id), "kind": "hist", "ser": s.name, "mode": "repeat", "sched": []int{}, "ref": ints(ref.Bytes()),
			"calls": calls, "mutated": s.check != nil && s.check(), "sharedcap": sharedcap})
		// (B) every exported schedule on real goroutines
		for si, sc := range scheds {
			if s.seqOnly {
				break
			}
			if !thorough && si%3 != 0 && len(scheds) > 30 {
				continue
			}
			n := 2
			for _, g := range sc {
				if g > n {
					n = g
				}
			}
			outs := runSchedule(s, n, sc)
			calls := []map[string]interface{}{}
			for g, o := range outs {
				calls = append(calls, map[string]interface{}{"g": g + 1, "out": ints(o)})
			}
			id++
			emit(map[string]interface{}{"case": fmt.Sprintf("p%d", id), "kind": "hist", "ser": s.name, "mode": "schedule", "sched": sc, "ref": ints(ref.Bytes()),
				"calls": calls, "mutated": s.check != nil && s.check(), "sharedcap": sharedcap})
		}
	}
	// (D) independent objects in parallel, cold (purity2.go)
	parallelCold(r, func(ser string, ref []byte, out []byte, g int) {
		id++
		mut := g == 0 && !bytes.Equal(ref, out) // g = 0: the deep rendering of the inputs before (ref) and after (out) the calls
		if g == 0 {
			ref, out = nil, nil
		}
		emit(map[string]interface{}{"case": fmt.Sprintf("p%d", id), "kind": "hist", "ser": ser, "mode": "parallel-cold", "sched": []int{g}, "ref": ints(ref),
			"calls": []map[string]interface{}{{"g": g, "out": ints(out)}}, "mutated": mut, "sharedcap": false})
	})
	// (C) permutations of map insertion order: the same logical header set inserted in random orders
	for _, ver := range version.AllVersions {
		sp := baseSpec(r, ver)
		var ref []byte
		calls := []map[string]interface{}{}
		for i := 0; i < reps; i++ {
			sp.resph = permHeader(r, hkv)
			// keep the multi-valued header's value order (it is significant), permute only the map insertion order
			sp.resph["X-A"] = []string{"1", "3"}
			e := buildSigned(&sxSpec{ver: sp.ver, uri: sp.uri, method: sp.method, reqh: sp.reqh, status: sp.status, resph: sp.resph, payload: sp.payload, rs: sp.rs,
				certURL: sp.certURL, vURL: sp.vURL, date: sp.date, expires: sp.expires}, kc).e
			var b bytes.Buffer
			e.DumpExchangeHeaders(&b)
			if ref == nil {
				ref = append([]byte{}, b.Bytes()...)
			}
			calls = append(calls, map[string]interface{}{"g": 0, "out": ints(b.Bytes())})
		}
		id++
		emit(map[string]interface{}{"case": fmt.Sprintf("p%d", id), "kind": "hist", "ser": "DumpExchangeHeaders permuted insertion " + string(ver), "mode": "permute", "sched": []int{},
			"ref": ints(ref), "calls": calls, "mutated": false, "sharedcap": false})
	}
	return nil
}

func init() { register("purity-run", purityRun) }
