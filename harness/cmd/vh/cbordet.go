package main

import (
	"encoding/json"
	"fmt"
	"os"
	"time"

	"github.com/WICG/webpackage/go/verifapi"
)

// detVerdict calls the real cbor.Deterministic under recover() and a watchdog.
// Verdicts: "nil" (accepted), "error", "panic", "timeout", "unstable" (depends on the memory behind the slice).
func detVerdict(b []byte, limit time.Duration) string {
	ch := make(chan string, 1)
	go func() {
		defer func() {
			if r := recover(); r != nil {
				ch <- "panic"
			}
		}()
		in := make([]byte, len(b)) // exact capacity: no spare bytes behind the input
		copy(in, b)
		exactPanic := false
		exact := func() (ok bool) {
			defer func() {
				if r := recover(); r != nil {
					ok, exactPanic = false, true
				}
			}()
			return verifapi.CborDeterministic(in) == nil
		}()
		// the same bytes as a prefix of a larger buffer (a reused read buffer, a sub-slice): the verdict is a function of
		// the byte string, not of what happens to lie behind it in memory
		for _, fill := range []byte{0x00, 0xff, 0x61} {
			big := make([]byte, len(b)+12)
			copy(big, b)
			for i := len(b); i < len(big); i++ {
				big[i] = fill
			}
			loose := func() (ok bool) {
				defer func() {
					if r := recover(); r != nil {
						ok = false
					}
				}()
				return verifapi.CborDeterministic(big[:len(b)]) == nil
			}()
			if loose != exact {
				ch <- "unstable"
				return
			}
		}
		if exactPanic {
			ch <- "panic"
		} else if !exact {
			ch <- "error"
		} else {
			ch <- "nil"
		}
	}()
	select {
	case v := <-ch:
		return v
	case <-time.After(limit):
		return "timeout" // the goroutine is leaked; the process exits at the end of the batch
	}
}

type detSpace struct {
	Mode         string `json:"mode"`
	MaxLen       int    `json:"maxlen"`
	Alphabet     []int  `json:"alphabet"`
	F1           []int  `json:"f1"`
	FM           []int  `json:"fm"`
	F8           []int  `json:"f8"`
	TailAlphabet []int  `json:"tail"`
	MaxTail      int    `json:"maxtail"`
}

// cbordet-enum: enumerate the same space as MC_CborDet and report every string the real
// implementation accepts, every timeout, and verdict counts.
func cbordetEnum(args []string) error {
	var sp detSpace
	if err := json.Unmarshal([]byte(args[0]), &sp); err != nil {
		return err
	}
	counts := map[string]int{}
	timeouts := 0
	visit := func(s []byte) {
		v := detVerdict(s, 3*time.Second)
		counts[v]++
		if v == "nil" {
			emit(map[string]interface{}{"acc": ints(s)})
		}
		if v == "unstable" {
			emit(map[string]interface{}{"unstable": ints(s)})
		}
		if v == "timeout" {
			timeouts++
			emit(map[string]interface{}{"timeout": ints(s)})
			if timeouts > 64 {
				emit(map[string]interface{}{"counts": counts, "aborted": true})
				out.Flush()
				os.Exit(0)
			}
		}
	}
	var rec func(s []byte, alpha []int, max int)
	rec = func(s []byte, alpha []int, max int) {
		if len(s) >= max {
			return
		}
		for _, c := range alpha {
			t := append(append([]byte{}, s...), byte(c))
			visit(t)
			rec(t, alpha, max)
		}
	}
	if sp.Mode == "short" {
		visit([]byte{})
		rec([]byte{}, sp.Alphabet, sp.MaxLen)
	} else {
		for _, h := range []int{27, 91, 123, 155, 187} {
			for _, a := range sp.F1 {
				for _, m := range sp.FM {
					for _, z := range sp.F8 {
						s := []byte{byte(h), byte(a), byte(m), byte(m), byte(m), byte(m), byte(m), byte(m), byte(z)}
						visit(s)
						rec(s, sp.TailAlphabet, 9+sp.MaxTail)
					}
				}
			}
		}
	}
	emit(map[string]interface{}{"counts": counts})
	return nil
}

// cbordet-list: verdicts for explicit inputs (one JSON array of numbers per stdin line).
func cbordetList(args []string) error {
	return eachLine(func(line []byte) error {
		var a []int
		if err := json.Unmarshal(line, &a); err != nil {
			return fmt.Errorf("bad line: %v", err)
		}
		emit(map[string]interface{}{"in": a, "verdict": detVerdict(unints(a), 3*time.Second)})
		return nil
	})
}

func init() {
	register("cbordet-enum", cbordetEnum)
	register("cbordet-list", cbordetList)
}
