package main

import (
	"io"
	"runtime"

	"bytes"
	"fmt"
	"github.com/WICG/webpackage/go/verifapi"
	"math/rand"
	"net/http"
	"strings"

	sxg "github.com/WICG/webpackage/go/signedexchange"
	"github.com/WICG/webpackage/go/signedexchange/version"
)

var cacheableStatus = []int{200, 203, 204, 206, 300, 301, 404, 405, 410, 414, 501}

func randToken(r *rand.Rand, n int) string {
	const cs = "abcdefghijklmnopqrstuvwxyz0123456789-"
	b := make([]byte, n)
	for i := range b {
		b[i] = cs[r.Intn(len(cs))]
	}
	if n > 0 && (b[0] == '-' || (b[0] >= '0' && b[0] <= '9')) {
		b[0] = 'x'
	}
	return string(b)
}

func randCase(r *rand.Rand, s string) string {
	b := []byte(s)
	for i := range b {
		if r.Intn(2) == 0 {
			b[i] = bytes.ToUpper(b[i : i+1])[0]
		}
	}
	return string(b)
}

func randValue(r *rand.Rand, n int) string {
	b := make([]byte, n)
	for i := range b {
		b[i] = byte(33 + r.Intn(94))
		if b[i] == ',' {
			b[i] = '.'
		}
	}
	return string(b)
}

func randPath(r *rand.Rand, n int) string {
	const cs = "abcdefghijklmnopqrstuvwxyzABCXYZ0123456789-._~/"
	b := make([]byte, n)
	for i := range b {
		b[i] = cs[r.Intn(len(cs))]
	}
	return "/" + string(b)
}

func genSpec(r *rand.Rand, ver version.Version, big bool) *sxSpec {
	host := []string{"example.com", "a.example", "sub.site.test", "example.com:8443"}[r.Intn(4)]
	plen := []int{0, 1, 10, 200, 230, 250, 260}[r.Intn(7)]
	sp := &sxSpec{ver: ver, uri: "https://" + host + randPath(r, plen), method: []string{"GET", "GET", "HEAD"}[r.Intn(3)], reqh: http.Header{}, resph: http.Header{}}
	if r.Intn(3) == 0 {
		sp.uri += "?q=" + randToken(r, 1+r.Intn(8))
	}
	// request URLs beyond the plain grammar: the format carries the URL as bytes, the library must hand back what it wrote -
	// or refuse to write what its own reader will not take
	switch r.Intn(16) {
	case 0:
		sp.uri = "HTTPS" + sp.uri[5:]
	case 1:
		sp.uri += "/caf\u00e9/men\u00fc"
	case 2:
		sp.uri += "/a|b{c}"
	case 3:
		sp.uri += "#frag"
	case 4:
		sp.uri = []string{"http" + sp.uri[5:], "ftp://" + host + "/f", "/relative/path", "", "https://" + host + "/%zz", "https://" + host + ":port/", "//" + host + "/x"}[r.Intn(7)]
	}
	sp.vURL = "https://" + host + randPath(r, []int{3, 20, 240, 300}[r.Intn(4)])
	if r.Intn(6) == 0 { // validity URLs as another implementation may spell them (same URL, not Go's spelling)
		sp.rawVURL = true
		switch r.Intn(3) {
		case 0:
			sp.vURL = "HTTPS" + sp.vURL[5:]
		case 1:
			sp.vURL += "#"
		default:
			sp.vURL = "https://" + strings.ToUpper(host) + "/V%7e"
		}
	}
	sp.certURL = "https://cert.example/" + randToken(r, 1+r.Intn(20))
	if r.Intn(6) == 0 {
		sp.certURL = "data:application/cert-chain+cbor;base64," + randToken(r, 8)
	}
	sp.status = cacheableStatus[r.Intn(len(cacheableStatus))]
	if r.Intn(5) == 0 {
		sp.status = 100 + r.Intn(900)
	}
	sp.resph.Add("Content-Type", []string{"text/html; charset=utf-8", "application/octet-stream", "x"}[r.Intn(3)])
	nh := r.Intn(6)
	if r.Intn(8) == 0 {
		nh = 20 + r.Intn(21)
	}
	lens := []int{0, 1, 5, 22, 23, 24, 25, 200, 255, 256, 257, 511, 512, 513, 1023, 1024, 1025, 4095, 4096, 4097}
	for i := 0; i < nh; i++ {
		name := randCase(r, "x-"+randToken(r, 1+r.Intn(24)))
		for j := 0; j <= r.Intn(3)/2; j++ {
			l := lens[r.Intn(len(lens))]
			if big && r.Intn(30) == 0 {
				l = []int{65535, 65536}[r.Intn(2)]
			}
			sp.resph.Add(name, randValue(r, l))
		}
	}
	if r.Intn(2) == 0 {
		sp.resph.Add("Cache-Control", []string{"max-age=100", "public", "public, max-age=1", "s-maxage=5"}[r.Intn(4)])
	}
	// headers that say something ABOUT the message or its caching are, to this format, header fields like any other: whatever
	// they declare (a length that is not the payload's, a date that is not a date) is signed and handed back, not acted on
	if r.Intn(3) == 0 {
		switch r.Intn(8) {
		case 0:
			sp.resph.Add("Content-Length", []string{"0", "1", "5", "17", "4096", "99999999999", "-1", "abc", ""}[r.Intn(9)])
		case 1:
			sp.resph.Add("Expires", []string{"Thu, 01 Jan 2099 00:00:00 GMT", "0", "-1", "2099-01-01T00:00:00Z", "never", ""}[r.Intn(6)])
			if r.Intn(2) == 0 {
				sp.status = []int{201, 302, 307, 403, 500}[r.Intn(5)]
			}
		case 2:
			sp.resph.Add("Content-Range", "bytes 0-4/5")
			sp.resph.Add("Accept-Ranges", "bytes")
		case 3:
			sp.resph.Add("Age", []string{"0", "86400", "x"}[r.Intn(3)])
			sp.resph.Add("Date", []string{"Thu, 01 Jan 2015 00:00:00 GMT", "0"}[r.Intn(2)])
		case 4:
			sp.resph.Add("Vary", []string{"*", "Accept-Encoding", "accept, cookie"}[r.Intn(3)])
		case 5:
			sp.resph.Add("Content-Location", "https://other.example/elsewhere")
			sp.resph.Add("Last-Modified", "yesterday")
			sp.resph.Add("ETag", "\"abc\"")
		case 6:
			// field names over the whole token alphabet of RFC 7230 (tchar), not only letters, digits and dashes
			for _, n := range []string{"x^caret", "x|bar", "x~tilde", "x!bang", "x#$%&'*+.^_`|~y", "1numeric", "_"} {
				if r.Intn(2) == 0 {
					sp.resph.Add(n, "v")
				}
			}
		default:
			sp.resph["X-No-Values"] = nil // a name mapped to no value: the comma-join of zero values is the empty string
		}
	}
	for i := 0; i < r.Intn(3); i++ {
		sp.reqh.Add(randCase(r, "accept-"+randToken(r, 1+r.Intn(6))), randValue(r, lens[r.Intn(len(lens))]))
	}
	if r.Intn(12) == 0 && ver != version.Version1b3 {
		sp.reqh.Add([]string{"x^caret", "x|bar", "x#$%&'*+.^_`|~y"}[r.Intn(3)], "v")
	}
	if r.Intn(16) == 0 { // a response that already has a (foreign or stale) digest header
		dn := ver.MiceEncoding().DigestHeaderName()
		sp.resph.Add(dn, []string{"sha-256=47DEQpj8HBSa+/TImW+5JCeuQeRkm5NMpJWZG3hSuFU=", "x", "mi-sha256-03=AAAA"}[r.Intn(3)])
	}
	sp.rs = []int{1, 2, 16, 16, 100, 4096, 16383, 16384}[r.Intn(8)]
	pl := []int{0, 1, sp.rs - 1, sp.rs, sp.rs + 1, 2 * sp.rs, 3*sp.rs + 1}[r.Intn(7)]
	if pl > 40000 {
		pl = 40000
	}
	sp.payload = randBytes(r, pl)
	sp.date = []int64{0, 1, 1 << 31, 1 << 32, 1 << 40, 1517418800, 1700000000}[r.Intn(7)]
	sp.expires = sp.date + []int64{0, 1, 2, 3600, 604799, 604800}[r.Intn(6)] // 0: valid at exactly one second
	if r.Intn(2) == 0 { // time.Time values with sub-second parts, in both orders
		sp.dateNs, sp.expNs = int64(r.Intn(1000000000)), int64(r.Intn(1000000000))
	}
	return sp
}

// fullEvent signs, dumps every byte-level artefact, writes, reads back and verifies at the given instants.
func fullEvent(id string, sp *sxSpec, kc *keyCert, times [][2]int64) {
	finishFull(id, sp, kc, buildSigned(sp, kc), times)
}

// gateAlg holds a signature in flight: Sign announces itself and waits before it signs the message it was handed.
type gateAlg struct {
	inner            verifapi.SigningAlgorithm
	entered, release chan struct{}
}

func (g *gateAlg) Sign(m []byte) ([]byte, error) {
	g.entered <- struct{}{}
	<-g.release
	return g.inner.Sign(m)
}

func finishFull(id string, sp *sxSpec, kc *keyCert, se *signedEx, times [][2]int64) []byte {
	return finishFullG(id, sp, kc, se, times, false)
}

// nestWriter serializes another exchange in the middle of the first Write call it receives (the overlap of two Write
// calls, made deterministic: no second goroutine needed)
type nestWriter struct {
	inner io.Writer
	other *sxg.Exchange
	done  bool
}

func (n *nestWriter) Write(p []byte) (int, error) {
	if !n.done {
		n.done = true
		var sink bytes.Buffer
		n.other.Write(&sink)
	}
	return n.inner.Write(p)
}

var prevWritten *sxg.Exchange

// regen: the exchange was not built by NewExchange + MiEncodePayload but obtained from ReadExchange, edited and signed
// again (no MI step to judge: the payload and its digest header are whatever the object holds)
func finishFullG(id string, sp *sxSpec, kc *keyCert, se *signedEx, times [][2]int64, regen bool) []byte {
	var file []byte
	ev := map[string]interface{}{"case": id, "kind": "full", "regen": regen, "xin": se.xin, "rs": sp.rs, "signer": signerRec(sp, kc), "signerr": se.err}
	e := se.e
	ev["x"] = xOf(e)
	empty := []int{}
	ev["msg"], ev["hdrs"], ev["integrity"], ev["file"], ev["x2"], ev["writeerr"], ev["readerr"], ev["hdrerr"] = empty, empty, empty, empty, xOf(e), true, true, true
	verifs := []verif{}
	if se.err == "" {
		var mb, hb, fb bytes.Buffer
		herr := e.DumpExchangeHeaders(&hb)
		ev["hdrerr"] = herr != nil
		if herr == nil {
			ev["hdrs"] = ints(hb.Bytes())
			if err := e.DumpSignedMessage(&mb, se.signer); err == nil {
				ev["msg"] = ints(mb.Bytes())
			}
			if hi, err := e.ComputeHeaderIntegrity(); err == nil {
				ev["integrity"] = ints([]byte(hi))
			}
		}
		for _, t := range times {
			verifs = append(verifs, doVerify(e, kc, t[0], int(t[1]), "mem"))
		}
		// the destination is slow: while this Write is in progress (at its first call into the destination) ANOTHER exchange
		// is written completely - what a server does that streams several exchanges at once; each file is its own exchange's
		var dest io.Writer = &fb
		if prevWritten != nil && prevWritten != e {
			dest = &nestWriter{inner: &fb, other: prevWritten}
		}
		werr := e.Write(dest)
		prevWritten = e
		ev["writeerr"] = werr != nil
		if werr == nil {
			ev["file"] = ints(fb.Bytes())
			file = fb.Bytes()
			e2, rerr := sxg.ReadExchange(bytes.NewReader(fb.Bytes()))
			ev["readerr"] = rerr != nil
			if rerr == nil {
				ev["x2"] = xOf(e2)
				for _, t := range times {
					verifs = append(verifs, doVerify(e2, kc, t[0], int(t[1]), "file"))
				}
			}
		}
	}
	ev["verifs"] = verifs
	emit(ev)
	return file
}

// secondGeneration: an exchange READ from a file is an object like any other: a program edits it (status, a response
// header, the payload, for b1 the URL / for b1 and b2 the request part), signs it again and writes it.  What is written is
// the edited exchange (judged exactly like a first-generation one), not what the object was parsed from.
func secondGeneration(id string, sp *sxSpec, kc *keyCert, file []byte, r *rand.Rand) {
	if len(file) == 0 {
		return
	}
	for variant := 0; variant < 6; variant++ {
		e, err := sxg.ReadExchange(bytes.NewReader(file))
		if err != nil {
			return
		}
		sp2 := *sp
		sp2.shared = false
		sp2.date, sp2.expires = sp.date+10, sp.expires+10
		regen := true
		var xin xrec
		switch variant {
		case 0:
			e.ResponseStatus = map[int]int{200: 203, 203: 200}[e.ResponseStatus]
			if e.ResponseStatus == 0 {
				e.ResponseStatus = 200
			}
		case 1:
			e.ResponseHeaders.Set("X-Second-Generation", randValue(r, 1+r.Intn(20)))
		case 2:
			for k := range e.ResponseHeaders {
				if lk := strings.ToLower(k); lk != "digest" && lk != "mi-draft2" && lk != "content-encoding" && lk != "content-type" && lk != "cache-control" {
					e.ResponseHeaders.Del(k)
					break
				}
			}
		case 3:
			// a new payload: the old digest / encoding headers go, MiEncodePayload is applied again
			e.ResponseHeaders.Del("Digest")
			e.ResponseHeaders.Del("MI-Draft2")
			e.ResponseHeaders.Del("Content-Encoding")
			e.Payload = randBytes(r, []int{0, 1, 17, 300}[r.Intn(4)])
			sp2.rs = []int{1, 16, 64}[r.Intn(3)]
			xin = xOf(e)
			if err := e.MiEncodePayload(sp2.rs); err != nil {
				finishFullG(fmt.Sprintf("%s-g%d", id, variant), &sp2, kc, &signedEx{e: e, xin: xin, err: "mi"}, nil, false)
				continue
			}
			regen = false
		case 4:
			if e.Version != version.Version1b1 {
				continue
			}
			e.RequestURI += "second"
		case 5:
			if e.Version == version.Version1b3 {
				continue
			}
			e.RequestHeaders.Set("X-Second-Request", "1")
		}
		if regen {
			xin = xOf(e)
		}
		se := &signedEx{e: e, xin: xin}
		signEx(se, &sp2, kc, nil)
		finishFullG(fmt.Sprintf("%s-g%d", id, variant), &sp2, kc, se, instants(&sp2)[1:4], regen)
	}
}

func instants(sp *sxSpec) [][2]int64 {
	mid := sp.date + (sp.expires-sp.date)/2
	ts := [][2]int64{{sp.date, 0}, {sp.date + 1, 0}, {mid, 0}, {sp.expires - 1, 999999999}, {sp.expires, 0}}
	return ts
}

// sxg-full <tier>: C08 + C02 cases.
func sxgFull(args []string) error {
	thorough := len(args) > 0 && args[0] == "thorough"
	r := rand.New(rand.NewSource(seed()))
	kcs := []*keyCert{newKeyCert("p256", []string{"example.com"}, 0), newKeyCert("p384", []string{"example.com"}, 300)}
	kcs = append(kcs, renew(kcs[0], 7)) // the first key again under a renewed certificate
	n := 40
	if thorough {
		n = 400
	}
	id := 0
	for i := 0; i < n; i++ {
		// a batch: the three exchanges are all prepared (NewExchange + MiEncodePayload) before the first is signed and
		// written, as a server preparing several responses does; each must still be exactly what it was given
		type item struct {
			id string
			sp *sxSpec
			kc *keyCert
			se *signedEx
		}
		var batch []item
		for _, ver := range version.AllVersions {
			id++
			sp := genSpec(r, ver, thorough || i%10 == 0)
			sp.shared = i%2 == 1 // every other round signs through the one long-lived Signer, certificate and key changing under it
			kc := kcs[(id+i)%3]
			if sp.shared && i%4 == 1 {
				// every second shared round keeps ONE key for the whole batch: the Signer's Algorithm (derived from the key on
				// first use and kept) then makes three signatures in a row, each of which must be a signature over its own message
				kc = kcs[i%3]
			}
			batch = append(batch, item{fmt.Sprintf("f%d", id), sp, kc, prepareEx(sp)})
		}
		for _, it := range batch {
			if it.se.err == "" {
				signEx(it.se, it.sp, it.kc, nil)
			}
			file := finishFull(it.id, it.sp, it.kc, it.se, instants(it.sp))
			if thorough || i%4 == 0 {
				secondGeneration(it.id, it.sp, it.kc, file, r)
			}
		}
	}
	// fixed instances (not sampled): one feature each on an otherwise plain exchange, every version
	for _, ver := range version.AllVersions {
		var specs []*sxSpec
		mk := func(f func(sp *sxSpec)) {
			sp := baseSpec(r, ver)
			f(sp)
			specs = append(specs, sp)
		}
		for _, ev := range []string{"Thu, 01 Jan 2099 00:00:00 GMT", "0", "-1", "2099-01-01T00:00:00Z", "never", ""} {
			for _, st := range []int{302, 403} {
				ev, st := ev, st
				mk(func(sp *sxSpec) { sp.resph.Del("Cache-Control"); sp.resph.Set("Expires", ev); sp.status = st })
			}
		}
		for _, cl := range []string{"0", "1", "5", "33", "34", "112", "99999999999", "-1", "abc"} {
			cl := cl
			mk(func(sp *sxSpec) { sp.resph.Set("Content-Length", cl) })
		}
		mk(func(sp *sxSpec) {
			for _, n := range []string{"x^caret", "x|bar", "x~tilde", "x!bang", "x#$%&'*+.^_`|~y", "1numeric", "_"} {
				sp.resph.Add(n, "v")
				sp.reqh.Add(n, "w")
			}
		})
		mk(func(sp *sxSpec) { sp.resph["X-No-Values"] = nil; sp.reqh["X-No-Values"] = []string{} })
		mk(func(sp *sxSpec) { sp.payload = nil })
		for _, sp := range specs {
			id++
			kc := kcs[id%2]
			se := prepareEx(sp)
			if se.err == "" {
				signEx(se, sp, kc, nil)
			}
			finishFull(fmt.Sprintf("x%d", id), sp, kc, se, instants(sp))
		}
	}
	// a signature held in flight while another exchange is signed completely (one scheduler thread, so that both calls
	// share whatever per-thread state the library keeps): each signature must still cover its own message
	{
		prev := runtime.GOMAXPROCS(1)
		for i := 0; i < 6; i++ {
			verA, verB := version.AllVersions[i%3], version.AllVersions[(i+1+i/3)%3]
			spA, spB := genSpec(r, verA, false), genSpec(r, verB, false)
			kcA, kcB := kcs[i%2], kcs[(i+1)%2]
			seA, seB := prepareEx(spA), prepareEx(spB)
			if seA.err != "" || seB.err != "" {
				continue
			}
			inner, err := verifapi.SigningAlgorithmForPrivateKey(kcA.key, crandReader())
			if err != nil {
				return err
			}
			g := &gateAlg{inner, make(chan struct{}), make(chan struct{})}
			done := make(chan struct{})
			go func() { signEx(seA, spA, kcA, g); close(done) }()
			select {
			case <-g.entered:
				signEx(seB, spB, kcB, nil)
				g.release <- struct{}{}
			case <-done: // the signer refused before asking for a signature
			}
			<-done
			id++
			finishFull(fmt.Sprintf("i%da", id), spA, kcA, seA, instants(spA)[:2])
			finishFull(fmt.Sprintf("i%db", id), spB, kcB, seB, instants(spB)[:2])
		}
		runtime.GOMAXPROCS(prev)
	}
	// boundary grid: URL length 65535/65536/65537, Signature length 16384/16385, header block 524288/524289
	for _, ver := range version.AllVersions {
		for _, ul := range []int{65535, 65536, 65537} {
			id++
			sp := genSpec(r, ver, false)
			sp.uri = "https://example.com/" + strings.Repeat("u", ul-len("https://example.com/"))
			sp.vURL = "https://example.com/v"
			sp.payload, sp.rs = []byte("hello world"), 16
			fullEvent(fmt.Sprintf("u%d", id), sp, kcs[0], instants(sp)[:2])
		}
		for _, target := range []int{16384, 16385} {
			id++
			sp := genSpec(r, ver, false)
			sp.payload, sp.rs = []byte("hello world"), 16
			sp.certURL = "https://cert.example/c"
			se := buildSigned(sp, kcs[0])
			sp.certURL += strings.Repeat("c", target-len(se.e.SignatureHeaderValue))
			fullEvent(fmt.Sprintf("s%d", id), sp, kcs[0], instants(sp)[:2])
		}
		if thorough || ver == version.Version1b3 {
			for _, target := range []int{524288, 524289} {
				id++
				sp := genSpec(r, ver, false)
				sp.payload, sp.rs = []byte("hello world"), 16
				sp.resph = http.Header{}
				sp.resph.Add("Content-Type", "text/plain")
				sp.resph.Add("X-Big", strings.Repeat("b", 500000))
				se := buildSigned(sp, kcs[0])
				var hb bytes.Buffer
				se.e.DumpExchangeHeaders(&hb)
				sp.resph.Set("X-Big", strings.Repeat("b", 500000+target-hb.Len()))
				fullEvent(fmt.Sprintf("h%d", id), sp, kcs[0], instants(sp)[:1])
			}
		}
	}
	return nil
}

func init() { register("sxg-full", sxgFull) }
