package main

import (
	"bytes"
	"crypto"
	"crypto/ecdsa"
	"crypto/elliptic"
	crand "crypto/rand"
	"crypto/x509"
	"crypto/x509/pkix"
	"github.com/WICG/webpackage/go/verifapi"
	"io/ioutil"
	"log"
	"math/big"
	"net/http"
	"net/url"
	"sort"
	"time"

	sxg "github.com/WICG/webpackage/go/signedexchange"
	"github.com/WICG/webpackage/go/signedexchange/certurl"
	"github.com/WICG/webpackage/go/signedexchange/version"
)

type hent struct {
	N  []int   `json:"n"`
	Vs [][]int `json:"vs"`
}

// xrec mirrors the exchange record of tla/Sxg.tla.
type xrec struct {
	Ver     string `json:"ver"`
	Uri     []int  `json:"uri"`
	Method  []int  `json:"method"`
	Reqh    []hent `json:"reqh"`
	Status  int    `json:"status"`
	Resph   []hent `json:"resph"`
	Payload []int  `json:"payload"`
	Sighdr  []int  `json:"sighdr"`
}

func hOf(h http.Header) []hent {
	r := []hent{}
	var keys []string
	for k := range h {
		keys = append(keys, k)
	}
	sort.Strings(keys)
	for _, k := range keys {
		vs := [][]int{}
		for _, v := range h[k] {
			vs = append(vs, ints([]byte(v)))
		}
		r = append(r, hent{ints([]byte(k)), vs})
	}
	return r
}

func xOf(e *sxg.Exchange) xrec {
	st := e.ResponseStatus
	if st < 0 || st > 1000000000 {
		st = -1
	}
	return xrec{string(e.Version), ints([]byte(e.RequestURI)), ints([]byte(e.RequestMethod)), hOf(e.RequestHeaders), st,
		hOf(e.ResponseHeaders), ints(e.Payload), ints([]byte(e.SignatureHeaderValue))}
}

type keyCert struct {
	key   *ecdsa.PrivateKey
	certs []*x509.Certificate
	chain []byte // application/cert-chain+cbor
	curve string
}

var serial int64 = 1000

func newKeyCert(curve string, hosts []string, pad int) *keyCert {
	var c elliptic.Curve = elliptic.P256()
	if curve == "p384" {
		c = elliptic.P384()
	}
	if curve == "p521" {
		c = elliptic.P521()
	}
	if curve == "p224" {
		c = elliptic.P224()
	}
	key, err := ecdsa.GenerateKey(c, crand.Reader)
	if err != nil {
		panic(err)
	}
	serial++
	tmpl := &x509.Certificate{
		SerialNumber: big.NewInt(serial),
		Subject:      pkix.Name{CommonName: "verif " + curve, Organization: []string{string(bytes.Repeat([]byte{'x'}, pad))}},
		NotBefore:    time.Unix(946684800, 0),
		NotAfter:     time.Unix(4102444800, 0),
		DNSNames:     hosts,
		KeyUsage:     x509.KeyUsageDigitalSignature,
	}
	der, err := x509.CreateCertificate(crand.Reader, tmpl, tmpl, &key.PublicKey, key)
	if err != nil {
		panic(err)
	}
	cert, err := x509.ParseCertificate(der)
	if err != nil {
		panic(err)
	}
	chain, err := certurl.NewCertChain([]*x509.Certificate{cert}, []byte("ocsp"), nil)
	if err != nil {
		panic(err)
	}
	var buf bytes.Buffer
	if err := chain.Write(&buf); err != nil {
		panic(err)
	}
	return &keyCert{key, []*x509.Certificate{cert}, buf.Bytes(), curve}
}

// renew issues another certificate for the same key (what a certificate renewal does)
func renew(kc *keyCert, pad int) *keyCert {
	serial++
	tmpl := &x509.Certificate{
		SerialNumber: big.NewInt(serial),
		Subject:      pkix.Name{CommonName: "verif renewed " + kc.curve, Organization: []string{string(bytes.Repeat([]byte{'y'}, pad))}},
		NotBefore:    time.Unix(946684800, 0),
		NotAfter:     time.Unix(4102444800, 0),
		DNSNames:     kc.certs[0].DNSNames,
		KeyUsage:     x509.KeyUsageDigitalSignature,
	}
	der, err := x509.CreateCertificate(crand.Reader, tmpl, tmpl, &kc.key.PublicKey, kc.key)
	if err != nil {
		panic(err)
	}
	cert, err := x509.ParseCertificate(der)
	if err != nil {
		panic(err)
	}
	chain, err := certurl.NewCertChain([]*x509.Certificate{cert}, []byte("ocsp"), nil)
	if err != nil {
		panic(err)
	}
	var buf bytes.Buffer
	if err := chain.Write(&buf); err != nil {
		panic(err)
	}
	return &keyCert{kc.key, []*x509.Certificate{cert}, buf.Bytes(), kc.curve}
}

var quiet = log.New(ioutil.Discard, "", 0)

type tstamp struct {
	S  []int `json:"s"`
	Ns int   `json:"ns"`
}

type verif struct {
	Phase string `json:"phase"`
	T     tstamp `json:"t"`
	Ok    bool   `json:"ok"`
	Ret   []int  `json:"ret"`
	Panic bool   `json:"panic"`
}

func doVerify(e *sxg.Exchange, kc *keyCert, sec int64, ns int, phase string) verif {
	return doVerifyT(e, kc, time.Unix(sec, int64(ns)), phase)
}

// doVerifyT verifies at a time.Time given as such (the zero Time, instants carrying a monotonic reading or another
// location are values a caller can pass); the instant is recorded as its Unix seconds (two's complement) + nanoseconds.
func doVerifyT(e *sxg.Exchange, kc *keyCert, tm time.Time, phase string) verif {
	sec, ns := tm.Unix(), tm.Nanosecond()
	v := verif{Phase: phase, T: tstamp{u64to(uint64(sec)), ns}, Ret: []int{}}
	func() {
		defer func() {
			if r := recover(); r != nil {
				v.Panic = true
			}
		}()
		ret, ok := e.Verify(tm, func(string) ([]byte, error) { return kc.chain, nil }, quiet)
		v.Ok = ok
		if ok {
			v.Ret = ints(ret)
		}
	}()
	return v
}

// sxSpec describes an exchange to build and sign.
type sxSpec struct {
	ver       version.Version
	uri       string
	method    string
	reqh      http.Header
	status    int
	resph     http.Header
	payload   []byte
	rs        int
	certURL   string
	vURL      string
	date      int64
	expires   int64
	dateNs    int64 // sub-second parts of the Signer's Date / Expires (the format carries whole seconds: floor)
	expNs     int64
	skipMI    bool
	shared    bool // sign through the long-lived Signer object (fields updated in place between exchanges)
	rawVURL   bool // hand vURL to the signer verbatim (a spelling url.Parse would normalise: upper-case scheme, empty fragment)
	foreignMI bool // protect the payload with the other drafts' MI scheme (sxg-pol scenario)
}

// one Signer object used for many exchanges, its certificate / key / times replaced between them
var sharedSigner = &sxg.Signer{}

type signedEx struct {
	e      *sxg.Exchange
	xin    xrec
	signer *sxg.Signer
	err    string
}

func cloneHeader(h http.Header) http.Header {
	r := http.Header{}
	for k, v := range h {
		r[k] = append([]string{}, v...)
	}
	return r
}

func buildSigned(sp *sxSpec, kc *keyCert) *signedEx {
	r := prepareEx(sp)
	if r.err != "" {
		return r
	}
	return signEx(r, sp, kc, nil)
}

// prepareEx: NewExchange + MiEncodePayload (the exchange may then wait while others are prepared, signed, written)
func prepareEx(sp *sxSpec) *signedEx {
	reqh := cloneHeader(sp.reqh)
	if sp.ver == version.Version1b3 {
		reqh = http.Header{}
	}
	e := sxg.NewExchange(sp.ver, sp.uri, sp.method, reqh, sp.status, cloneHeader(sp.resph), append([]byte{}, sp.payload...))
	r := &signedEx{e: e, xin: xOf(e)}
	if !sp.skipMI {
		if err := e.MiEncodePayload(sp.rs); err != nil {
			r.err = "mi"
			return r
		}
	}
	return r
}

// signEx: AddSignatureHeader; alg (optional) replaces the signing algorithm (used to hold a signature in flight)
func signEx(r *signedEx, sp *sxSpec, kc *keyCert, alg verifapi.SigningAlgorithm) *signedEx {
	e := r.e
	cu, _ := url.Parse(sp.certURL)
	vu, _ := url.Parse(sp.vURL)
	if sp.rawVURL {
		vu = &url.URL{Opaque: sp.vURL} // String() returns the text as it is: what a foreign signer may have written
	}
	if sp.shared {
		r.signer = sharedSigner
		r.signer.Date, r.signer.Expires, r.signer.Certs = time.Unix(sp.date, sp.dateNs), time.Unix(sp.expires, sp.expNs), kc.certs
		if r.signer.PrivKey != crypto.PrivateKey(kc.key) {
			// Algorithm is a public field derived from PrivKey on first use: a caller that replaces the key resets it
			r.signer.Algorithm = nil
		}
		r.signer.CertUrl, r.signer.ValidityUrl, r.signer.PrivKey = cu, vu, kc.key
	} else {
		r.signer = &sxg.Signer{Date: time.Unix(sp.date, sp.dateNs), Expires: time.Unix(sp.expires, sp.expNs), Certs: kc.certs, CertUrl: cu, ValidityUrl: vu, PrivKey: kc.key}
	}
	if alg != nil {
		r.signer.Algorithm = alg
	}
	if err := e.AddSignatureHeader(r.signer); err != nil {
		r.err = "sign"
	}
	return r
}

func signerRec(sp *sxSpec, kc *keyCert) map[string]interface{} {
	return map[string]interface{}{"curve": kc.curve, "leaf": ints(kc.certs[0].Raw), "certurl": ints([]byte(sp.certURL)), "vurl": ints([]byte(sp.vURL)),
		"date": u64to(uint64(sp.date)), "expires": u64to(uint64(sp.expires))}
}

func crandReader() *crandT { return &crandT{} }

type crandT struct{}

func (*crandT) Read(p []byte) (int, error) { return crand.Read(p) }
